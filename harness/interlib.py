"""Shared pieces of the intersection correspondences (C02, C03, C04, C12)."""
import hashlib
from fractions import Fraction as F
from . import core, gen, compare, admit, exact as E
from .gen import tok


MOVES = [(F(1), F(-2), F(3)), (F(-2), F(1), F(1, 2)), (F(0), F(0), F(-4)), (F(3, 2), F(0), F(0)), (F(-1), F(-1), F(-1)), (F(0), F(5), F(1, 4))]


def move_plan(A, B):
    """deterministic in the case: about one case in six has one operand arrive by a primed in-place move (built elsewhere,
    queried, moved to its place) instead of being constructed in place — stale derived state after move() then shows up as a
    wrong intersection / membership.  -> None | (operand index, translation)"""
    if A[0] in ('V', 'N', 'none') and B[0] in ('V', 'N', 'none'):
        return None
    h = int(hashlib.blake2b((repr(A) + '|' + repr(B)).encode(), digest_size=4).hexdigest(), 16)
    if h % 6 not in (0, 1):
        return None
    which = (h // 6) % 2
    if (A, B)[which][0] in ('N', 'V', 'none'):
        which = 1 - which
    if (A, B)[which][0] in ('N', 'V', 'none'):
        return None
    return which, MOVES[(h // 12) % len(MOVES)], ('move' if h % 6 == 0 else 'decoy')


def build_pair(impl, A, B):
    """one case in six: an operand arrives by a primed in-place move; one in six: an operand is built from Point instances that
    are shared with decoy objects which are then moved (constructors must copy their arguments)"""
    mp = move_plan(A, B)
    if mp is None:
        return impl.build(A), impl.build(B)
    which, t, mode = mp
    if mode == 'move':
        # the partner exists first and takes part in the priming queries (state memoised per partner must not survive the move);
        # when the operand has a hash twin one unit away it arrives from there: the move leaves its hash unchanged
        if which == 0:
            b = impl.build(B)
            return impl.build_via_move(A, gen.translation_twin(A) or t, partner=b), b
        a = impl.build(A)
        return a, impl.build_via_move(B, gen.translation_twin(B) or t, partner=a)
    if which == 0:
        return impl.build_with_decoy(A, t), impl.build(B)
    return impl.build(A), impl.build_with_decoy(B, t)


def replay_preamble(impl, A, B):
    """a follow-up case (one operand is the hash twin of the operand of the case before it) only fails AFTER that case: before a
    replay, every query of the pair is asked on the twin configurations of the case (hash_twin is an involution)"""
    for A0, B0 in twin_followups(A, B):
        try:
            a, b = impl.build(A0), impl.build(B0)
        except Exception:
            continue
        for f in (lambda: impl.intersection(a, b), lambda: a in b, lambda: b in a, lambda: impl.distance(a, b), lambda: a == b):
            try:
                f()
            except Exception:
                pass


def twin_followups(A, B):
    """follow-up cases run right after (A, B) in the same process: one operand replaced by a hash twin (a different object with the
    same library hash, gen.hash_twin).  Anything memoised under hashes answers the follow-up with the result of the first call."""
    out = []
    ta = gen.hash_twin(A) if A[0] not in ('N', 'none') else None
    tb = gen.hash_twin(B) if B[0] not in ('N', 'none') else None
    def shift(o, tw):      # twins that are translates of the object: the whole configuration translated has the same answer, translated
        if o[0] in ('P', 'PL'):
            return E.sub(tw[1], o[1])
        if o[0] == 'G':
            return E.sub(tw[1][0], o[1][0])
        return None
    if ta is not None:
        out.append((ta, B))
        t = shift(A, ta)
        if t is not None and B[0] not in ('N', 'none', 'V'):
            out.append((ta, gen.translate_obj(B, t)))
    if tb is not None:
        out.append((A, tb))
        t = shift(B, tb)
        if t is not None and A[0] not in ('N', 'none', 'V'):
            out.append((gen.translate_obj(A, t), tb))
    return out


def observe(impl, A, B, method=False):
    try:
        a, b = build_pair(impl, A, B)
    except Exception as e:
        return ('ctor-exc', type(e).__name__, str(e)[:80])
    if method:
        r = core.guarded(impl.call, lambda x, y: x.intersection(y), a, b)
    else:
        r = core.guarded(impl.call, impl.intersection, a, b)
    if r[0] == 'ok':
        return ('ok', impl.describe(r[1]))
    return r


def describe_obs(obs):
    if obs[0] == 'ok':
        d = obs[1]
        if d[0] == 'none':
            return 'returns None'
        if d[0] in ('G', 'B'):
            vs = compare.verts(d)
            return 'returns %s with %d vertices %s' % (d[0], len(vs), ' '.join('(%.6g,%.6g,%.6g)' % tuple(float(c) for c in p) for p in vs[:8]))
        return 'returns ' + d[0] + ' ' + ' '.join('%.9g' % float(c) for p in d[1:] if isinstance(p, tuple) for c in p)
    return 'raises ' + ' '.join(str(x) for x in obs[1:])


def show_exact(d):
    if d[0] == 'none':
        return 'None'
    if d[0] == 'B':
        return 'B %d vertices %s volume %s' % (len(d[1]), ' '.join('(%s)' % gen.tv(p) for p in d[1]), d[2] if len(d) > 2 and not isinstance(d[2], dict) else '')
    if d[0] == 'G':
        return 'G ' + ' '.join('(%s)' % gen.tv(p) for p in d[1])
    return d[0] + ' ' + ' '.join('(%s)' % gen.tv(p) for p in d[1:])


def bounded_oracle(A, B):
    """exact A ∩ B by vertex enumeration when the result is bounded, else None"""
    if E.bounded(A) or E.bounded(B):
        return E.oracle_inter(A, B)
    return None


def judge(ctx, prop, A, B, cls, obs, mline, use_oracle=True, extra_key=''):
    """three-way comparison: implementation vs Lean model vs exact vertex-enumeration oracle"""
    key = tok(A) + '|' + tok(B) + extra_key
    m = compare.parse_model(mline)
    orc = bounded_oracle(A, B) if use_oracle else None
    truth = orc if orc is not None else m
    ctx.count(key, nontrivial=(truth[0] != 'none'))
    ctx.dist['%s-%s -> %s' % (A[0], B[0], truth[0])] += 1
    ctx.dist['class ' + cls.split(':')[0]] += 1
    mp_ = move_plan(A, B)
    if mp_ is not None:
        ctx.dist['one operand arrived by a primed in-place move' if mp_[2] == 'move' else 'one operand shares its Points with decoy objects that were then moved'] += 1
    if orc is not None and not (m[0] != 'err' and compare.same_den(m, orc, 1e-9)):
        ok, why = admit.admitted([A, B], extra_points=[p for p in (compare.verts(orc) if orc[0] in 'GB' else [q for q in orc[1:] if isinstance(q, tuple)])])
        if ok:
            # the hand-written model disagrees with the independent exact oracle: the MODEL is wrong
            ctx.stats['MODEL-vs-oracle mismatch'] += 1
            ctx.extra.setdefault('model_mismatch', []).append(dict(case=key, model=mline, oracle=show_exact(orc)))
    if obs[0] == 'ok' and compare.same_den(obs[1], truth):
        ctx.stats['agree'] += 1
        return True
    extra = []
    if truth[0] in ('G', 'B'):
        extra = compare.verts(truth)
    elif truth[0] != 'none':
        extra = [q for q in truth[1:] if isinstance(q, tuple)]
    ok, why = admit.admitted([A, B], extra_points=extra)
    if not ok:
        ctx.stats['rejected-by-admission: ' + why] += 1
        return True
    ctx.stats['DISAGREE'] += 1
    ctx.violation(key, 'intersection(%s, %s)%s: implementation %s; exact intersection is %s' % (tok(A), tok(B), extra_key, describe_obs(obs), show_exact(truth)),
                  dict(a=gen.jsonable(A), b=gen.jsonable(B), impl=gen.jsonable(obs), model=mline, exact=show_exact(truth), cls=cls, form=extra_key))
    return False


def replay_pair(ctx, prop, case, method=False):
    from . import impl
    c = case['case']
    A, B = gen.from_jsonable(c['a']), gen.from_jsonable(c['b'])
    method = method or c.get('form') == ' [method form]'
    replay_preamble(impl, A, B)
    obs = observe(impl, A, B, method)
    ml = core.model_lines(['inter %s %s' % (tok(A), tok(B))])[0]
    m = compare.parse_model(ml)
    orc = bounded_oracle(A, B)
    truth = orc if orc is not None else m
    ok = obs[0] == 'ok' and compare.same_den(obs[1], truth)
    print('operands:', tok(A), '|', tok(B))
    print('implementation:', describe_obs(obs))
    print('exact:', show_exact(truth), ' (model line: %s)' % ml[:200])
    print('AGREE' if ok else 'VIOLATION property=%s replay=%s' % (prop, case.get('replay_cmd', '').split()[-1] if case.get('replay_cmd') else ''))
    return 0 if ok else 1


def finish_model_check(ctx):
    mm = ctx.extra.get('model_mismatch')
    if mm and ctx.broken:
        # the model is generated from / tied to the source; with broken obligations it may legitimately
        # follow a broken source.  The verdicts above used the independent exact oracle.
        ctx.stats['model follows the broken source (oracle used as truth)'] = len(mm)
        return
    if mm:
        for x in mm[:5]:
            core.log('MODEL MISMATCH (infrastructure, not a violation): %s' % x)
        raise RuntimeError('the Lean model disagrees with the exact oracle on %d admitted cases' % len(mm))
