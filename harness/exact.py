"""Exact-rational geometry kit (Fractions, stdlib only).

Used to GENERATE and ADMIT cases and as an independent test oracle (vertex
enumeration over H-representations) where a Lean kernel is unproved.  Nothing
here is part of a proof; verdicts about flats come from the proven Lean model.

Object descriptors (all coordinates Fractions):
  ('P', p) ('L', p, d) ('PL', p, n) ('S', a, b) ('H', p, v)
  ('G', [p0, p1, ...])            vertex list as handed to ConvexPolygon
  ('B', [[p..], [p..], ...])      face vertex lists as handed to ConvexPolyhedron
"""
import itertools
from fractions import Fraction as F

ZERO3 = (F(0), F(0), F(0))


def V(*c):
    return tuple(F(x) for x in c)


def add(u, v): return (u[0] + v[0], u[1] + v[1], u[2] + v[2])
def sub(u, v): return (u[0] - v[0], u[1] - v[1], u[2] - v[2])
def mul(k, u): return (k * u[0], k * u[1], k * u[2])
def neg(u): return (-u[0], -u[1], -u[2])
def dot(u, v): return u[0] * v[0] + u[1] * v[1] + u[2] * v[2]
def cross(u, v): return (u[1] * v[2] - u[2] * v[1], u[2] * v[0] - u[0] * v[2], u[0] * v[1] - u[1] * v[0])
def nsq(u): return dot(u, u)
def det3(a, b, c): return dot(a, cross(b, c))
def is0(u): return u[0] == 0 and u[1] == 0 and u[2] == 0
def par(u, v): return is0(cross(u, v))


def mean(pts):
    n = len(pts)
    return (sum(p[0] for p in pts) / n, sum(p[1] for p in pts) / n, sum(p[2] for p in pts) / n)


# ------------------------------------------------------------------ hulls
def _hull2(ab):
    """strict 2-D convex hull (monotone chain), counter-clockwise"""
    ab = sorted(set(ab))
    if len(ab) < 3:
        return ab

    def c2(o, a, b): return (a[0] - o[0]) * (b[1] - o[1]) - (a[1] - o[1]) * (b[0] - o[0])
    lo = []
    for p in ab:
        while len(lo) >= 2 and c2(lo[-2], lo[-1], p) <= 0:
            lo.pop()
        lo.append(p)
    up = []
    for p in reversed(ab):
        while len(up) >= 2 and c2(up[-2], up[-1], p) <= 0:
            up.pop()
        up.append(p)
    return lo[:-1] + up[:-1]


def planar_hull(pts, n):
    """extreme points of coplanar pts (normal n), ordered counter-clockwise about n"""
    k = max(range(3), key=lambda i: abs(n[i]))
    i, j = [(1, 2), (2, 0), (0, 1)][k]
    sgn = 1 if n[k] > 0 else -1
    proj = {}
    for p in pts:
        proj[(p[i], p[j])] = p
    h = _hull2(list(proj))
    out = [proj[q] for q in h]
    if sgn < 0:
        out.reverse()
    return out


def affine_rank(pts):
    """(rank, basis data) of the affine hull of pts: 0 point, 1 line, 2 plane, 3 space; -1 empty"""
    pts = list(dict.fromkeys(pts))
    if not pts:
        return -1
    p0 = pts[0]
    d1 = None
    for p in pts[1:]:
        if p != p0:
            d1 = sub(p, p0)
            break
    if d1 is None:
        return 0
    nrm = None
    for p in pts[1:]:
        c = cross(d1, sub(p, p0))
        if not is0(c):
            nrm = c
            break
    if nrm is None:
        return 1
    for p in pts[1:]:
        if dot(nrm, sub(p, p0)) != 0:
            return 3
    return 2


def hull_faces(pts):
    """faces (strict, CCW seen from outside) of the convex hull of pts, or None when not 3-dimensional"""
    pts = list(dict.fromkeys(pts))
    if affine_rank(pts) != 3:
        return None
    n = len(pts)
    faces = {}
    for i, j, k in itertools.combinations(range(n), 3):
        nrm = cross(sub(pts[j], pts[i]), sub(pts[k], pts[i]))
        if is0(nrm):
            continue
        s = [dot(nrm, sub(p, pts[i])) for p in pts]
        if all(x <= 0 for x in s):
            pass
        elif all(x >= 0 for x in s):
            nrm = neg(nrm)
        else:
            continue
        on = tuple(idx for idx, x in enumerate(s) if x == 0)
        if on not in faces:
            faces[on] = nrm
    return [planar_hull([pts[i] for i in on], nrm) for on, nrm in faces.items()]


def hull_volume(pts):
    fs = hull_faces(pts)
    if fs is None:
        return F(0)
    c = mean([p for f in fs for p in f])
    vol = F(0)
    for f in fs:
        for i in range(1, len(f) - 1):
            vol += abs(det3(sub(f[0], c), sub(f[i], c), sub(f[i + 1], c)))
    return vol / 6


def polygon_area_sq(pts):
    """(2*area)^2 of a planar convex cycle"""
    s = ZERO3
    for i in range(len(pts)):
        s = add(s, cross(pts[i], pts[(i + 1) % len(pts)]))
    return nsq(s)


# ------------------------------------------------------------------ H-representations
def polygon_normal(pts):
    p0 = pts[0]
    for i in range(1, len(pts)):
        for j in range(i + 1, len(pts)):
            n = cross(sub(pts[i], p0), sub(pts[j], p0))
            if not is0(n):
                return n
    return None


def hrep(o):
    """list of (a, b, op): a.x op b, op in '=', '<'  (non-strict)"""
    k = o[0]
    if k == 'P':
        p = o[1]
        return [((F(1), F(0), F(0)), p[0], '='), ((F(0), F(1), F(0)), p[1], '='), ((F(0), F(0), F(1)), p[2], '=')]
    if k in ('L', 'H', 'S'):
        p = o[1]
        d = o[2] if k != 'S' else sub(o[2], o[1])
        # two independent normals orthogonal to d
        e = max(((F(1), F(0), F(0)), (F(0), F(1), F(0)), (F(0), F(0), F(1))), key=lambda e: nsq(cross(d, e)))
        n1 = cross(d, e)
        n2 = cross(d, n1)
        cs = [(n1, dot(n1, p), '='), (n2, dot(n2, p), '=')]
        if k in ('H', 'S'):
            cs.append((neg(d), -dot(d, p), '<'))
        if k == 'S':
            cs.append((d, dot(d, o[2]), '<'))
        return cs
    if k == 'PL':
        return [(o[2], dot(o[2], o[1]), '=')]
    if k == 'G':
        pts = o[1]
        n = polygon_normal(pts)
        cyc = planar_hull(list(dict.fromkeys(pts)), n)
        cs = [(n, dot(n, cyc[0]), '=')]
        for i in range(len(cyc)):
            a, b = cyc[i], cyc[(i + 1) % len(cyc)]
            m = cross(n, sub(b, a))          # inward
            cs.append((neg(m), -dot(m, a), '<'))
        return cs
    if k == 'B':
        allp = list(dict.fromkeys(p for f in o[1] for p in f))
        c = mean(allp)
        cs = []
        for f in o[1]:
            n = polygon_normal(f)
            if dot(n, sub(c, f[0])) > 0:
                n = neg(n)
            cs.append((n, dot(n, f[0]), '<'))
        return cs
    raise ValueError(k)


def contains(o, x):
    return all((dot(a, x) == b) if op == '=' else (dot(a, x) <= b) for a, b, op in hrep(o))


def sat(cs, x):
    return all((dot(a, x) == b) if op == '=' else (dot(a, x) <= b) for a, b, op in cs)


def vertices_of(o):
    k = o[0]
    if k == 'P':
        return [o[1]]
    if k == 'S':
        return [o[1], o[2]]
    if k == 'G':
        n = polygon_normal(o[1])
        return planar_hull(list(dict.fromkeys(o[1])), n)
    if k == 'B':
        return list(dict.fromkeys(p for f in o[1] for p in f))
    return None      # unbounded


def bounded(o): return o[0] in 'PSGB' and o[0] != 'PL'


def _solve3(rows):
    (a1, b1), (a2, b2), (a3, b3) = rows
    d = det3(a1, a2, a3)
    if d == 0:
        return None
    c23, c31, c12 = cross(a2, a3), cross(a3, a1), cross(a1, a2)
    return tuple((b1 * c23[i] + b2 * c31[i] + b3 * c12[i]) / d for i in range(3))


def enum_vertices(cs):
    """extreme points of {x : cs}; the set must be bounded for the answer to describe it"""
    planes = []
    seen = set()
    for a, b, op in cs:
        k = max(range(3), key=lambda i: (a[i] != 0, -i))
        # normalise to dedupe planes
        lead = next(x for x in a if x != 0)
        key = (tuple(x / lead for x in a), b / lead)
        if key in seen:
            continue
        seen.add(key)
        planes.append((a, b))
    eqs = [(a, b) for a, b, op in cs if op == '=']
    verts = []
    vs = set()
    for tri in itertools.combinations(planes, 3):
        x = _solve3(tri)
        if x is None or x in vs:
            continue
        if sat(cs, x):
            vs.add(x)
            verts.append(x)
    return verts


def oracle_inter(A, B):
    """exact A ∩ B for a BOUNDED result (at least one operand bounded), canonical form:
    ('none',) ('P',p) ('S',a,b) ('G',cycle) ('B',verts,volume)"""
    cs = hrep(A) + hrep(B)
    vs = enum_vertices(cs)
    return canon_from_vertices(vs)


def canon_from_vertices(vs):
    if not vs:
        return ('none',)
    r = affine_rank(vs)
    if r == 0:
        return ('P', vs[0])
    if r == 1:
        d = sub(next(p for p in vs if p != vs[0]), vs[0])
        srt = sorted(vs, key=lambda p: dot(sub(p, vs[0]), d))
        return ('S', srt[0], srt[-1])
    if r == 2:
        n = polygon_normal(vs)
        return ('G', planar_hull(vs, n))
    return ('B', sorted(vs), hull_volume(vs))


# ------------------------------------------------------------------ exact flat/flat set relations (used for admission and checks)
def subset_points(o, container):
    """for bounded o: every point of o in container  (convexity: vertices suffice)"""
    return all(contains(container, v) for v in vertices_of(o))


def measures(o):
    """exact measures: S -> lenSq ; G -> (list edge lenSq, areaSq4 = (2A)^2) ; B -> (edges lenSq multiset, [(2A)^2 per face], volume)"""
    k = o[0]
    if k == 'S':
        return nsq(sub(o[2], o[1]))
    if k == 'G':
        cyc = vertices_of(o)
        return ([nsq(sub(cyc[(i + 1) % len(cyc)], cyc[i])) for i in range(len(cyc))], polygon_area_sq(cyc))
    if k == 'B':
        allp = vertices_of(o)
        fs = hull_faces(allp)
        edges = set()
        for f in fs:
            for i in range(len(f)):
                a, b = f[i], f[(i + 1) % len(f)]
                edges.add((min(a, b), max(a, b)))
        return (sorted(nsq(sub(b, a)) for a, b in edges), [polygon_area_sq(f) for f in fs], hull_volume(allp))
    raise ValueError(k)
