"""Pristine evaluator: answers ONE binary query on freshly built operands in a process that has run no other library call.

Started once per harness worker (`python -B -m harness.pristine`, same G3D_SRC); it imports the library and then only forks:
every request is evaluated in a forked child of the pristine parent, so nothing a previous request (or the history the harness
is running) may have memoised, cached or mutated at module / class level can reach it.  Used by C20: "the answer of a query does
not depend on which other queries ran before it".

protocol: one JSON line in  {"q": name, "a": descriptor, "b": descriptor}  ->  one JSON line out  {"r": canonical answer}"""
import json, os, sys


def canon(impl, compare, r):
    if r[0] != 'ok':
        return ['exc', r[1]]
    v = r[1]
    d = impl.describe(v) if not isinstance(v, (bool, int, float, str)) else v
    if isinstance(d, tuple) and d and d[0] in ('G', 'B'):
        return [d[0], sorted(sorted(round(float(c), 9) for c in p) for p in compare.verts(d))]
    if isinstance(d, bool):
        return d
    if isinstance(d, (int, float)):
        return round(float(d), 9)
    if isinstance(d, tuple):
        parts = [[round(float(c), 9) for c in x] if isinstance(x, tuple) else x for x in d]
        if d[0] == 'S':
            parts = ['S'] + sorted(parts[1:])
        return parts
    return d


def same_answer(x, y, tol=1e-7):
    """equality of two canonical answers up to float noise and up to the REPRESENTATION of a polygon / polyhedron result (vertex
    multiplicities and order depend on set iteration order, which differs between processes): bodies are compared as vertex sets"""
    if isinstance(x, bool) or isinstance(y, bool):
        return x is y
    if isinstance(x, (int, float)) and isinstance(y, (int, float)):
        return abs(x - y) <= tol * max(1.0, abs(x), abs(y))
    if isinstance(x, list) and isinstance(y, list):
        if x and y and x[0] in ('PL', 'L', 'H') and y[0] == x[0] and len(x) == 3 and len(y) == 3:
            # flats are compared as point sets, not as (support point, direction) pairs
            def cr(a, b):
                return (a[1] * b[2] - a[2] * b[1], a[2] * b[0] - a[0] * b[2], a[0] * b[1] - a[1] * b[0])

            def dt(a, b):
                return sum(u * v for u, v in zip(a, b))

            def small(v, scale):
                return all(abs(c) <= tol * max(1.0, scale) for c in v)
            (p1, d1), (p2, d2) = (x[1], x[2]), (y[1], y[2])
            w = [a - b for a, b in zip(p1, p2)]
            sc = max(1.0, max(abs(c) for c in list(p1) + list(p2)))
            n1, n2 = dt(d1, d1) ** 0.5 or 1.0, dt(d2, d2) ** 0.5 or 1.0
            u1, u2 = [c / n1 for c in d1], [c / n2 for c in d2]
            if not small(cr(u1, u2), 1.0):
                return False
            if x[0] == 'PL':
                return abs(dt(u1, w)) <= tol * sc
            if x[0] == 'L':
                return small(cr(u1, w), sc)
            return small(w, sc) and dt(u1, u2) > 0
        if x and y and x[0] in ('G', 'B') and y[0] == x[0]:
            def near(p, qs):
                return any(all(abs(a - b) <= tol * max(1.0, abs(a)) for a, b in zip(sorted(p), sorted(q))) for q in qs)
            return all(near(p, y[1]) for p in x[1]) and all(near(q, x[1]) for q in y[1])
        return len(x) == len(y) and all(same_answer(a, b, tol) for a, b in zip(x, y))
    return x == y


def evaluate(impl, q, a, b):
    fns = {'intersection': lambda: impl.intersection(a, b), 'in': lambda: a in b, 'distance': lambda: impl.distance(a, b), 'angle': lambda: impl.angle(a, b),
           'parallel': lambda: impl.parallel(a, b), 'orthogonal': lambda: impl.orthogonal(a, b), '==': lambda: a == b,
           'length': lambda: a.length(), 'area': lambda: a.area(), 'volume': lambda: a.volume()}
    return impl.call(fns[q])


def main():
    from . import impl, gen, compare      # imports the library (G3D_SRC); no library call is made in this process
    out = sys.stdout
    for line in sys.stdin:
        line = line.strip()
        if not line:
            continue
        req = json.loads(line)
        rd, wr = os.pipe()
        pid = os.fork()
        if pid == 0:
            os.close(rd)
            try:
                a = impl.build(gen.from_jsonable(req['a']))
                b = impl.build(gen.from_jsonable(req['b']))
                res = json.dumps({'r': canon(impl, compare, evaluate(impl, req['q'], a, b))})
            except BaseException as e:      # noqa
                res = json.dumps({'r': ['pristine-error', type(e).__name__, str(e)[:100]]})
            os.write(wr, res.encode())
            os._exit(0)
        os.close(wr)
        data = b''
        while True:
            chunk = os.read(rd, 65536)
            if not chunk:
                break
            data += chunk
        os.close(rd)
        os.waitpid(pid, 0)
        out.write(data.decode() + '\n')
        out.flush()


if __name__ == '__main__':
    main()
