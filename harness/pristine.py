"""Pristine evaluator: answers ONE binary query on freshly built operands in a process that has run no other library call.

Started once per harness worker (`python -B -m harness.pristine`, same G3D_SRC); it imports the library and then only forks:
every request is evaluated in a forked child of the pristine parent, so nothing a previous request (or the history the harness
is running) may have memoised, cached or mutated at module / class level can reach it.  Used by C20: "the answer of a query does
not depend on which other queries ran before it".

protocol: one JSON line in  {"q": name, "a": descriptor, "b": descriptor}  ->  one JSON line out  {"r": canonical answer}"""
import json, os, sys


def canon(impl, compare, r):
    if r[0] != 'ok':
        return ['exc', r[1]]
    v = r[1]
    d = impl.describe(v) if not isinstance(v, (bool, int, float, str)) else v
    if isinstance(d, tuple) and d and d[0] in ('G', 'B'):
        return [d[0], sorted(sorted(round(float(c), 9) for c in p) for p in compare.verts(d))]
    if isinstance(d, bool):
        return d
    if isinstance(d, (int, float)):
        return round(float(d), 9)
    if isinstance(d, tuple):
        parts = [[round(float(c), 9) for c in x] if isinstance(x, tuple) else x for x in d]
        if d[0] == 'S':
            parts = ['S'] + sorted(parts[1:])
        return parts
    return d


def evaluate(impl, q, a, b):
    fns = {'intersection': lambda: impl.intersection(a, b), 'in': lambda: a in b, 'distance': lambda: impl.distance(a, b), 'angle': lambda: impl.angle(a, b),
           'parallel': lambda: impl.parallel(a, b), 'orthogonal': lambda: impl.orthogonal(a, b), '==': lambda: a == b,
           'length': lambda: a.length(), 'area': lambda: a.area(), 'volume': lambda: a.volume()}
    return impl.call(fns[q])


def main():
    from . import impl, gen, compare      # imports the library (G3D_SRC); no library call is made in this process
    out = sys.stdout
    for line in sys.stdin:
        line = line.strip()
        if not line:
            continue
        req = json.loads(line)
        rd, wr = os.pipe()
        pid = os.fork()
        if pid == 0:
            os.close(rd)
            try:
                a = impl.build(gen.from_jsonable(req['a']))
                b = impl.build(gen.from_jsonable(req['b']))
                res = json.dumps({'r': canon(impl, compare, evaluate(impl, req['q'], a, b))})
            except BaseException as e:      # noqa
                res = json.dumps({'r': ['pristine-error', type(e).__name__, str(e)[:100]]})
            os.write(wr, res.encode())
            os._exit(0)
        os.close(wr)
        data = b''
        while True:
            chunk = os.read(rd, 65536)
            if not chunk:
                break
            data += chunk
        os.close(rd)
        os.waitpid(pid, 0)
        out.write(data.decode() + '\n')
        out.flush()


if __name__ == '__main__':
    main()
