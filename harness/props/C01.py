"""C01 correspondence: intersection of two flat primitives, real code vs the proven Lean model.
All 25 ordered type pairs in constructed relative positions; compared by denotation."""
import random, json
from .. import core, gen, compare, admit, interlib
from ..gen import Gen, tok, FLATS

PAIRS = [(a, b) for a in FLATS for b in FLATS]
CORPUS = [
    # (A, B) witnesses kept from earlier findings / hand-picked degenerate positions
    "S 0 0 0 2 2 1|H 1 1 1/2 -2 -2 -1", "S 0 0 0 1 0 0|S 1 0 0 2 0 0", "S 0 0 0 1 0 0|S 2 0 0 3 0 0",
    "H 0 0 0 1 2 2|H 1 2 2 -1 -2 -2", "H 0 0 0 1 0 0|H 0 0 0 -1 0 0", "L 0 0 0 0 1 1|L 0 1 0 0 0 1",
    "PL 0 0 1 0 0 1|PL 3 4 1 0 0 -2", "PL 0 0 0 0 1 1|L 0 0 0 0 1 -1", "L 1 2 3 0 0 1|L 1 2 5 0 0 -3",
    "S 0 0 0 0 0 1|PL 0 0 1 0 0 1", "H 0 0 0 0 1 0|PL 0 0 0 1 0 0", "L 0 0 0 0 1 0|L 1 0 0 0 0 1",
]


def parse_tok(s):
    from fractions import Fraction as F
    t = s.split()
    k = t[0]
    v = lambda i: (F(t[i]), F(t[i + 1]), F(t[i + 2]))
    if k == 'P':
        return ('P', v(1))
    return (k, v(1), v(4))


def work(args):
    seed, n, idx = args
    from .. import impl
    R = random.Random(seed)
    G = Gen(R)
    out = []
    for i in range(n):
        ka, kb = PAIRS[(idx * 7 + i) % 25]
        A, B, cls = G.flat_pair(ka, kb)
        out.append((A, B, cls, observe(impl, A, B)))
        for A2, B2 in interlib.twin_followups(A, B):      # the same call with one operand replaced by a hash twin, right afterwards
            out.append((A2, B2, cls + '+hash-twin', observe(impl, A2, B2)))
    return out


def observe(impl, A, B):
    try:
        a, b = interlib.build_pair(impl, A, B)      # primed in-place move / shared-Point decoys for a third of the cases
    except Exception as e:
        return ('ctor-exc', type(e).__name__)
    r = core.guarded(impl.call, impl.intersection, a, b)
    if r[0] == 'ok':
        return ('ok', impl.describe(r[1]))
    return r


def judge(ctx, A, B, cls, obs, mline):
    key = tok(A) + '|' + tok(B)
    m = compare.parse_model(mline)
    ctx.count(key, nontrivial=(m[0] != 'none' or cls != 'free/free'))
    ctx.dist['%s-%s -> %s' % (A[0], B[0], m[0])] += 1
    ctx.dist['class ' + cls] += 1
    if m[0] == 'err':
        raise RuntimeError('model returned an error on well-formed flats (contradicts inter_flat_no_error): %s -> %s' % (key, mline))
    if obs[0] == 'ok' and compare.same_den(obs[1], m):
        ctx.stats['agree'] += 1
        return
    ok, why = admit.admitted([A, B])
    if not ok:
        ctx.stats['rejected-by-admission: ' + why] += 1
        return
    ctx.stats['DISAGREE'] += 1
    got = ('%s %s' % (obs[1][0], '')) if obs[0] == 'ok' else 'raises %s' % obs[1]
    ctx.violation(key, 'intersection(%s, %s): implementation %s, exact common point set is %s' % (tok(A), tok(B), describe_obs(obs), mline),
                  dict(a=gen.jsonable(A), b=gen.jsonable(B), impl=gen.jsonable(obs), model=mline, cls=cls))


def describe_obs(obs):
    if obs[0] == 'ok':
        d = obs[1]
        if d[0] == 'none':
            return 'returns None'
        return 'returns ' + d[0] + ' ' + ' '.join(str(float(c)) for p in d[1:] if isinstance(p, tuple) for c in p)
    return 'raises ' + str(obs[1])


def run(ctx, scale=1):
    from .. import impl
    ctx.extra['rule'] = ('25 ordered flat type pairs cycled; each operand placed relative to a common random lattice frame in one of 5 modes '
                         '(free, on the frame line, in the frame plane, through the frame point, parallel) so that collinear/coplanar/touching/nested/'
                         'opposite configurations are constructed; non-trivial = the exact intersection is non-empty or the position is constructed')
    cases = []
    for s in CORPUS:
        a, b = s.split('|')
        A, B = parse_tok(a), parse_tok(b)
        cases.append((A, B, 'corpus', observe(impl, A, B)))
    Gc = Gen(random.Random(ctx.seed + 17))
    for _ in range(ctx.n(2, 6)):
        for A, B, cls in Gc.collinear_catalogue():
            cases.append((A, B, cls, observe(impl, A, B)))
    total = ctx.n(20000, 300000) * scale
    for part in core.pmap(work, core.chunks(ctx, total)):
        cases.extend(part)
    lines = ['inter %s %s' % (tok(A), tok(B)) for A, B, _, _ in cases]
    outs = core.model_lines(lines)
    for (A, B, cls, obs), ml in zip(cases, outs):
        judge(ctx, A, B, cls, obs, ml)
    for A, B, cls, obs in cases[12:16]:
        ctx.sample('intersection(%s, %s) [%s] -> %s' % (tok(A), tok(B), cls, describe_obs(obs)))
    # admission statistics on a sample
    R = random.Random(ctx.seed)
    smp = R.sample(cases, min(300, len(cases)))
    rej = sum(1 for A, B, _, _ in smp if not admit.admitted([A, B])[0])
    ctx.stats['admission sample size'] = len(smp)
    ctx.stats['admission sample rejected'] = rej


def search(ctx):
    """obligations broke and the standard run found nothing: widen the run"""
    run(ctx, scale=3 if ctx.quick() else 1)


def replay(ctx, case):
    from .. import impl
    c = case['case']
    A, B = gen.from_jsonable(c['a']), gen.from_jsonable(c['b'])
    interlib.replay_preamble(impl, A, B)
    obs = observe(impl, A, B)
    ml = core.model_lines(['inter %s %s' % (tok(A), tok(B))])[0]
    m = compare.parse_model(ml)
    ok = obs[0] == 'ok' and compare.same_den(obs[1], m)
    print('operands:', tok(A), '|', tok(B))
    print('implementation:', describe_obs(obs))
    print('exact (model):', ml)
    print('AGREE' if ok else 'VIOLATION property=C01 replay=' + str(case.get('replay_cmd', '')))
    return 0 if ok else 1
