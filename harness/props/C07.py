"""C07 correspondence: histories of in-place moves on all seven geometry types; after every step the receiver and
the returned object are compared, over the full query set, with an object freshly constructed at the translated
position (and with the model's translated descriptor)."""
import random, copy, math
from fractions import Fraction as F
from .. import core, gen, compare, admit, exact as E
from ..gen import Gen, tok, ALL7
from ..exact import add, sub, mul, V


def translate(o, t):
    k = o[0]
    if k == 'P':
        return ('P', add(o[1], t))
    if k in ('L', 'PL', 'H'):
        return (k, add(o[1], t), o[2])
    if k == 'S':
        return ('S', add(o[1], t), add(o[2], t))
    if k == 'G':
        return ('G', [add(p, t) for p in o[1]])
    return ('B', [[add(p, t) for p in f] for f in o[1]])


def make_obj(G, k):
    fr = G.frame()
    if k in gen.FLATS:
        return G.flat(k, fr, 'free')
    if k == 'G':
        return G.shuffled_polygon(G.polygon(3, 6))
    return G.shuffled_body(G.body()[0])


def probes(G, X):
    """exact probe points around X (some inside / on X)"""
    R = G.R
    pts = []
    if E.bounded(X) and X[0] != 'P':
        for _ in range(4):
            pts.append(G.body_feature_point(('G', E.vertices_of(X)) if X[0] == 'G' else (('B', E.hull_faces(E.vertices_of(X))) if X[0] == 'B' else ('G', [X[1], X[2], add(X[1], V(0, 0, 0))])) if X[0] != 'S' else X)[0] if X[0] != 'S' else add(X[1], mul(R.choice([F(0), F(1, 2), F(1), F(3, 2), F(-1, 4)]), sub(X[2], X[1]))))
    elif X[0] == 'P':
        pts = [X[1], add(X[1], V(1, 0, 0))]
    elif X[0] in ('L', 'H'):
        pts = [add(X[1], mul(t, X[2])) for t in (F(0), F(1), F(-1), F(1, 2))] + [add(X[1], V(0, 1, 3))]
    else:
        u = E.cross(X[2], V(1, 2, 3))
        pts = [X[1], add(X[1], u), add(add(X[1], u), X[2])]
    pts.append(G.pt(3))
    return pts


def queries(impl, obj, X, others, pts):
    """observable answers of `obj` (a library object currently denoting descriptor X)"""
    out = {}
    if X[0] != 'P':
        out['in'] = [impl.call(lambda p=p: impl.Pt(p) in obj) for p in pts]
    for name, O in others.items():
        o = impl.build(O)
        r = core.guarded(impl.call, impl.intersection, obj, o)
        out['inter ' + name] = ('ok', impl.describe(r[1])) if r[0] == 'ok' else r
        if X[0] in ('P', 'L', 'PL') and O[0] in ('L', 'PL') and not (X[0] == 'PL' and O[0] == 'PL'):
            out['dist ' + name] = impl.call(impl.distance, obj, o)
        if X[0] in ('L', 'PL') and O[0] in ('L', 'PL'):
            out['angle ' + name] = impl.call(impl.angle, obj, o)
    for m in ('length', 'area', 'volume'):
        if hasattr(obj, m) and not (X[0] == 'P'):
            out[m] = impl.call(getattr(obj, m))
    return out


def same_answers(a, b):
    """compare two query dictionaries; returns list of differing keys"""
    bad = []
    for k in a:
        x, y = a[k], b.get(k)
        if k.startswith('inter '):
            if x[0] == 'ok' and y is not None and y[0] == 'ok':
                if not compare.same_den(x[1], y[1]):
                    bad.append(k)
            elif x != y:
                bad.append(k)
        elif k == 'in':
            if x != y:
                bad.append(k)
        else:
            if x[0] == 'ok' and y is not None and y[0] == 'ok':
                if abs(x[1] - y[1]) > 1e-9 * max(1.0, abs(y[1])):
                    bad.append(k)
            elif x != y:
                bad.append(k)
    return bad


def work(args):
    seed, n, idx = args
    from .. import impl
    G = Gen(random.Random(seed))
    R = G.R
    out = []
    for i in range(n):
        k = ALL7[(idx + i) % 7]
        X0 = make_obj(G, k)
        nmoves = R.randint(1, 6)
        moves = []
        for _ in range(nmoves):
            c = R.random()
            if c < 0.15:
                moves.append(V(0, 0, 0))
            elif c < 0.4:
                ax = R.randrange(3)
                moves.append(tuple(F(R.choice([-2, -1, 1, 3])) if j == ax else F(0) for j in range(3)))
            else:
                moves.append(tuple(F(R.randint(-8, 8), R.choice([1, 2, 4])) for _ in range(3)))
        if R.random() < 0.4:
            # destination-driven history: the object ARRIVES at the generated position by its last move (the generator's special
            # positions -- axis-aligned, tiny-lattice, hash-twin shapes -- are then positions of a moved object, not only of fresh ones)
            tot = E.ZERO3
            for mv in moves:
                tot = add(tot, mv)
            X0 = translate(X0, tuple(-c for c in tot))
        others = {'plane': ('PL', G.pt(3), G.dirv(2)), 'line': ('L', G.pt(3), G.dirv(2)), 'seg': ('S', G.pt(3), G.pt(3))}
        if others['seg'][1] == others['seg'][2]:
            others['seg'] = ('S', others['seg'][1], add(others['seg'][1], V(1, 1, 0)))
        if k in ('G', 'B'):
            # probes through features of the ORIGINAL position (stale cached edges / faces would be hit exactly there) ...
            K0 = ('G', E.vertices_of(X0)) if k == 'G' else ('B', E.hull_faces(E.vertices_of(X0)))
            fp, _ = G.body_feature_point(K0)
            fq, _ = G.body_feature_point(K0)
            far = G.pt(6)
            if fp != far:
                others['seg_old'] = ('S', fp, far)
                others['hl_old'] = ('H', far, sub(fp, far))
            if fq != fp:
                others['line_old'] = ('L', fp, sub(fq, fp))
        rec_coplanar = (k == 'G')
        rec = dict(X=X0, moves=moves, others=others, problems=[])
        try:
            obj = impl.build(X0)
            if k in ('G', 'PL') and R.random() < 0.3:
                # the same point set with the opposite orientation (negated object / reverse=True form): derived state of the
                # negation must follow the moves like that of a freshly built object
                obj = impl.ConvexPolygon(tuple(impl.Pt(p) for p in X0[1]), reverse=True) if (k == 'G' and R.random() < 0.5) else -obj
                rec['negated'] = True
            orig = copy.deepcopy(obj)
            total = E.ZERO3
            X = X0
            for step, mv in enumerate(moves):
                if R.random() < 0.3:
                    obj = copy.deepcopy(obj)         # histories interleave deepcopy
                ret = obj.move(impl.Vc(mv))
                total = add(total, mv)
                X = translate(X0, total)
                fresh = impl.build(X)
                step_others = dict(others)
                if rec_coplanar:
                    # ... and probes lying IN the current carrier plane (edge-walking code paths)
                    cyc = E.vertices_of(X)
                    c0 = E.mean(cyc)
                    a_, b_ = cyc[0], cyc[len(cyc) // 2]
                    step_others['line_coplanar'] = ('L', add(a_, mul(F(1, 3), sub(cyc[1], a_))), sub(b_, a_))
                    step_others['seg_coplanar'] = ('S', c0, add(c0, mul(F(3), sub(cyc[1], c0))))
                pts = probes(G, X)
                qf = queries(impl, fresh, X, step_others, pts)
                for who, o in (('receiver', obj), ('returned', ret)):
                    if type(o) is not type(fresh):
                        rec['problems'].append('step %d: %s is a %s' % (step + 1, who, type(o).__name__))
                        continue
                    q = queries(impl, o, X, step_others, pts)
                    bad = same_answers(q, qf)
                    if bad:
                        rec['problems'].append('step %d (moved by %s in total): %s differs from a fresh object in %s' % (step + 1, gen.tv(total), who, bad[:3]))
                    eq = impl.call(lambda: (o == fresh, fresh == o, hash(o) == hash(fresh)))
                    if eq != ('ok', (True, True, True)):
                        rec['problems'].append('step %d: %s ==/hash against a fresh object: %s' % (step + 1, who, eq[1:] if eq[0] != 'ok' else eq[1]))
                    if not compare.same_den(impl.describe(o), describe_exact(X)):
                        rec['problems'].append('step %d: %s does not denote the translated object' % (step + 1, who))
                if rec['problems']:
                    break
            if not rec['problems']:
                # the deep copy taken before the first move has stayed where the object started
                fresh0 = impl.build(X0)
                if rec.get('negated'):
                    fresh0 = -fresh0
                st = impl.call(lambda: (orig == fresh0, fresh0 == orig))
                if st != ('ok', (True, True)) or not compare.same_den(impl.describe(orig), describe_exact(X0)):
                    rec['problems'].append('the deep copy taken before the moves no longer denotes the original object: == fresh %s, is %s' % (st[1:] if st[0] != 'ok' else st[1], impl.describe(orig)))
            if not rec['problems']:
                back = obj.move(impl.Vc(tuple(-c for c in total)))
                eq = impl.call(lambda: (obj == orig, back == orig, hash(obj) == hash(orig)))
                if eq != ('ok', (True, True, True)):
                    rec['problems'].append('moving back by -(sum of moves): (receiver == original, returned == original, hash equal) = %s' % (eq[1:] if eq[0] != 'ok' else eq[1],))
        except Exception as e:
            rec['problems'].append('raises %s: %s' % (type(e).__name__, str(e)[:100]))
        out.append(rec)
    return out


def describe_exact(X):
    if X[0] == 'G':
        return ('G', E.vertices_of(X))
    if X[0] == 'B':
        return ('B', E.vertices_of(X))
    return X


def run(ctx, scale=1):
    ctx.extra['rule'] = ('all seven types cycled; histories of 1-6 moves (15% zero vector, 25% axis-aligned, else lattice vectors with denominators 1,2,4) applied to the receiver, 30% of the steps '
                         'preceded by a deepcopy; after every step receiver and returned object are compared with a fresh object at the translated position over: membership of 4-6 probe points, '
                         'intersection with a plane, a line and a segment, distance/angle where defined, length/area/volume, ==, hash; finally moved back by the negated sum; '
                         'non-trivial = every history (distinct objects and move lists)')
    total = ctx.n(700, 25000) * scale
    recs = []
    for part in core.pmap(work, core.chunks(ctx, total, per=25)):
        recs.extend(part)
    for r in recs:
        key = tok(r['X']) + ' moves ' + ';'.join(gen.tv(m) for m in r['moves'])
        ctx.count(key)
        ctx.dist['%s with %d moves' % (r['X'][0], len(r['moves']))] += 1
        if not r['problems']:
            ctx.stats['agree'] += 1
            continue
        tot = E.ZERO3
        for m in r['moves']:
            tot = add(tot, m)
        ok, why = admit.admitted([translate(r['X'], tot)] + list(r['others'].values()))
        if not ok:
            ctx.stats['rejected-by-admission: ' + why] += 1
            continue
        ctx.stats['DISAGREE'] += 1
        ctx.violation(key, '%s moved by %s: %s' % (tok(r['X'])[:200], [gen.tv(m) for m in r['moves']], '; '.join(r['problems'][:3])),
                      dict(x=gen.jsonable(r['X']), moves=gen.jsonable(r['moves']), others=gen.jsonable({k: list(v) for k, v in r['others'].items()}), negated=bool(r.get('negated'))))
    for r in recs[:4]:
        ctx.sample('%s moves %s -> %s' % (tok(r['X'])[:120], [gen.tv(m) for m in r['moves']], r['problems'] or 'consistent'))


def search(ctx):
    run(ctx, scale=2)


def replay(ctx, case):
    from .. import impl
    c = case['case']
    X0 = gen.from_jsonable(c['x'])
    moves = [tuple(F(x) for x in m) for m in c['moves']]
    obj = impl.build(X0)
    if c.get('negated'):
        obj = -obj
    total = E.ZERO3
    ok = True
    for mv in moves:
        ret = obj.move(impl.Vc(mv))
        total = add(total, mv)
        fresh = impl.build(translate(X0, total))
        r = impl.call(lambda: (obj == fresh, ret == fresh, hash(obj) == hash(fresh)))
        pts = probes(Gen(random.Random(1)), translate(X0, total))
        ins = [(impl.call(lambda p=p: impl.Pt(p) in obj), impl.call(lambda p=p: impl.Pt(p) in fresh)) for p in pts] if X0[0] != 'P' else []
        print('after moving by', gen.tv(total), ': (receiver==fresh, returned==fresh, hash equal) =', r, ' membership agrees:', all(a == b for a, b in ins))
        ok = ok and r == ('ok', (True, True, True)) and all(a == b for a, b in ins)
    print('AGREE' if ok else 'VIOLATION property=C07')
    return 0 if ok else 1
