"""C10 correspondence: distance (function and method forms) vs the exact squared distance of the Lean model."""
import random, math
from fractions import Fraction as F
from .. import core, gen, admit, interlib
from ..gen import Gen, tok

PAIRS = [('P', 'P'), ('P', 'L'), ('L', 'P'), ('L', 'L'), ('P', 'PL'), ('PL', 'P'), ('L', 'PL'), ('PL', 'L')]


def work(args):
    seed, n, idx = args
    from .. import impl
    G = Gen(random.Random(seed))
    out = []
    for i in range(n):
        ka, kb = PAIRS[(idx + i) % 8]
        A0, B0, cls0 = G.flat_pair(ka, kb)
        for A, B, cls in [(A0, B0, cls0)] + [(a_, b_, cls0 + '+hash-twin') for a_, b_ in interlib.twin_followups(A0, B0)]:
            a, b = interlib.build_pair(impl, A, B)      # primed in-place move / shared-Point decoys for a third of the cases
            r1 = core.guarded(impl.call, impl.distance, a, b)
            r2 = core.guarded(impl.call, impl.distance, b, a)
            r3 = core.guarded(impl.call, lambda x, y: x.distance(y), a, b) if (ka != 'P' or kb == 'P') else None
            ri = core.guarded(impl.call, impl.intersection, a, b)
            out.append((A, B, cls, r1, r2, r3, ('ok', ri[1] is None) if ri[0] == 'ok' else ri))
    return out


def close(val, d2):
    """float distance `val` against exact squared distance d2, relative 1e-9"""
    if not isinstance(val, (int, float)) or isinstance(val, bool):
        return False
    ref = math.sqrt(float(d2))
    return val >= 0 and abs(val - ref) <= 1e-9 * max(1.0, ref)


def run(ctx, scale=1):
    ctx.extra['rule'] = ('the 8 documented ordered pairs cycled; operands placed relative to a common lattice frame (free / on the line / in the plane / through the point / parallel) so that '
                         'parallel, coincident, intersecting, skew and perpendicular positions are constructed; function form both orders, method form, and intersection(a,b) is None; '
                         'non-trivial = positions other than free/free')
    total = ctx.n(6000, 150000) * scale
    cases = []
    for part in core.pmap(work, core.chunks(ctx, total, per=300)):
        cases.extend(part)
    outs = core.model_lines(['distsq %s %s' % (tok(A), tok(B)) for A, B, *_ in cases])
    for (A, B, cls, r1, r2, r3, ri), ml in zip(cases, outs):
        key = tok(A) + '|' + tok(B)
        if ml.startswith('err') or ml in ('ctor-error', 'bad-op'):
            raise RuntimeError('model: distsq %s -> %s' % (key, ml))
        d2 = F(ml)
        ctx.count(key, nontrivial=(cls != 'free/free'))
        ctx.dist['%s-%s %s' % (A[0], B[0], 'zero' if d2 == 0 else 'positive')] += 1
        ctx.dist['class ' + cls] += 1
        problems = []
        for form, r in (('distance(a, b)', r1), ('distance(b, a)', r2), ('a.distance(b)', r3)):
            if r is None:
                continue
            if r[0] != 'ok':
                problems.append('%s raises %s' % (form, r[1:]))
            elif not close(r[1], d2):
                problems.append('%s = %r, exact distance is sqrt(%s) = %.12g' % (form, r[1], d2, math.sqrt(float(d2))))
        if ri[0] == 'ok' and ri[1] != (d2 != 0):
            problems.append('distance is %s but intersection(a, b) is %s' % ('zero' if d2 == 0 else 'positive', 'None' if ri[1] else 'not None'))
        if not problems:
            ctx.stats['agree'] += 1
            continue
        ok, why = admit.admitted([A, B])
        if not ok:
            ctx.stats['rejected-by-admission: ' + why] += 1
            continue
        ctx.stats['DISAGREE'] += 1
        ctx.violation(key, 'a = %s, b = %s: %s' % (tok(A), tok(B), '; '.join(problems)), dict(a=gen.jsonable(A), b=gen.jsonable(B), cls=cls))
    for A, B, cls, r1, *_ in cases[:4]:
        ctx.sample('distance(%s, %s) [%s] -> %s' % (tok(A), tok(B), cls, r1[1:]))


def search(ctx):
    run(ctx, scale=2)


def replay(ctx, case):
    from .. import impl
    c = case['case']
    A, B = gen.from_jsonable(c['a']), gen.from_jsonable(c['b'])
    interlib.replay_preamble(impl, A, B)
    a, b = interlib.build_pair(impl, A, B)
    ml = core.model_lines(['distsq %s %s' % (tok(A), tok(B))])[0]
    d2 = F(ml)
    r1, r2 = impl.call(impl.distance, a, b), impl.call(impl.distance, b, a)
    print('a =', tok(A), ' b =', tok(B), ' exact distance^2 =', d2)
    print('distance(a,b) ->', r1, ' distance(b,a) ->', r2)
    ok = r1[0] == 'ok' and r2[0] == 'ok' and close(r1[1], d2) and close(r2[1], d2)
    print('AGREE' if ok else 'VIOLATION property=C10')
    return 0 if ok else 1
