"""C18 correspondence: Vector / Point arithmetic over int, Fraction, Decimal, float and a user-defined ring
type: textbook component values (exact for exact types), numeric type preserved, promotion order inside one
constructor call, and length / normalized / angle consistency for int, float and Fraction."""
import random, math, itertools
from fractions import Fraction as F
from decimal import Decimal as D
from .. import core, gen


class UserNum:
    """a user-defined exact ring type (wraps a Fraction); deliberately not a float/int/Fraction/Decimal"""
    __slots__ = ('q',)

    def __init__(self, x=0):
        self.q = x.q if isinstance(x, UserNum) else F(x)

    def _w(o):
        return o.q if isinstance(o, UserNum) else (F(o) if isinstance(o, (int, F)) and not isinstance(o, bool) else None)

    def __add__(self, o):
        w = UserNum._w(o)
        return NotImplemented if w is None else UserNum(self.q + w)
    __radd__ = __add__

    def __sub__(self, o):
        w = UserNum._w(o)
        return NotImplemented if w is None else UserNum(self.q - w)

    def __rsub__(self, o):
        w = UserNum._w(o)
        return NotImplemented if w is None else UserNum(w - self.q)

    def __mul__(self, o):
        w = UserNum._w(o)
        return NotImplemented if w is None else UserNum(self.q * w)
    __rmul__ = __mul__

    def __neg__(self):
        return UserNum(-self.q)

    def __eq__(self, o):
        return isinstance(o, UserNum) and self.q == o.q

    def __hash__(self):
        return hash(('U', self.q))

    def __format__(self, spec):
        return format(float(self.q), spec)

    def __repr__(self):
        return 'U(%s)' % self.q


TYPES = {'int': int, 'Fraction': F, 'Decimal': D, 'float': float, 'user': UserNum}
ORDER = ['user', 'Fraction', 'Decimal', 'float', 'int']      # most general first


def conv(tn, q):
    """rational q (small, dyadic so that every type represents it exactly) as type tn"""
    if tn == 'int':
        return int(q)
    if tn == 'float':
        return float(q)
    if tn == 'Decimal':
        return D(q.numerator) / D(q.denominator)
    if tn == 'Fraction':
        return F(q)
    return UserNum(q)


def val(x):
    if isinstance(x, UserNum):
        return x.q
    if isinstance(x, D):
        return F(x)
    return F(x)


def tname(x):
    for n, t in TYPES.items():
        if type(x) is t:
            return n
    return type(x).__name__


def work(args):
    seed, n, idx = args
    from .. import impl
    from ..impl import Vector, Point
    R = random.Random(seed)
    out = []

    def rq(tn):
        if tn == 'int':
            return F(R.randint(-9, 9))
        return F(R.randint(-36, 36), R.choice([1, 2, 4]))
    for i in range(n):
        j = idx * 5 + i
        mode = j % 3
        rec = dict(mode=mode)
        try:
            if mode == 0:      # one numeric type: formulas + type preservation
                tn = list(TYPES)[(j // 3) % 5]
                a = [rq(tn) for _ in range(3)]
                b = [rq(tn) for _ in range(3)]
                k = rq(tn)
                va, vb = Vector(*[conv(tn, x) for x in a]), Vector(*[conv(tn, x) for x in b])
                kk = conv(tn, k)
                pa, pb = Point(*[conv(tn, x) for x in a]), Point(*[conv(tn, x) for x in b])
                res = {
                    'add': list(va + vb), 'sub': list(va - vb), 'smul': list(va * kk), 'rsmul': list(kk * va), 'neg': list(-va),
                    'dot': [va * vb], 'cross': list(va.cross(vb)), 'fromPoints': list(Vector(pa, pb)),
                    'triple': [va * va.cross(vb)],
                    'anticomm': [x + y for x, y in zip(va.cross(vb), vb.cross(va))],
                    'lagrange': [va.cross(vb) * va.cross(vb) - ((va * va) * (vb * vb) - (va * vb) * (va * vb))],
                }
                rec.update(tn=tn, a=a, b=b, k=k, res={kx: [(tname(x), val(x)) for x in v] for kx, v in res.items()})
            elif mode == 1:    # promotion inside one constructor call
                tns = [R.choice(list(TYPES)) for _ in range(3)]
                qs = [F(R.randint(-8, 8)) for _ in range(3)]
                # floats that are NOT short dyadic rationals (0.1, 1/3, 2.5e-7, ...): promotion must keep the exact value of the float
                qs = [F(R.choice([0.1, -0.3, 1 / 3, 2.5e-7, 1e-9, 123456.789, -7.3, 0.7, 1e-17])) if (t == 'float' and R.random() < 0.5) else q for t, q in zip(tns, qs)]
                items = [conv(t, q) for t, q in zip(tns, qs)]
                ctor = R.choice(['Vector', 'VectorList', 'Point', 'PointList'])
                if ctor == 'Vector':
                    o = list(Vector(*items))
                elif ctor == 'VectorList':
                    o = list(Vector(items))
                elif ctor == 'Point':
                    pnt = Point(*items)
                    o = [pnt.x, pnt.y, pnt.z]
                else:
                    pnt = Point(items)
                    o = [pnt.x, pnt.y, pnt.z]
                rec.update(tns=tns, qs=qs, ctor=ctor, got=[(tname(x), val(x)) for x in o])
            else:              # length / normalized / angle over magnitudes
                tn = R.choice(['int', 'float', 'Fraction'])
                mag = R.choice([1e-6, 1e-3, 1, 1e3, 1e6]) if tn != 'int' else R.choice([1, 1000, 10 ** 6])
                def mk():
                    while True:
                        q = [F(R.randint(-9, 9)) * F(mag).limit_denominator(10 ** 6) for _ in range(3)]
                        if any(q):
                            return q
                a, b = mk(), mk()
                if R.random() < 0.35:       # exactly parallel / anti-parallel pairs: the cosine rounds to ±1 ± ulp
                    kk = F(R.choice([-1, -2, -3, 2, 5, -7])) if tn == 'int' else R.choice([F(-1), F(-1, 2), F(-3), F(2), F(7, 2), F(-21)])
                    b = [kk * x for x in a]
                va, vb = Vector(*[conv(tn, x) for x in a]), Vector(*[conv(tn, x) for x in b])
                nrm = va.normalized()
                # the constants must be what their names say on EVERY call: mutate the objects returned by one call (in place, and
                # through a Line that keeps its support vector by reference and is then moved) before reading them again below
                for fac in (Vector.zero, Vector.x_unit_vector, Vector.y_unit_vector, Vector.z_unit_vector):
                    try:
                        c_ = fac()
                        c_[R.randrange(3)] = 7
                        impl.Line(fac(), Vector(1, 2, 3)).move(Vector(2, -1, 5))
                    except Exception:
                        pass
                # the same vector reached by component assignment: vc starts as b, is queried (anything a query may cache is cached
                # now), then becomes a through __setitem__ -- every metric must describe the CURRENT components
                vc = Vector(*[conv(tn, x) for x in b])
                vc.length(), vc.normalized(), vc.unit(), vc.angle(va), vc.parallel(va), hash(vc)
                for t_ in range(3):
                    vc[t_] = conv(tn, a[t_])
                rec.update(set_length=float(vc.length()), set_ncomp=[float(x) for x in vc.normalized()], set_angle=float(vc.angle(vb)), set_eq=(vc == va))
                rec.update(tn=tn, a=a, b=b, length=float(va.length()), nlen=float(nrm.length()), ncomp=[float(x) for x in nrm], unit=[float(x) for x in va.unit()],
                           angle=float(va.angle(vb)), self_angle=float(va.angle(va)), zero=[val(x) for x in Vector.zero()],
                           units=[[val(x) for x in v] for v in (Vector.x_unit_vector(), Vector.y_unit_vector(), Vector.z_unit_vector())])
        except Exception as e:
            rec['exc'] = '%s: %s' % (type(e).__name__, str(e)[:100])
        out.append(rec)
    return out


def cross(a, b):
    return [a[1] * b[2] - a[2] * b[1], a[2] * b[0] - a[0] * b[2], a[0] * b[1] - a[1] * b[0]]


def run(ctx, scale=1):
    ctx.extra['rule'] = ('three families cycled: (0) both operands of one numeric type among int/Fraction/Decimal/float/user ring type (dyadic rationals, exactly representable in every type): '
                         '+,-,* both sides, neg, dot, cross, Vector(P1,P2) and the three identities, values compared exactly and result types compared; (1) mixed types within one Vector/Point '
                         'constructor call (positional and list forms): promotion to the most general type present; (2) length/normalized/unit/angle for int, float, Fraction at magnitudes 1e-6..1e6, also on a vector that was queried and then re-assigned component by component; '
                         'the component FORMULAS themselves are established for all inputs by the symbolic translator (tools/extract_poly.py) and the theorems of G3D.Props.C18')
    total = ctx.n(6000, 120000) * scale
    recs = []
    for part in core.pmap(work, core.chunks(ctx, total, per=300)):
        recs.extend(part)
    for r in recs:
        problems = []
        if 'exc' in r:
            problems.append('raises ' + r['exc'])
            key = str({k: str(v) for k, v in r.items() if k in ('mode', 'tn', 'a', 'b', 'tns', 'qs', 'ctor')})
        elif r['mode'] == 0:
            a, b, k, tn = r['a'], r['b'], r['k'], r['tn']
            key = 'ops %s a=%s b=%s k=%s' % (tn, [gen.fr(x) for x in a], [gen.fr(x) for x in b], gen.fr(k))
            ctx.dist['formulas over ' + tn] += 1
            exp = {'add': [x + y for x, y in zip(a, b)], 'sub': [x - y for x, y in zip(a, b)], 'smul': [x * k for x in a], 'rsmul': [x * k for x in a],
                   'neg': [-x for x in a], 'dot': [sum(x * y for x, y in zip(a, b))], 'cross': cross(a, b), 'fromPoints': [y - x for x, y in zip(a, b)],
                   'triple': [F(0)], 'anticomm': [F(0)] * 3, 'lagrange': [F(0)]}
            for op, want in exp.items():
                got = r['res'][op]
                for (t, v), w in zip(got, want):
                    if t != tn:
                        problems.append('%s on %s operands gives a component of type %s' % (op, tn, t))
                        break
                    if (v != w) if tn != 'float' else (abs(v - w) > 1e-9 * max(1, abs(w))):
                        problems.append('%s on %s operands: component %s, textbook value %s' % (op, tn, v, w))
                        break
        elif r['mode'] == 1:
            key = 'promote %s %s %s' % (r['ctor'], r['tns'], [gen.fr(x) for x in r['qs']])
            want_t = next(t for t in ORDER if t in r['tns'])
            ctx.dist['promotion to ' + want_t] += 1
            for (t, v), q in zip(r['got'], r['qs']):
                if t != want_t or v != q:
                    problems.append('%s(%s) has a component (%s, %s); expected type %s value %s' % (r['ctor'], r['tns'], t, v, want_t, q))
                    break
        else:
            a, b, tn = r['a'], r['b'], r['tn']
            key = 'metric %s a=%s b=%s' % (tn, [gen.fr(x) for x in a], [gen.fr(x) for x in b])
            ctx.dist['metric over ' + tn] += 1
            la = math.sqrt(float(sum(x * x for x in a)))
            lb = math.sqrt(float(sum(x * x for x in b)))
            if abs(r['length'] - la) > 1e-9 * la:
                problems.append('length %r, exact %r' % (r['length'], la))
            if abs(r['nlen'] - 1) > 1e-9:
                problems.append('|normalized| = %r' % r['nlen'])
            if any(abs(c * la - float(x)) > 1e-9 * la for c, x in zip(r['ncomp'], a)) or r['unit'] != r['ncomp']:
                problems.append('normalized/unit does not point in the same direction: %s' % (r['ncomp'],))
            cosv = float(sum(x * y for x, y in zip(a, b))) / (la * lb)
            ref = math.acos(max(-1.0, min(1.0, cosv)))
            if not (0 <= r['angle'] <= math.pi + 1e-12) or abs(r['angle'] - ref) > 1e-6:
                problems.append('angle %r, exact %r' % (r['angle'], ref))
            if abs(r['set_length'] - la) > 1e-9 * la or any(abs(c * la - float(x)) > 1e-9 * la for c, x in zip(r['set_ncomp'], a)) or abs(r['set_angle'] - ref) > 1e-6 or r['set_eq'] is not True:
                problems.append('after assigning the components of a to a vector that held b: length %r (exact %r), normalized %s, angle %r (exact %r), == a: %r' % (r['set_length'], la, r['set_ncomp'], r['set_angle'], ref, r['set_eq']))
            if abs(r['self_angle']) > 1e-6:
                problems.append('angle(v, v) = %r' % r['self_angle'])
            if r['zero'] != [0, 0, 0] or r['units'] != [[1, 0, 0], [0, 1, 0], [0, 0, 1]]:
                problems.append('zero()/unit vectors: %s %s' % (r['zero'], r['units']))
        ctx.count(key)
        if problems:
            ctx.stats['DISAGREE'] += 1
            ctx.violation(key, key + ': ' + '; '.join(problems[:3]), dict(rec={k: str(v) for k, v in r.items()}))
        else:
            ctx.stats['agree'] += 1
    for r in recs[:5]:
        ctx.sample({k: str(v)[:200] for k, v in r.items() if k not in ('units', 'zero')})


def search(ctx):
    run(ctx, scale=2)


def replay(ctx, case):
    print('recorded case:', case['case'])
    print('re-running the C18 correspondence with the recorded seed reproduces it: VERIF_SEED=<seed> ./check C18 quick')
    c = Ctx = None
    from .. import core as _c
    ctx2 = _c.Ctx('C18', 'quick', ctx.seed)
    run(ctx2)
    print('violations now:', len(ctx2.violations))
    return 1 if ctx2.violations else 0
