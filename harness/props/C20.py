"""C20 correspondence: random histories of constructions from shared Points / Vectors / polygons, in-place mutations of
the shared arguments, moves, deep copies and queries.  After every step: full attribute snapshots of all live objects
(purity of queries; owners untouched by operations that do not go through them; deep copies independent); at the end the
defining data of every object is compared with the observation predicted by the Lean heap model run on the same history
(which encodes, per constructor, which arguments are deep-copied and which are aliased)."""
import random, copy
from fractions import Fraction as F
from .. import core, gen, exact as E
from ..gen import fr

KIND = {'P': 0, 'V': 1, 'L': 2, 'S': 3, 'H': 4, 'PL': 5, 'G': 6, 'B': 7}
OWNING = {'S', 'H', 'G', 'B'}


def t3(p):
    return ' '.join(fr(c) for c in p)


class Hist:
    def __init__(self, impl, R):
        self.impl, self.R = impl, R
        self.tiny = (gen.CHUNK_INDEX is not None and gen.CHUNK_INDEX % 4 == 1)
        self.env = []        # dict(kind, obj, owning)
        self.ops = []        # protocol tokens
        self.log = []        # human-readable
        self.problems = []

    # ---- observation of the defining data (model leaf order; polygons / polyhedra as sorted multisets)
    def leaves(self, e):
        impl = self.impl
        o, k = e['obj'], e['kind']
        ex = impl.ex
        if k == 'P':
            return [impl.pex(o)]
        if k == 'V':
            return [impl.vex(o)]
        if k == 'S':
            return [impl.pex(o.start_point), impl.pex(o.end_point)]
        if k == 'H':
            return [impl.pex(o.point), impl.vex(o.vector)]
        if k == 'L':
            return [impl.vex(o.sv), impl.vex(o.dv)]
        if k == 'PL':
            return [impl.pex(o.p)]
        if k == 'G':
            return sorted(impl.pex(p) for p in o.points)
        return sorted(impl.pex(p) for f in o.convex_polygons for p in f.points)

    def pick(self, kinds):
        c = [i for i, e in enumerate(self.env) if e['kind'] in kinds]
        return self.R.choice(c) if c else None

    def lat(self):
        if self.tiny:      # the corner of the lattice where CPython hashes collide (hash(-1) == hash(-2)), see harness/gen.py
            return tuple(F(self.R.choice([-2, -1, -1, 0, 1])) for _ in range(3))
        return tuple(F(self.R.randint(-16, 16), 4) for _ in range(3))

    def add(self, kind, obj, owning):
        self.env.append(dict(kind=kind, obj=obj, owning=owning))
        return len(self.env) - 1

    # ---- operations
    def new(self, kind=None, val=None):
        impl = self.impl
        kind = kind or self.R.choice(['P', 'P', 'V'])
        v = val or self.lat()
        if kind == 'V' and v == (0, 0, 0):
            v = (F(1), F(0), F(2))
        obj = impl.Pt(v) if kind == 'P' else impl.Vc(v)
        self.ops.append('n %d %s' % (KIND[kind], t3(v)))
        self.log.append('%s%d = %s(%s)' % (kind.lower(), len(self.env), 'Point' if kind == 'P' else 'Vector', t3(v)))
        return self.add(kind, obj, False)

    def cur(self, i):
        return self.leaves(self.env[i])[0]

    def build(self):
        impl, R = self.impl, self.R
        from ..impl import Line, Plane, Segment, HalfLine, ConvexPolygon
        form = R.choice(['S_PP', 'S_PV', 'H_PV', 'H_PP', 'L_PP', 'L_PV', 'L_VV', 'PL_PV', 'G'])
        need_p = {'S_PP': 2, 'S_PV': 1, 'H_PV': 1, 'H_PP': 2, 'L_PP': 2, 'L_PV': 1, 'L_VV': 0, 'PL_PV': 1, 'G': 0}[form]
        need_v = {'S_PV': 1, 'H_PV': 1, 'L_PV': 1, 'L_VV': 2, 'PL_PV': 1}.get(form, 0)
        ps = [i for i, e in enumerate(self.env) if e['kind'] == 'P']
        vs = [i for i, e in enumerate(self.env) if e['kind'] == 'V']
        while len(ps) < max(need_p, 3 if form == 'G' else 0):
            ps.append(self.new('P'))
        while len(vs) < need_v:
            vs.append(self.new('V'))
        try:
            if form == 'G':
                # three or four shared Points in convex position: take 3 random non-collinear
                for _ in range(20):
                    tri = R.sample(ps, 3)
                    a, b, c = (self.cur(i) for i in tri)
                    from ..exact import cross, sub, is0
                    if not is0(cross(sub(b, a), sub(c, a))):
                        break
                else:
                    return
                obj = ConvexPolygon(tuple(self.env[i]['obj'] for i in tri))
                self.ops.append('b %d 1 3 %s 0' % (KIND['G'], ' '.join('%d 1' % i for i in tri)))
                self.log.append('g%d = ConvexPolygon(%s)' % (len(self.env), ', '.join('p%d' % i for i in tri)))
                return self.add('G', obj, True)
            if form in ('S_PP', 'H_PP', 'L_PP'):
                i, j = R.sample(ps, 2)
                a, b = self.cur(i), self.cur(j)
                if a == b:
                    return
                pi, pj = self.env[i]['obj'], self.env[j]['obj']
                dv = tuple(y - x for x, y in zip(a, b))
                if form == 'S_PP':
                    obj, kind, src, der = Segment(pi, pj), 'S', '2 %d 1 %d 1' % (i, j), '0'
                elif form == 'H_PP':
                    obj, kind, src, der = HalfLine(pi, pj), 'H', '1 %d 1' % i, '1 ' + t3(dv)
                else:
                    obj, kind, src, der = Line(pi, pj), 'L', '1 %d 1' % i, '1 ' + t3(dv)
                own = 1 if kind in OWNING or form == 'L_PP' else 0
                self.ops.append('b %d %d %s %s' % (KIND[kind], own, src, der))
                self.log.append('%s%d = %s(p%d, p%d)' % (kind.lower(), len(self.env), type(obj).__name__, i, j))
                return self.add(kind, obj, bool(own))
            if form in ('S_PV', 'H_PV', 'L_PV', 'PL_PV'):
                i, j = R.choice(ps), R.choice(vs)
                a, v = self.cur(i), self.cur(j)
                if v == (0, 0, 0):
                    return
                pi, vj = self.env[i]['obj'], self.env[j]['obj']
                if form == 'S_PV':
                    obj, kind, src, der = Segment(pi, vj), 'S', '1 %d 1' % i, '1 ' + t3(tuple(x + y for x, y in zip(a, v)))
                elif form == 'H_PV':
                    obj, kind, src, der = HalfLine(pi, vj), 'H', '2 %d 1 %d 1' % (i, j), '0'
                elif form == 'L_PV':
                    obj, kind, src, der = Line(pi, vj), 'L', '2 %d 1 %d 0' % (i, j), '0'      # sv = fresh pv(), dv aliased
                else:
                    obj, kind, src, der = Plane(pi, vj), 'PL', '1 %d 0' % i, '1 0 0 0'          # p aliased, n = fresh unit vector (not compared)
                own = 1 if kind in OWNING else 0
                self.ops.append('b %d %d %s %s' % (KIND[kind], own, src, der))
                self.log.append('%s%d = %s(p%d, v%d)' % (kind.lower(), len(self.env), type(obj).__name__, i, j))
                return self.add(kind, obj, bool(own))
            if form == 'L_VV':
                i, j = R.sample(vs, 2)
                if self.cur(j) == (0, 0, 0):
                    return
                obj = Line(self.env[i]['obj'], self.env[j]['obj'])
                self.ops.append('b %d 0 2 %d 0 %d 0 0' % (KIND['L'], i, j))          # both aliased
                self.log.append('l%d = Line(v%d, v%d)' % (len(self.env), i, j))
                return self.add('L', obj, False)
        except ValueError:
            return

    def tetra(self):
        """four fresh Points, four polygons built from them, one polyhedron built from the polygons"""
        from ..impl import ConvexPolygon, ConvexPolyhedron
        from ..exact import det3, sub
        for _ in range(30):
            vals = [self.lat() for _ in range(4)]
            if det3(sub(vals[1], vals[0]), sub(vals[2], vals[0]), sub(vals[3], vals[0])) != 0:
                break
        else:
            return
        pi = [self.new('P', v) for v in vals]
        gi = []
        for tri in ((0, 1, 2), (0, 1, 3), (0, 2, 3), (1, 2, 3)):
            ids = [pi[t] for t in tri]
            obj = ConvexPolygon(tuple(self.env[i]['obj'] for i in ids))
            self.ops.append('b %d 1 3 %s 0' % (KIND['G'], ' '.join('%d 1' % i for i in ids)))
            self.log.append('g%d = ConvexPolygon(%s)' % (len(self.env), ', '.join('p%d' % i for i in ids)))
            gi.append(self.add('G', obj, True))
        obj = ConvexPolyhedron(tuple(self.env[i]['obj'] for i in gi))
        self.ops.append('b %d 1 4 %s 0' % (KIND['B'], ' '.join('%d 1' % i for i in gi)))
        self.log.append('b%d = ConvexPolyhedron(%s)' % (len(self.env), ', '.join('g%d' % i for i in gi)))
        return self.add('B', obj, True)

    def write(self):
        i = self.pick(['P', 'V'])
        if i is None:
            return
        e = self.env[i]
        k = self.R.randrange(3)
        val = F(self.R.randint(-16, 16), 4)
        cur = list(self.cur(i))
        cur[k] = val
        if e['kind'] == 'V' and tuple(cur) == (0, 0, 0):
            return
        # never zero the direction of a Line that aliases this Vector (that would be an invalid object, not an aliasing question)
        for o in self.env:
            if o['kind'] == 'L' and e['kind'] == 'V' and o['obj'].dv is e['obj'] and tuple(cur) == (0, 0, 0):
                return
        how = self.R.choice(['attr', 'item'])
        if e['kind'] == 'P' and how == 'attr':
            setattr(e['obj'], 'xyz'[k], float(val))
        else:
            e['obj'][k] = float(val)
        self.ops.append('w %d 0 %s' % (i, t3(cur)))
        self.log.append('%s%d[%d] = %s' % (e['kind'].lower(), i, k, fr(val)))
        return i

    def move(self, i=None):
        if i is None:
            i = self.pick(['P', 'P', 'S', 'H', 'G', 'B'])
        if i is None:
            return
        e = self.env[i]
        v = tuple(F(self.R.randint(-8, 8), 4) for _ in range(3))
        if self.tiny:      # one unit along an axis: the move that turns an object into its hash twin
            ax = self.R.randrange(3)
            v = tuple(F(self.R.choice([-1, 1])) if t == ax else F(0) for t in range(3))
        e['obj'].move(self.impl.Vc(v))
        k = e['kind']
        if k == 'P':
            self.ops.append('m %d 1 0 %s 0' % (i, t3(v)))
        elif k == 'S':
            self.ops.append('m %d 2 0 1 %s 0' % (i, t3(v)))
        elif k == 'H':
            self.ops.append('m %d 1 0 %s 1 %s' % (i, t3(v), t3(self.leaves(e)[1])))
        else:
            n = len(self.leaves(e))
            self.ops.append('m %d %d %s %s 0' % (i, n, ' '.join(str(t) for t in range(n)), t3(v)))
        self.log.append('%s%d.move(%s)' % (k.lower(), i, t3(v)))
        return i

    def dcopy(self):
        i = self.R.randrange(len(self.env))
        e = self.env[i]
        obj = copy.deepcopy(e['obj'])
        eq = self.impl.call(lambda: obj == e['obj'])
        if eq != ('ok', True):
            self.problems.append('deepcopy of %s%d is not equal to the original: %s' % (e['kind'].lower(), i, eq[1:] if eq[0] != 'ok' else eq[1]))
        self.ops.append('c %d' % i)
        self.log.append('%s%d = deepcopy(%s%d)' % (e['kind'].lower(), len(self.env), e['kind'].lower(), i))
        return self.add(e['kind'], obj, e['owning'])

    def query(self):
        impl, R = self.impl, self.R
        i, j = R.randrange(len(self.env)), R.randrange(len(self.env))
        a, b = self.env[i]['obj'], self.env[j]['obj']
        q = R.choice(['intersection', 'in', 'distance', 'angle', 'parallel', 'orthogonal', '==', 'hash', 'repr', 'length', 'area', 'volume'])
        fns = {'intersection': lambda: impl.intersection(a, b), 'in': lambda: a in b, 'distance': lambda: impl.distance(a, b), 'angle': lambda: impl.angle(a, b),
               'parallel': lambda: impl.parallel(a, b), 'orthogonal': lambda: impl.orthogonal(a, b), '==': lambda: a == b, 'hash': lambda: hash(a), 'repr': lambda: repr(a),
               'length': lambda: a.length(), 'area': lambda: a.area(), 'volume': lambda: a.volume()}
        r = impl.call(fns[q])
        self.ops.append('q')
        self.log.append('%s(%s%d, %s%d)' % (q, self.env[i]['kind'].lower(), i, self.env[j]['kind'].lower(), j))
        return q, i, j, r


def canon_answer(impl, r):
    if r[0] != 'ok':
        return ('exc', r[1])
    v = r[1]
    d = impl.describe(v) if not isinstance(v, (bool, int, float, str)) else v
    if isinstance(d, tuple) and d and d[0] in ('G', 'B'):
        from .. import compare
        return (d[0], tuple(sorted((round(float(c), 9) for c in p)) for p in sorted(compare.verts(d))))
    if isinstance(d, float):
        return round(d, 9)
    if isinstance(d, tuple):
        return tuple(tuple(round(float(c), 9) for c in x) if isinstance(x, tuple) else x for x in d)
    return d


class Pristine:
    """client of harness/pristine.py (one server per worker process, started lazily)"""
    proc = None

    @classmethod
    def ask(cls, q, A, B):
        import subprocess, sys, os, json
        if cls.proc is None or cls.proc.poll() is not None:
            root = os.path.dirname(os.path.dirname(os.path.dirname(os.path.abspath(__file__))))
            cls.proc = subprocess.Popen([sys.executable, '-B', '-m', 'harness.pristine'], cwd=root, stdin=subprocess.PIPE, stdout=subprocess.PIPE, text=True, bufsize=1)
        cls.proc.stdin.write(json.dumps({'q': q, 'a': gen.jsonable(list(A)), 'b': gen.jsonable(list(B))}) + '\n')
        cls.proc.stdin.flush()
        line = cls.proc.stdout.readline()
        if not line:
            raise RuntimeError('pristine evaluator died')
        return json.loads(line)['r']


def one_history(impl, R):
    h = Hist(impl, R)
    n = R.randint(8, 30)
    h.new('P')
    h.new('P')
    h.new('V')
    for step in range(n):
        c = R.random()
        before = [impl.snapshot(e['obj']) for e in h.env]
        target = None
        qinfo = None
        try:
            if c < 0.12:
                h.new()
            elif c < 0.42:
                h.build()
            elif c < 0.46:
                h.tetra()
            elif c < 0.62:
                target = h.write()
            elif c < 0.72:
                # query - move - query: binary queries of the object with two partners are asked BEFORE the in-place move (whatever they
                # memoise is memoised now) and again after it; the later answers are compared with a process that has run nothing else
                mi = h.pick(['P', 'P', 'S', 'H', 'G', 'B'])
                partners = [R.randrange(len(h.env)) for _ in range(2)] if mi is not None else []
                QS = ['intersection', 'in', 'distance', '==']

                def qfn(q, a, b):
                    return {'intersection': lambda: impl.intersection(a, b), 'in': lambda: a in b, 'distance': lambda: impl.distance(a, b), '==': lambda: a == b}[q]
                for j in partners:
                    for q in QS:
                        impl.call(qfn(q, h.env[mi]['obj'], h.env[j]['obj']))
                        impl.call(qfn(q, h.env[j]['obj'], h.env[mi]['obj']))
                target = h.move(mi)
                from .. import pristine as _pr, compare as _cmp
                import json as _json
                for j in partners:
                    for q in QS:
                        for (x, y, xi, yi) in ((h.env[mi]['obj'], h.env[j]['obj'], mi, j), (h.env[j]['obj'], h.env[mi]['obj'], j, mi)):
                            da, db = impl.describe(x), impl.describe(y)
                            if da[0] == 'other' or db[0] == 'other':
                                continue
                            here = _json.loads(_json.dumps(_pr.canon(impl, _cmp, impl.call(qfn(q, x, y)))))
                            there = Pristine.ask(q, da, db)
                            if not _pr.same_answer(here, there) and not (isinstance(there, list) and there and there[0] == 'pristine-error'):
                                h.problems.append('after %s the answer of %s(%s%d, %s%d), asked before the move as well, is %r; freshly built operands in a process that has run nothing else give %r (operands %s, %s)' % (
                                    h.log[-1], q, h.env[xi]['kind'].lower(), xi, h.env[yi]['kind'].lower(), yi, here, there, da, db))
            elif c < 0.80:
                h.dcopy()
            elif c < 0.83:
                # objects DERIVED from a composite own their data too: the negated polygon and the object returned by move() of a
                # deep copy are moved in place; the composite they came from must not notice (checked by the snapshots below)
                gi = h.pick(['G', 'S', 'H'])
                if gi is not None:
                    a_ = h.env[gi]['obj']
                    v_ = impl.Vc(tuple(F(R.choice([-3, -1, 1, 2])) for _ in range(3)))
                    if h.env[gi]['kind'] == 'G':
                        (-a_).move(v_)
                        (-(-a_)).move(v_)
                    copy.deepcopy(a_).move(v_).move(v_)
                    h.log.append('derived objects of %s%d moved' % (h.env[gi]['kind'].lower(), gi))
            else:
                qinfo = h.query()
        except Exception as e:
            h.problems.append('step %d (%s) raised %s: %s' % (step, h.log[-1] if h.log else '?', type(e).__name__, str(e)[:80]))
            break
        after = [impl.snapshot(e['obj']) for e in h.env[:len(before)]]
        for i, (x, y) in enumerate(zip(before, after)):
            if x == y:
                continue
            e = h.env[i]
            what = h.log[-1]
            if qinfo is not None:
                h.problems.append('query %s changed an attribute of %s%d' % (what, e['kind'].lower(), i))
            elif e['owning'] and i != target:
                h.problems.append('%s changed the owning composite %s%d (built earlier from its own copies)' % (what, e['kind'].lower(), i))
            elif target is None and i < len(before):
                h.problems.append('%s (a construction / copy) changed the existing object %s%d' % (what, e['kind'].lower(), i))
        if qinfo is not None:
            # the answer of a query does not depend on which other queries ran before it: ask again after unrelated queries
            q, i, j, r = qinfo
            first = canon_answer(impl, r)
            for _ in range(2):
                h.query()
            a, b = h.env[i]['obj'], h.env[j]['obj']
            fn = {'intersection': lambda: impl.intersection(a, b), 'in': lambda: a in b, 'distance': lambda: impl.distance(a, b), 'angle': lambda: impl.angle(a, b),
                  'parallel': lambda: impl.parallel(a, b), 'orthogonal': lambda: impl.orthogonal(a, b), '==': lambda: a == b, 'hash': lambda: hash(a), 'repr': lambda: repr(a),
                  'length': lambda: a.length(), 'area': lambda: a.area(), 'volume': lambda: a.volume()}[q]
            again = canon_answer(impl, impl.call(fn))
            if again != first:
                h.problems.append('the answer of %s(%s%d, %s%d) changed after unrelated queries: %r then %r' % (q, h.env[i]['kind'].lower(), i, h.env[j]['kind'].lower(), j, first, again))
            elif q not in ('hash', 'repr'):
                # ... nor on anything else that happened in this process: the same query on freshly built operands with the same
                # defining data, evaluated in a process that has run no other library call (harness/pristine.py)
                from .. import pristine as _pr, compare as _cmp
                da, db = impl.describe(a), impl.describe(b)
                if da[0] != 'other' and db[0] != 'other':
                    here = _pr.canon(impl, _cmp, impl.call(fn))
                    there = Pristine.ask(q, da, db)
                    import json as _json
                    if not _pr.same_answer(_json.loads(_json.dumps(here)), there) and not (isinstance(there, list) and there and there[0] == 'pristine-error'):
                        h.problems.append('the answer of %s(%s%d, %s%d) depends on the history: %r here, %r in a process that has run nothing else (operands %s, %s)' % (
                            q, h.env[i]['kind'].lower(), i, h.env[j]['kind'].lower(), j, here, there, gen.tok(da)[:80] if da[0] != 'V' else da, gen.tok(db)[:80] if db[0] != 'V' else db))
        if h.problems:
            break
    obs = [(e['kind'], h.leaves(e)) for e in h.env]
    return dict(ops=h.ops, log=h.log, problems=h.problems, obs=obs)


def twin_move_catalogue(impl):
    """fixed histories 'query - hash-preserving move - same query': every moved coordinate goes from -1 to -2 (CPython: hash(-1) ==
    hash(-2)), so the 10-digit hash of the receiver is the same before and after; anything keyed by hash / == of the operands and
    filled by the first query must not answer the second one.  Answers are compared with freshly built operands in a process
    that has run nothing else."""
    import json
    from .. import pristine as _pr, compare as _cmp
    V = E.V
    recs = []
    for ax in range(3):
        def pt(a, b, c=-1):
            q = [a, b]
            q.insert(ax, c)
            return V(*q)
        mv = tuple(F(-1) if t == ax else F(0) for t in range(3))
        dirv = tuple(F(1) if t == ax else F(0) for t in range(3))
        movers = [('P', pt(0, 0)), ('S', pt(0, 0), pt(1, 0)), ('G', [pt(0, 0), pt(1, 0), pt(1, 1), pt(0, 1)]), ('G', [pt(0, 0), pt(1, 0), pt(0, 1)])]
        partners = [('PL', pt(0, 0), dirv), ('P', pt(0, 0)), ('S', pt(0, 0), pt(1, 1)), ('L', pt(0, 0, 0), dirv), ('L', pt(0, 0), pt(1, 1, 0)),
                    ('G', [pt(0, 0), pt(1, 0), pt(1, 1), pt(0, 1)]), ('H', pt(0, 0, 1), tuple(-c for c in dirv)),
                    ('B', [[pt(a, b, c) for (a, b, c) in f] for f in (
                        [(0, 0, -1), (1, 0, -1), (1, 1, -1), (0, 1, -1)], [(0, 0, 1), (1, 0, 1), (1, 1, 1), (0, 1, 1)],
                        [(0, 0, -1), (1, 0, -1), (1, 0, 1), (0, 0, 1)], [(0, 1, -1), (1, 1, -1), (1, 1, 1), (0, 1, 1)],
                        [(0, 0, -1), (0, 1, -1), (0, 1, 1), (0, 0, 1)], [(1, 0, -1), (1, 1, -1), (1, 1, 1), (1, 0, 1)])])]
        for A in movers:
            for B in partners:
                qs = {'intersection': lambda a, b: impl.intersection(a, b), 'distance': lambda a, b: impl.distance(a, b), 'in': lambda a, b: a in b, '==': lambda a, b: a == b}
                for swapped in (False, True):
                    log, problems = [], []
                    try:
                        a, b = impl.build(A), impl.build(B)
                        for q, f in qs.items():
                            impl.call((lambda: f(b, a)) if swapped else (lambda: f(a, b)))
                        a.move(impl.Vc(mv))
                        log = ['%s = %s' % ('a', gen.tok(A)[:60]), 'b = %s' % gen.tok(B)[:60], 'queries(%s)' % ('b, a' if swapped else 'a, b'), 'a.move(%s)' % t3(mv)]
                        for q, f in qs.items():
                            x, y = (b, a) if swapped else (a, b)
                            da, db = impl.describe(x), impl.describe(y)
                            here = json.loads(json.dumps(_pr.canon(impl, _cmp, impl.call(lambda: f(x, y)))))
                            there = Pristine.ask(q, da, db)
                            if not _pr.same_answer(here, there) and not (isinstance(there, list) and there and there[0] == 'pristine-error'):
                                problems.append('after the hash-preserving move %s the answer of %s(%s), asked before the move as well, is %r; freshly built operands in a process that has run nothing else give %r' % (
                                    log[-1], q, 'b, a' if swapped else 'a, b', here, there))
                    except Exception as e:
                        problems.append('twin-move catalogue raised %s: %s' % (type(e).__name__, str(e)[:80]))
                    recs.append(dict(log=log + ['same queries again'], problems=problems))
    return recs


def work(args):
    seed, n, idx = args
    from .. import impl
    R = random.Random(seed)
    return [one_history(impl, R) for _ in range(n)]


def parse_model_obs(line):
    out = []
    for part in line.split(' | '):
        k, _, rest = part.partition(':')
        t = rest.split()
        out.append((int(k), [tuple(F(x) for x in t[i:i + 3]) for i in range(0, len(t), 3)]))
    return out


INV_KIND = {v: k for k, v in KIND.items()}


def run(ctx, scale=1):
    ctx.extra['rule'] = ('histories of 8-30 random steps over a growing environment: new Point/Vector (12%), constructions from SHARED Points/Vectors — Segment, HalfLine, Line (3 forms), Plane, ConvexPolygon (30%), '
                         'tetrahedron from 4 polygons (4%), coordinate assignment p.x= / p[i]= / v[i]= on shared arguments (16%), move of Points and owning composites (10%), deepcopy (8%), one of 12 queries on a random '
                         'ordered pair followed by two unrelated queries and a repeat (20%); full attribute snapshots of every live object before/after each step; final defining data compared with the Lean heap model; '
                         'non-trivial = every history (all contain shared-argument constructions)')
    total = ctx.n(500, 30000) * scale
    recs = []
    for part in core.pmap(work, core.chunks(ctx, total, per=20)):
        recs.extend(part)
    outs = core.model_lines(['heap ' + ' '.join(r['ops']) for r in recs])
    for r, ml in zip(recs, outs):
        key = ' ; '.join(r['log'])
        ctx.count(key)
        ctx.dist['history with %d-%d steps' % (len(r['log']) // 10 * 10, len(r['log']) // 10 * 10 + 9)] += 1
        problems = list(r['problems'])
        if not problems:
            if ml == 'bad-op':
                raise RuntimeError('heap protocol error: ' + ' '.join(r['ops'])[:300])
            mobs = parse_model_obs(ml)
            if len(mobs) != len(r['obs']):
                raise RuntimeError('heap model has %d objects, implementation %d' % (len(mobs), len(r['obs'])))
            for i, ((kind, leaves), (mk, ml_)) in enumerate(zip(r['obs'], mobs)):
                if kind in ('G', 'B'):
                    ml_ = sorted(ml_)
                if kind == 'PL':
                    ml_ = ml_[:1]
                if list(leaves) != list(ml_):
                    problems.append('%s%d: defining data %s, heap model predicts %s (aliasing / copying differs from the constructor table)' % (
                        kind.lower(), i, [t3(x) for x in leaves], [t3(x) for x in ml_]))
                    break
        if problems:
            ctx.stats['DISAGREE'] += 1
            ctx.violation(key[:400], 'history [%s]: %s' % (key[:600], '; '.join(problems[:2])), dict(log=r['log'], ops=r['ops'], problems=problems))
        else:
            ctx.stats['agree'] += 1
    from .. import impl as _impl
    for r in twin_move_catalogue(_impl):
        key = 'twin-move: ' + ' ; '.join(r['log'])
        ctx.count(key)
        ctx.dist['fixed query / hash-preserving move / query history'] += 1
        if r['problems']:
            ctx.stats['DISAGREE'] += 1
            ctx.violation(key[:400], 'history [%s]: %s' % (key[:600], '; '.join(r['problems'][:2])), dict(log=r['log'], ops=[], problems=r['problems']))
        else:
            ctx.stats['agree'] += 1
    for r in recs[:3]:
        ctx.sample(' ; '.join(r['log'])[:500])


def search(ctx):
    run(ctx, scale=2)


def replay(ctx, case):
    c = case['case']
    print('history:', ' ; '.join(c['log']))
    print('recorded problems:', c['problems'])
    print('re-run with the recorded seed to replay the exact random history: VERIF_SEED=%d ./check C20 quick' % ctx.seed)
    ctx2 = core.Ctx('C20', 'quick', ctx.seed)
    run(ctx2)
    print('violations now:', len(ctx2.violations))
    print('AGREE' if not ctx2.violations else 'VIOLATION property=C20')
    return 1 if ctx2.violations else 0
