"""C11 correspondence: angle / parallel / orthogonal (function and method forms) vs exact cos² and exact booleans."""
import random, math
from fractions import Fraction as F
from .. import core, gen, admit, exact as E, interlib
from ..gen import Gen, tok
from ..exact import cross, dot, is0, mul, V

COMBOS = [('L', 'L'), ('L', 'PL'), ('PL', 'L'), ('PL', 'PL'), ('V', 'V')]
RATIOS = [F(1, 2), F(1), F(2), F(3), F(7), F(-1), F(-3), F(-1, 2), F(-21)]


def dir_pair(G, i):
    """pairs of lattice directions: generic, exactly parallel / anti-parallel of every ratio, exactly perpendicular"""
    R = G.R
    u = G.dirv(4)
    c = i % 4
    if c == 0:
        v = G.dirv(4)
        cls = 'generic'
    elif c == 1:
        v = mul(R.choice(RATIOS), u)
        cls = 'parallel'
    elif c == 2:
        while True:
            v = cross(u, G.dirv(3))
            if not is0(v):
                break
        g = R.choice([F(1), F(1, 2), F(2), F(-1)])
        v = mul(g, v)
        cls = 'perpendicular'
    else:
        # near-degenerate but outside the tolerance band: small lattice tilt
        v = E.add(mul(R.choice([F(2), F(3), F(-2)]), u), V(*[R.choice([0, 0, 1, -1]) for _ in range(3)]))
        if is0(v):
            v = G.dirv(4)
        cls = 'tilted'
    return u, v, cls


def work(args):
    seed, n, idx = args
    from .. import impl
    G = Gen(random.Random(seed))
    out = []
    for i in range(n):
        ka, kb = COMBOS[(idx + i) % 5]
        u, v, cls = dir_pair(G, (idx * 3 + i) // 5)
        A = ('V', u) if ka == 'V' else (ka, G.pt(), u)
        B = ('V', v) if kb == 'V' else (kb, G.pt(), v)
        if G.R.random() < 0.2:
            # decoy: lines built ON the library's constant vectors and then moved in place by one of the directions under test -- were
            # a constant a shared instance, it would now BE that direction and the zero / unit shortcuts of parallel() would fire
            for fac in (impl.Vector.zero, impl.Vector.x_unit_vector, impl.Vector.y_unit_vector, impl.Vector.z_unit_vector):
                try:
                    impl.Line(fac(), impl.Vc(u)).move(impl.Vc(v if G.R.random() < 0.5 else u))
                except Exception:
                    pass
        a, b = interlib.build_pair(impl, A, B)      # primed in-place move / shared-Point decoys for a third of the cases
        obs = {}
        for name, f in (('angle', impl.angle), ('parallel', impl.parallel), ('orthogonal', impl.orthogonal)):
            obs[name] = core.guarded(impl.call, f, a, b)
            obs[name + '-swapped'] = core.guarded(impl.call, f, b, a)
            if ka != 'V':
                obs[name + '-method'] = core.guarded(impl.call, lambda x, y, nm=name: getattr(x, nm)(y), a, b)
        out.append((A, B, cls, obs))
    return out


def mtok(o):
    return 'V ' + gen.tv(o[1]) if o[0] == 'V' else tok(o)


def run(ctx, scale=1):
    ctx.extra['rule'] = ('Line/Line, Line/Plane, Plane/Line, Plane/Plane, Vector/Vector cycled; direction pairs: generic lattice pairs (|component| <= 4, some rescaled), exactly parallel and '
                         'anti-parallel pairs with length ratios {1/2,1,2,3,7,-1,-3,-1/2,-21}, exactly perpendicular pairs, slightly tilted pairs; function both orders and method form; '
                         'non-trivial = parallel / perpendicular / tilted')
    total = ctx.n(8000, 400000) * scale
    cases = []
    for part in core.pmap(work, core.chunks(ctx, total, per=400)):
        cases.extend(part)
    outs = core.model_lines(['angle %s %s' % (mtok(A), mtok(B)) for A, B, _, _ in cases])
    for (A, B, cls, obs), ml in zip(cases, outs):
        key = mtok(A) + '|' + mtok(B)
        t = ml.split()
        if t[0] not in ('acute', 'compl'):
            raise RuntimeError('model: %s -> %s' % (key, ml))
        c = F(t[1])
        par, orth = t[2] == 'true', t[3] == 'true'
        base = math.acos(min(1.0, math.sqrt(float(c))))
        ref = base if t[0] == 'acute' else math.pi / 2 - base
        ctx.count(key, nontrivial=(cls != 'generic'))
        ctx.dist['%s-%s %s%s' % (A[0], B[0], cls, ' par' if par else (' orth' if orth else ''))] += 1
        problems = []
        for name, r in obs.items():
            kind = name.split('-')[0]
            if r[0] != 'ok':
                problems.append('%s raises %s' % (name, r[1:]))
                continue
            val = r[1]
            if kind == 'angle':
                if not isinstance(val, float) or not (-1e-12 <= val <= math.pi / 2 + 1e-12) or abs(val - ref) > 1e-7:
                    problems.append('%s = %r, exact angle is %.12g (cos^2 = %s)' % (name, val, ref, c))
            elif kind == 'parallel':
                if bool(val) != par or not isinstance(val, bool):
                    problems.append('%s = %r, exact: %s' % (name, val, par))
            else:
                if bool(val) != orth or not isinstance(val, bool):
                    problems.append('%s = %r, exact: %s' % (name, val, orth))
        if not problems:
            ctx.stats['agree'] += 1
            continue
        objs = [o for o in (A, B) if o[0] != 'V'] + [('L', E.ZERO3, o[1]) for o in (A, B) if o[0] == 'V']
        ok, why = admit.admitted(objs, derive=False)
        if not ok:
            ctx.stats['rejected-by-admission: ' + why] += 1
            continue
        ctx.stats['DISAGREE'] += 1
        ctx.violation(key, 'a = %s, b = %s: %s' % (mtok(A), mtok(B), '; '.join(problems[:4])), dict(a=gen.jsonable(A), b=gen.jsonable(B), cls=cls))
    for A, B, cls, obs in cases[:4]:
        ctx.sample('angle(%s, %s) [%s] -> %s, parallel %s, orthogonal %s' % (mtok(A), mtok(B), cls, obs['angle'][1:], obs['parallel'][1:], obs['orthogonal'][1:]))


def search(ctx):
    run(ctx, scale=2)


def replay(ctx, case):
    from .. import impl
    c = case['case']

    def conv(j):
        return ('V', tuple(F(x) for x in j[1])) if j[0] == 'V' else gen.from_jsonable(j)
    A, B = conv(c['a']), conv(c['b'])
    a, b = interlib.build_pair(impl, A, B)
    ml = core.model_lines(['angle %s %s' % (mtok(A), mtok(B))])[0]
    print('a =', mtok(A), ' b =', mtok(B), ' model:', ml)
    t = ml.split()
    cc = F(t[1])
    base = math.acos(min(1.0, math.sqrt(float(cc))))
    ref = base if t[0] == 'acute' else math.pi / 2 - base
    rs = [impl.call(f, a, b) for f in (impl.angle, impl.parallel, impl.orthogonal)]
    print('angle, parallel, orthogonal ->', rs, ' exact angle', ref)
    ok = rs[0][0] == 'ok' and abs(rs[0][1] - ref) <= 1e-7 and rs[1] == ('ok', t[2] == 'true') and rs[2] == ('ok', t[3] == 'true')
    print('AGREE' if ok else 'VIOLATION property=C11')
    return 0 if ok else 1
