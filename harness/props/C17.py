"""C17 correspondence: Plane / Line construction forms and read-back forms round-trip (implementation),
general form against the Lean model (`Plane.ofGF`) and exact membership of probe points."""
import random, itertools
from fractions import Fraction as F
from .. import core, gen, admit, compare, exact as E
from ..gen import Gen, tok, fr
from ..exact import dot, cross, sub, add, mul, is0, nsq, V


def probes(R, a, b, c, d):
    """points exactly on a x + b y + c z = d and points off it by a clear margin"""
    on, off = [], []
    co = (a, b, c)
    k = next(i for i in range(3) if co[i] != 0)
    for _ in range(4):
        x = [F(R.randint(-8, 8), R.choice([1, 2, 4])) for _ in range(3)]
        rest = sum(co[i] * x[i] for i in range(3) if i != k)
        x[k] = (d - rest) / co[k]
        on.append(tuple(x))
        y = list(x)
        y[k] += R.choice([F(1, 4), F(-1, 2), F(1), F(1, 100)])
        off.append(tuple(y))
    return on, off


def work(args):
    seed, n, idx = args
    from .. import impl
    from ..impl import Point, Vector, Plane, Line
    G = Gen(random.Random(seed))
    R = G.R
    out = []
    for i in range(n):
        j = idx * 3 + i
        kind = j % 3
        rec = dict(kind=kind)
        try:
            if kind == 0:     # general form over small integers, every zero pattern
                while True:
                    a, b, c, d = [F(R.randint(-3, 3)) for _ in range(4)]
                    if R.random() < 0.4:
                        z = R.sample(range(3), R.choice([1, 2]))
                        co = [a, b, c]
                        for t in z:
                            co[t] = F(0)
                        a, b, c = co
                    if (a, b, c) != (0, 0, 0):
                        break
                rec['gf'] = (a, b, c, d)
                on, off = probes(R, a, b, c, d)
                r = core.guarded(impl.call, Plane, *[float(x) for x in (a, b, c, d)])
                if r[0] != 'ok':
                    rec['err'] = 'Plane(a,b,c,d) raises %s' % (r[1:],)
                else:
                    P = r[1]
                    rec['plane'] = impl.describe(P)
                    rec['on'] = [(p, impl.call(lambda q: impl.Pt(q) in P, p)) for p in on]
                    rec['off'] = [(p, impl.call(lambda q: impl.Pt(q) in P, p)) for p in off]
                    g = P.general_form()
                    rec['gf_back'] = impl.call(lambda: Plane(*g) == P)
                    # the same plane after an in-place move: the forms must describe the MOVED plane
                    mv = tuple(F(R.randint(-3, 3)) for _ in range(3))
                    P2 = Plane(*[float(x) for x in (a, b, c, d)])
                    if R.random() < 0.7:      # every read-back form (and the hash) was used BEFORE the move: nothing they may have cached can survive it
                        P2.general_form(), P2.point_normal(), P2.parametric(), hash(P2), (-P2)
                    P2.move(impl.Vc(mv))
                    d2 = d + a * mv[0] + b * mv[1] + c * mv[2]
                    on2, off2 = probes(R, a, b, c, d2)

                    def moved_forms():
                        Q = Plane(*P2.general_form())
                        pn = P2.point_normal()
                        u, v, w = P2.parametric()
                        return (Q == P2, Plane(Point(pn[0]), pn[1]) == P2, Plane(Point(u), v, w) == P2, all(impl.Pt(x) in Q for x in on2), not any(impl.Pt(x) in Q for x in off2))
                    rec['moved'] = impl.call(moved_forms)
            elif kind == 1:   # lattice plane in every pose: all forms
                p = G.pt(4)
                nrm = G.dirv(3)
                if R.random() < 0.5:
                    z = R.sample(range(3), R.choice([1, 2]))
                    nn = [nrm[t] if t not in z else F(0) for t in range(3)]
                    if any(nn):
                        nrm = tuple(nn)
                rec['pn'] = (p, nrm)
                P = Plane(impl.Pt(p), impl.Vc(nrm))
                checks = {}
                checks['general_form'] = impl.call(lambda: Plane(*P.general_form()) == P)
                checks['point_normal'] = impl.call(lambda: Plane(Point(P.point_normal()[0]), P.point_normal()[1]) == P)

                def param():
                    u, v, w = P.parametric()
                    Q = Plane(Point(u), v, w)
                    cr = v.cross(w)
                    indep = cr.length() > 1e-3 * v.length() * w.length()
                    inplane = abs(v * P.n) < 1e-9 * v.length() and abs(w * P.n) < 1e-9 * w.length()
                    return (Q == P, indep, inplane)
                checks['parametric'] = impl.call(param)
                checks['neg'] = impl.call(lambda: ((-P) == P, all(abs(x + y) < 1e-12 for x, y in zip(P.n, (-P).n)), impl.Pt(p) in (-P)))
                mva = tuple(F(R.randint(-3, 3)) for _ in range(3))

                def aliased():
                    # planes derived from Q (its negation, the plane returned by Q.move) are moved in place after Q's forms were
                    # read; wherever that leaves Q, its read-back forms must still describe ONE plane: Q itself
                    Q = Plane(impl.Pt(p), impl.Vc(nrm))
                    Q.general_form(), Q.point_normal(), Q.parametric(), hash(Q)
                    (-Q).move(impl.Vc(mva))
                    Q.move(impl.Vc(mva)).move(impl.Vc(tuple(-2 * c for c in mva)))
                    g, pn = Q.general_form(), Q.point_normal()
                    u, v, w = Q.parametric()
                    return (Plane(*g) == Q, Plane(Point(pn[0]), pn[1]) == Q, Plane(Point(u), v, w) == Q, Point(pn[0]) in Q, Point(u) in Q)
                checks['aliased'] = impl.call(aliased)
                # three points
                u, v = cross(nrm, V(1, 0, 0)), cross(nrm, V(0, 1, 0))
                if is0(u):
                    u = cross(nrm, V(0, 0, 1))
                if is0(v) or E.par(u, v):
                    v = cross(nrm, u)
                a3, b3, c3 = p, add(p, u), add(p, v)
                checks['three_points'] = impl.call(lambda: (lambda Q: (impl.Pt(a3) in Q, impl.Pt(b3) in Q, impl.Pt(c3) in Q, Q == P))(Plane(impl.Pt(a3), impl.Pt(b3), impl.Pt(c3))))
                rec['checks'] = checks
            else:             # lines
                p = G.pt(4)
                d = G.dirv(3)
                if R.random() < 0.5:
                    z = R.sample(range(3), R.choice([1, 2]))
                    dd = [d[t] if t not in z else F(0) for t in range(3)]
                    if any(dd):
                        d = tuple(dd)
                q = add(p, d)
                rec['line'] = (p, d)
                mvl = tuple(F(R.randint(-3, 3)) for _ in range(3))

                def lines():
                    L1 = Line(impl.Pt(p), impl.Pt(q))
                    L2 = Line(impl.Pt(p), impl.Vc(d))
                    L3 = Line(impl.Vc(p), impl.Vc(d))
                    s, u = L1.parametric()
                    L4 = Line(s, u)
                    L5 = Line(Point(s), u)
                    other = Line(impl.Pt(add(p, V(0, 0, 1) if d[0] or d[1] else V(1, 0, 0))), impl.Vc(d))
                    base = (L1 == L2, L2 == L3, L3 == L1, L4 == L1, L5 == L1, impl.Pt(p) in L1, impl.Pt(q) in L1, impl.Pt(add(p, mul(F(-3, 2), d))) in L3, L1 == other)
                    # the same line after an in-place move, its forms having been read before: they must describe the MOVED line
                    L6 = Line(impl.Pt(p), impl.Vc(d))
                    L6.parametric(), hash(L6)
                    L6.move(impl.Vc(mvl))
                    s6, u6 = L6.parametric()
                    moved = (Line(s6, u6) == L6, impl.Pt(add(p, mvl)) in L6, Line(impl.Pt(add(p, mvl)), impl.Vc(d)) == L6, Point(s6) in L6)
                    return base + (all(moved),)
                rec['checks'] = {'lines': impl.call(lines)}
        except Exception as e:
            rec['err'] = 'harness/ctor exception %s: %s' % (type(e).__name__, str(e)[:80])
        out.append(rec)
    return out


def run(ctx, scale=1):
    ctx.extra['rule'] = ('three families cycled: (a,b,c,d) over {-3..3}^4 with every zero pattern (40% forced zeros) + 4 exact probe points on and 4 off the plane; lattice planes (point, normal) with '
                         'normals having one or two zero components in every position and negative leading components, through general_form / point_normal / parametric / three points / negation; '
                         'lattice lines through the three constructor forms and parametric(); non-trivial = at least one zero component in the normal / direction')
    total = ctx.n(6000, 150000) * scale
    recs = []
    for part in core.pmap(work, core.chunks(ctx, total, per=300)):
        recs.extend(part)
    gf = [r for r in recs if r['kind'] == 0]
    outs = core.model_lines(['planegf %s' % ' '.join(fr(x) for x in r['gf']) for r in gf])
    for r, ml in zip(gf, outs):
        a, b, c, d = r['gf']
        key = 'Plane(%s)' % ', '.join(fr(x) for x in r['gf'])
        ctx.count(key, nontrivial=(0 in (a, b, c)))
        ctx.dist['gf zero-pattern %s' % ''.join('0' if x == 0 else ('-' if x < 0 else '+') for x in (a, b, c))] += 1
        m = compare.parse_model(ml)
        if m[0] != 'PL':
            raise RuntimeError('model: %s -> %s' % (key, ml))
        problems = []
        if 'err' in r:
            problems.append(r['err'])
        else:
            if not compare.same_den(r['plane'], m):
                problems.append('denotes another plane than a x + b y + c z = d (implementation %s)' % (tok(('PL',) + tuple(tuple(F(x).limit_denominator(10 ** 6) for x in v) for v in r['plane'][1:])),))
            for p, res in r['on']:
                if res != ('ok', True):
                    problems.append('point (%s) satisfies the equation but `in` gives %s' % (gen.tv(p), res[1:]))
            for p, res in r['off']:
                if res != ('ok', False):
                    problems.append('point (%s) violates the equation but `in` gives %s' % (gen.tv(p), res[1:]))
            if r['gf_back'] != ('ok', True):
                problems.append('Plane(*P.general_form()) == P gives %s' % (r['gf_back'][1:],))
            if r.get('moved') != ('ok', (True, True, True, True, True)):
                problems.append('after P.move(v): (general_form, point_normal, parametric round trips, probes on, probes off) = %s' % (r['moved'][1:] if r['moved'][0] != 'ok' else r['moved'][1],))
        if problems:
            ctx.stats['DISAGREE general form'] += 1
            ctx.violation(key, key + ': ' + '; '.join(problems[:3]), dict(kind=0, gf=gen.jsonable(list(r['gf']))))
        else:
            ctx.stats['agree general form'] += 1
    for r in recs:
        if r['kind'] == 0:
            continue
        if r['kind'] == 1:
            p, nrm = r['pn']
            key = 'Plane(Point(%s), Vector(%s))' % (gen.tv(p), gen.tv(nrm))
            ctx.count(key, nontrivial=(0 in nrm))
            ctx.dist['normal zero-pattern %s' % ''.join('0' if x == 0 else ('-' if x < 0 else '+') for x in nrm)] += 1
            expect = dict(general_form=True, point_normal=True, parametric=(True, True, True), neg=(True, True, True), three_points=(True, True, True, True), aliased=(True,) * 5)
        else:
            p, d = r['line']
            key = 'Line(Point(%s), Vector(%s))' % (gen.tv(p), gen.tv(d))
            ctx.count(key, nontrivial=(0 in d))
            ctx.dist['direction zero-pattern %s' % ''.join('0' if x == 0 else ('-' if x < 0 else '+') for x in d)] += 1
            expect = dict(lines=(True,) * 8 + (False, True))      # last entry: the forms of the line after a primed in-place move
        problems = []
        if 'err' in r:
            problems.append(r['err'])
        for name, want in expect.items():
            got = r.get('checks', {}).get(name)
            if got is None:
                continue
            if got != ('ok', want):
                problems.append('%s: got %s, expected %s' % (name, got[1:] if got[0] != 'ok' else got[1], want))
        if problems:
            ctx.stats['DISAGREE forms'] += 1
            ctx.violation(key, key + ': ' + '; '.join(problems[:3]), dict(kind=r['kind'], p=gen.jsonable(p), v=gen.jsonable(nrm if r['kind'] == 1 else d)))
        else:
            ctx.stats['agree forms'] += 1
    for r in recs[:6]:
        ctx.sample({k: (str(v)[:160]) for k, v in r.items() if k in ('gf', 'pn', 'line', 'checks', 'gf_back')})


def search(ctx):
    run(ctx, scale=2)


def replay(ctx, case):
    from .. import impl
    from ..impl import Point, Vector, Plane, Line
    c = case['case']
    ok = True
    if c['kind'] == 0:
        a, b, cc, d = [F(x) for x in c['gf']]
        r = impl.call(Plane, float(a), float(b), float(cc), float(d))
        print('Plane(%s) ->' % c['gf'], r)
        ok = r[0] == 'ok'
        if ok:
            on, off = probes(random.Random(1), a, b, cc, d)
            ok = all(impl.Pt(p) in r[1] for p in on) and not any(impl.Pt(p) in r[1] for p in off)
    elif c['kind'] == 1:
        p, nrm = tuple(F(x) for x in c['p']), tuple(F(x) for x in c['v'])
        P = Plane(impl.Pt(p), impl.Vc(nrm))
        for name, f in (('general_form', lambda: Plane(*P.general_form()) == P), ('parametric', lambda: (lambda t: Plane(Point(t[0]), t[1], t[2]) == P)(P.parametric())), ('neg', lambda: (-P) == P)):
            r = impl.call(f)
            print(name, r)
            ok = ok and r == ('ok', True)
    else:
        p, d = tuple(F(x) for x in c['p']), tuple(F(x) for x in c['v'])
        r = impl.call(lambda: Line(impl.Pt(p), impl.Pt(add(p, d))) == Line(impl.Vc(p), impl.Vc(d)))
        print('line forms', r)
        ok = r == ('ok', True)
    print('AGREE' if ok else 'VIOLATION property=C17')
    return 0 if ok else 1
