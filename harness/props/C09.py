"""C09 correspondence: ConvexPolygon / ConvexPolyhedron construction from permuted, duplicated and re-oriented input;
negation of polygons; intersection results fed back.  The objects the IMPLEMENTATION builds are judged by the Lean
validity judges (`validG`, `validB`) and compared with the model constructor and the exact hull."""
import random, itertools
from fractions import Fraction as F
from .. import core, gen, compare, admit, exact as E
from ..gen import Gen, tok, tv
from ..exact import sub, dot, cross, is0, mean


def exact_normal(points, approx):
    """exact normal of the (exact) vertex list with the sign of the implementation's float normal"""
    n = E.polygon_normal([tuple(F(c) for c in p) for p in points])
    if n is None:
        return tuple(F(c) for c in approx)
    if float(dot(n, tuple(F(c) for c in approx))) < 0:
        n = E.neg(n)
    return n


def rot_equal(a, b):
    if len(a) != len(b):
        return False
    n = len(a)
    return any(all(a[(i + s) % n] == b[i] for i in range(n)) for s in range(n))


def work(args):
    seed, n, idx = args
    from .. import impl
    from ..impl import ConvexPolygon, ConvexPolyhedron
    G = Gen(random.Random(seed))
    R = G.R
    out = []
    for i in range(n):
        j = idx * 5 + i
        rec = dict(problems=[])
        try:
            if j % 3 != 2:
                cyc = G.polygon(3, 8)
                if len(cyc) <= 5 and j % 2 == 0:
                    perms = list(itertools.permutations(cyc))
                    pts = list(perms[(j // 6) % len(perms)])
                else:
                    pts = list(cyc)
                    R.shuffle(pts)
                ndup = R.choice([0, 0, 1, 2])
                for _ in range(ndup):
                    pts.insert(R.randrange(len(pts) + 1), R.choice(pts))
                rec.update(kind='G', cyc=cyc, pts=pts)
                p = ConvexPolygon(tuple(impl.Pt(x) for x in pts))
                rec['points'] = [impl.pex(q) for q in p.points]
                rec['normal'] = impl.vex(p.plane.n)
                rec['center'] = impl.pex(p.center_point)
                # the public `reverse=True` form of the constructor (what -p and the face flipping of ConvexPolyhedron use)
                pr_ = ConvexPolygon(tuple(impl.Pt(x) for x in pts), reverse=True)
                rec['rev_points'] = [impl.pex(x) for x in pr_.points]
                rec['rev_normal'] = impl.vex(pr_.plane.n)
                rec['rev_measures'] = impl.call(lambda: (pr_.area(), pr_.length(), p.area(), p.length()))
                q = -p
                rec['neg_points'] = [impl.pex(x) for x in q.points]
                rec['neg_normal'] = impl.vex(q.plane.n)
                qq = -q
                rec['negneg'] = impl.call(lambda: (qq == p, qq.eq_with_normal(p), q == p, q.eq_with_normal(p), rot_equal([impl.pex(x) for x in qq.points], rec['points'])))
                # feed an intersection result back as input
                other = impl.build(('PL', G.comb(cyc), G.dirv(2)))
                r = impl.intersection(p, other)
                if isinstance(r, ConvexPolygon):
                    back = list(r.points)
                    R.shuffle(back)
                    rec['feedback'] = impl.call(lambda: ConvexPolygon(tuple(back)) == r)
            else:
                faces, bk = G.body() if R.random() < 0.6 else (G.hull_body(4, 10), 'hull')
                D = G.shuffled_body(faces)
                rec.update(kind='B', faces=faces, D=D)
                polys = tuple(ConvexPolygon(tuple(impl.Pt(x) for x in f)) for f in D[1])
                b = impl.ConvexPolyhedron(polys)
                if R.random() < 0.4:
                    # the caller's face objects are used again: the same faces build a second copy of the body, and face 0 also bounds a
                    # NEIGHBOURING cell on its other side (a pyramid over it), for which it has the opposite orientation -- whatever the
                    # constructor does to orient its faces, it must do to its own copies
                    try:
                        impl.ConvexPolyhedron(polys)
                        f0 = list(D[1][0])
                        cen = E.mean(E.vertices_of(D))
                        n0 = E.polygon_normal(f0)
                        if E.dot(n0, E.sub(f0[0], cen)) < 0:
                            n0 = E.neg(n0)
                        apex = E.add(E.mean(f0), E.mul(F(1, 2) / max(abs(c_) for c_ in n0), n0))
                        cyc0 = E.vertices_of(('G', f0))
                        tris = [ConvexPolygon((impl.Pt(cyc0[t_]), impl.Pt(cyc0[(t_ + 1) % len(cyc0)]), impl.Pt(apex))) for t_ in range(len(cyc0))]
                        impl.ConvexPolyhedron((polys[0],) + tuple(tris))
                        rec['neighbour_cell'] = True
                    except Exception as e_:
                        rec['neighbour_cell'] = 'failed: %s' % type(e_).__name__
                rec['bfaces'] = [(impl.vex(f.plane.n), [impl.pex(x) for x in f.points], impl.pex(f.center_point)) for f in b.convex_polygons]
                rec['verts'] = sorted(impl.pex(x) for x in b.point_set)
                rec['edges'] = sorted(tuple(sorted((impl.pex(s.start_point), impl.pex(s.end_point)))) for s in b.segment_set)
                rec['center'] = impl.pex(b.center_point)
                rec['center_in'] = impl.call(lambda: b.center_point in b)
                rec['counts'] = (len(b.point_set), len(b.segment_set), len(b.convex_polygons), len(b.pyramid_set))
                # an intersection result fed back: polyhedron ∩ translated copy
                import copy
                if R.random() < 0.5:
                    # faces that carry float noise of an ulp or so -- each face of body ∩ (translated copy) is computed on its own, so a
                    # shared edge has slightly different end points in its two faces: fed back, in shuffled order and with half of the
                    # faces negated, the constructor must accept them and return the same body
                    t = impl.Vc((F(1, 2), F(1, 4), F(-1, 4)))
                    r_ = impl.intersection(b, copy.deepcopy(b).move(t))
                    if isinstance(r_, impl.ConvexPolyhedron):
                        fs_ = [(-f if R.random() < 0.5 else f) for f in r_.convex_polygons]
                        R.shuffle(fs_)
                        rec['feedback'] = impl.call(lambda: (lambda again: (again == r_, len(again.point_set) == len(r_.point_set), len(again.segment_set) == len(r_.segment_set),
                                                                                   abs(again.volume() - r_.volume()) <= 1e-9 * max(1.0, r_.volume())))(impl.ConvexPolyhedron(tuple(fs_))))
        except Exception as e:
            rec['problems'].append('raises %s: %s' % (type(e).__name__, str(e)[:100]))
        out.append(rec)
    return out


def run(ctx, scale=1):
    ctx.extra['rule'] = ('2/3 polygons: convex lattice cycles with 3-8 vertices, all permutations in rotation for <= 5 vertices and random shuffles otherwise, 0-2 repeated vertices; negation, double negation and '
                         'a plane section fed back as input; 1/3 polyhedra: hulls with 4-10 vertices and affine images of box/prism/pyramid/octahedron/tetrahedron with shuffled face order and a random vertex '
                         'order (orientation) of every face; the implementation\'s stored cycle + normal is judged by the Lean decision procedure polygonValidB / polyhedronValidB; non-trivial = every case')
    ctx.extra['unproved'] = ["Euler's formula for the reference body is a hypothesis of the polyhedron constructor theorems; that a face list is that of a Valid body is judged per constructed object (validB, proved sound)"]
    total = ctx.n(1500, 50000) * scale
    recs = []
    for part in core.pmap(work, core.chunks(ctx, total, per=60)):
        recs.extend(part)
    lines, owners = [], []
    for k, r in enumerate(recs):
        if r['problems']:
            continue
        if r['kind'] == 'G':
            lines.append('validG %s %d %s' % (tv(exact_normal(r['points'], r['normal'])), len(r['points']), ' '.join(tv(p) for p in r['points'])))
            owners.append((k, 'valid'))
            lines.append('validG %s %d %s' % (tv(exact_normal(r['neg_points'], r['neg_normal'])), len(r['neg_points']), ' '.join(tv(p) for p in r['neg_points'])))
            owners.append((k, 'negvalid'))
            lines.append('mkG %d %s' % (len(r['pts']), ' '.join(tv(p) for p in r['pts'])))
            owners.append((k, 'model'))
            lines.append('validG %s %d %s' % (tv(exact_normal(r['rev_points'], r['rev_normal'])), len(r['rev_points']), ' '.join(tv(p) for p in r['rev_points'])))
            owners.append((k, 'revvalid'))
            lines.append('mkGr %d %s' % (len(r['pts']), ' '.join(tv(p) for p in r['pts'])))
            owners.append((k, 'revmodel'))
        else:
            lines.append('validB %d %s' % (len(r['bfaces']), ' '.join('%s %d %s' % (tv(exact_normal(ps, n)), len(ps), ' '.join(tv(p) for p in ps)) for n, ps, c in r['bfaces'])))
            owners.append((k, 'validB'))
    outs = core.model_lines(lines)
    for (k, what), ml in zip(owners, outs):
        recs[k][what] = ml
    for r in recs:
        pr = list(r['problems'])
        if r.get('kind') == 'G':
            cyc, pts = r['cyc'], r['pts']
            key = 'ConvexPolygon(%s)' % ' '.join('(%s)' % tv(p) for p in pts)
            ctx.count(key)
            ctx.dist['polygon %d vertices, %d input points' % (len(cyc), len(pts))] += 1
            if not pr:
                got = [tuple(F(c) for c in p) for p in r['points']]
                if sorted(got) != sorted(cyc):
                    pr.append('vertices %s are not the distinct input vertices' % [tv(p) for p in got])
                n = tuple(F(c) for c in r['normal'])
                if r['valid'] != 'true':
                    pr.append('the stored cycle is not a counter-clockwise convex cycle about the stored normal (Lean judge polygonValidB = %s)' % r['valid'])
                m = r['model'].split()
                if m[0] != 'G':
                    raise RuntimeError('model constructor failed on %s: %s' % (key, r['model']))
                kk = int(m[1])
                mp = [tuple(F(x) for x in m[2 + 3 * i:5 + 3 * i]) for i in range(kk)]
                mn = tuple(F(x) for x in m[3 + 3 * kk:6 + 3 * kk])
                if m[-1] != 'true':
                    raise RuntimeError('model polygon is not valid: %s' % r['model'])
                if not rot_equal(got, mp):
                    pr.append('vertex cycle %s differs from the model constructor\'s cycle %s' % ([tv(p) for p in got], [tv(p) for p in mp]))
                if not (compare.dir_par(n, mn) and float(dot(n, mn)) > 0):
                    pr.append('normal %s is not positively parallel to the model normal %s' % (tv(n), tv(mn)))
                if compare.f3(r['center']) != compare.f3(r['center']) or max(abs(float(a) - float(b)) for a, b in zip(r['center'], mean(cyc))) > 1e-9:
                    pr.append('centre %s is not the vertex mean' % (tv(r['center']),))
                # reverse=True: same vertices, counter-clockwise about the REVERSED normal, same cycle as the model, same measures
                rg = [tuple(F(c) for c in p) for p in r['rev_points']]
                rn = tuple(F(c) for c in r['rev_normal'])
                if sorted(rg) != sorted(cyc):
                    pr.append('ConvexPolygon(..., reverse=True) has other vertices')
                if r['revvalid'] != 'true':
                    pr.append('ConvexPolygon(..., reverse=True) is not a counter-clockwise convex cycle about its normal (Lean judge: %s)' % r['revvalid'])
                if not (compare.dir_par(rn, n) and float(dot(rn, n)) < 0):
                    pr.append('ConvexPolygon(..., reverse=True) does not have the opposite normal')
                rm = r['revmodel'].split()
                if rm[0] != 'G' or rm[-1] != 'true':
                    raise RuntimeError('model constructor (reverse) failed on %s: %s' % (key, r['revmodel']))
                rk = int(rm[1])
                rmp = [tuple(F(x) for x in rm[2 + 3 * i:5 + 3 * i]) for i in range(rk)]
                if not rot_equal(rg, rmp):
                    pr.append('reverse=True vertex cycle %s differs from the model constructor\'s cycle %s' % ([tv(p) for p in rg], [tv(p) for p in rmp]))
                ms = r['rev_measures']
                if ms[0] != 'ok' or abs(ms[1][0] - ms[1][2]) > 1e-9 * max(1.0, abs(ms[1][2])) or abs(ms[1][1] - ms[1][3]) > 1e-9 * max(1.0, abs(ms[1][3])):
                    pr.append('reverse=True changes the measures: (area, length, area of p, length of p) = %s' % (ms[1:] if ms[0] != 'ok' else ms[1],))
                # negation
                ng = [tuple(F(c) for c in p) for p in r['neg_points']]
                nn = tuple(F(c) for c in r['neg_normal'])
                if sorted(ng) != sorted(cyc):
                    pr.append('-polygon has other vertices')
                if r['negvalid'] != 'true':
                    pr.append('-polygon is not counter-clockwise about ITS normal')
                if not (compare.dir_par(nn, n) and float(dot(nn, n)) < 0):
                    pr.append('-polygon does not have the opposite normal')
                if r['negneg'] != ('ok', (True, True, True, False, True)):
                    pr.append('(-(-p) == p, -(-p) eq_with_normal p, -p == p, -p eq_with_normal p, same cycle) = %s, expected (True, True, True, False, True)' % (r['negneg'][1:] if r['negneg'][0] != 'ok' else r['negneg'][1],))
                if 'feedback' in r and r['feedback'] != ('ok', True):
                    pr.append('a plane section re-built from its shuffled vertices differs from the section: %s' % (r['feedback'],))
            if pr:
                ok, why = admit.admitted([('G', cyc)], derive=False)
                if not ok:
                    ctx.stats['rejected-by-admission: ' + why] += 1
                    continue
                ctx.stats['DISAGREE'] += 1
                ctx.violation(key, key + ': ' + '; '.join(pr[:3]), dict(kind='G', pts=gen.jsonable(pts)))
            else:
                ctx.stats['agree polygon'] += 1
        elif r.get('kind') == 'B':
            D, faces = r['D'], r['faces']
            key = tok(D)
            ctx.count(key)
            ctx.dist['polyhedron %d faces' % len(faces)] += 1
            if not pr:
                vs = sorted(set(p for f in faces for p in f))
                es = set()
                for f in faces:
                    for i in range(len(f)):
                        a, b = f[i], f[(i + 1) % len(f)]
                        es.add(tuple(sorted((a, b))))
                if [tuple(F(c) for c in p) for p in r['verts']] != vs:
                    pr.append('vertex set differs from the hull\'s vertices')
                if sorted(tuple(tuple(F(c) for c in p) for p in e) for e in r['edges']) != sorted(es):
                    pr.append('edge set differs from the hull\'s edges (%d vs %d)' % (len(r['edges']), len(es)))
                V_, E_, F_, P_ = r['counts']
                if (V_, E_, F_) != (len(vs), len(es), len(faces)) or V_ - E_ + F_ != 2 or P_ != F_:
                    pr.append('counts V,E,F,pyramids = %s, hull has %d,%d,%d' % (r['counts'], len(vs), len(es), len(faces)))
                c = mean(vs)
                for n_, ps, fc in r['bfaces']:
                    if float(dot(tuple(F(x) for x in n_), sub(tuple(F(x) for x in ps[0]), c))) <= 0:
                        pr.append('a face normal points towards the interior')
                        break
                    if sorted(tuple(F(x) for x in p) for p in ps) not in [sorted(f) for f in faces]:
                        pr.append('a stored face is not a face of the hull')
                        break
                if r['validB'] != 'true':
                    pr.append('Lean judge polyhedronValidB = %s' % r['validB'])
                if r['center_in'] != ('ok', True):
                    pr.append('centre in body: %s' % (r['center_in'],))
                if 'feedback' in r and r['feedback'] != ('ok', (True, True, True, True)):
                    pr.append('the faces of body ∩ (translated copy), shuffled and partly negated, fed back into ConvexPolyhedron: (== the result, same V, same E, same volume) = %s' % (r['feedback'][1:] if r['feedback'][0] != 'ok' else r['feedback'][1],))
            if pr:
                ok, why = admit.admitted([('B', faces)], derive=False)
                if not ok:
                    ctx.stats['rejected-by-admission: ' + why] += 1
                    continue
                ctx.stats['DISAGREE'] += 1
                ctx.violation(key[:300], key[:300] + ': ' + '; '.join(pr[:3]), dict(kind='B', d=gen.jsonable(D)))
            else:
                ctx.stats['agree polyhedron'] += 1
        else:
            ctx.stats['DISAGREE'] += 1
            ctx.violation('harness', '; '.join(pr), dict(kind='?'))
    for r in recs[:4]:
        ctx.sample({k: str(v)[:150] for k, v in r.items() if k in ('kind', 'pts', 'points', 'normal', 'counts', 'negneg')})


def search(ctx):
    run(ctx, scale=2)


def replay(ctx, case):
    from .. import impl
    c = case['case']
    if c['kind'] == 'G':
        pts = [tuple(F(x) for x in p) for p in c['pts']]
        p = impl.ConvexPolygon(tuple(impl.Pt(x) for x in pts))
        pp = [impl.pex(q) for q in p.points]
        ml = core.model_lines(['validG %s %d %s' % (tv(exact_normal(pp, impl.vex(p.plane.n))), len(pp), ' '.join(tv(q) for q in pp))])[0]
        print('input', [tv(x) for x in pts], '\nstored cycle', [tv(x) for x in pp], 'normal', tv(impl.vex(p.plane.n)), '\nLean judge polygonValidB:', ml)
        ok = ml == 'true' and sorted(pp) == sorted(set(pts))
    else:
        D = gen.from_jsonable(c['d'])
        b = impl.build(D)
        fs = [(impl.vex(f.plane.n), [impl.pex(x) for x in f.points]) for f in b.convex_polygons]
        ml = core.model_lines(['validB %d %s' % (len(fs), ' '.join('%s %d %s' % (tv(exact_normal(ps, n)), len(ps), ' '.join(tv(p) for p in ps)) for n, ps in fs))])[0]
        print('Lean judge polyhedronValidB:', ml, ' counts', len(b.point_set), len(b.segment_set), len(b.convex_polygons))
        ok = ml == 'true'
    print('AGREE' if ok else 'VIOLATION property=C09')
    return 0 if ok else 1
