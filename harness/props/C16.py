"""C16 correspondence: utils/solver.solve against the proven Lean model, an independent exact elimination
(rank / consistency) and the Lean-side judge `sat` on the tuples the implementation returns."""
import random, itertools
from fractions import Fraction as F
from .. import core, gen
from ..gen import fr

SHAPES = [(1, 2), (1, 3), (2, 2), (2, 3), (3, 2), (3, 3)]


def rank_info(rows, n):
    """(consistent, rank of coefficient matrix) by exact elimination"""
    m = [list(r) for r in rows]
    r = 0
    for c in range(n):
        piv = next((i for i in range(r, len(m)) if m[i][c] != 0), None)
        if piv is None:
            continue
        m[r], m[piv] = m[piv], m[r]
        for i in range(len(m)):
            if i != r and m[i][c] != 0:
                f = m[i][c] / m[r][c]
                m[i] = [a - f * b for a, b in zip(m[i], m[r])]
        r += 1
    consistent = not any(all(x == 0 for x in row[:-1]) and row[-1] != 0 for row in m)
    return consistent, r


def systems(R, total):
    """bounded-exhaustive for the small shapes, stratified random for the rest"""
    out = []
    vals = [F(x) for x in (-2, -1, 0, 1, 2)]
    for (mr, n) in [(1, 2), (1, 3), (2, 2)]:
        cells = mr * (n + 1)
        allm = list(itertools.product(vals, repeat=cells))
        if len(allm) > total // 6:
            allm = R.sample(allm, total // 6)
        for t in allm:
            out.append([list(t[i * (n + 1):(i + 1) * (n + 1)]) for i in range(mr)])
    while len(out) < total:
        mr, n = R.choice(SHAPES)
        mode = R.random()
        if mode < 0.5:
            rows = [[R.choice(vals) for _ in range(n + 1)] for _ in range(mr)]
        elif mode < 0.7:     # rational entries
            rows = [[F(R.randint(-6, 6), R.choice([1, 2, 3, 4])) for _ in range(n + 1)] for _ in range(mr)]
        else:                # structured: zero columns, dependent rows, consistent by construction
            x = [F(R.randint(-3, 3), R.choice([1, 2])) for _ in range(n)]
            rows = []
            for _ in range(mr):
                if rows and R.random() < 0.4:
                    k = F(R.randint(-2, 2))
                    base = R.choice(rows)
                    row = [k * a for a in base]
                    if R.random() < 0.3:
                        row[-1] += 1       # inconsistent dependent row
                else:
                    co = [R.choice(vals) for _ in range(n)]
                    row = co + [sum(a * b for a, b in zip(co, x))]
                rows.append(row)
            for c in range(n):
                if R.random() < 0.25:
                    for row in rows:
                        row[c] = F(0)
            if R.random() < 0.5:
                for row in rows:
                    row[0] = F(0)
        out.append(rows)
    return out


def work(args):
    seed, n_, idx, sysl = args
    from ..impl import G
    from Geometry3D.utils.solver import solve
    import copy
    R = random.Random(seed)
    out = []
    for rows in sysl:
        n = len(rows[0]) - 1
        # float entries only where float elimination is EXACT: every non-zero entry is ± a power of two, so every pivot quotient and
        # every product / sum stays a dyadic rational of small size (otherwise rounding residuals such as 1/3 - 5/3/5 != 0 create
        # spurious pivots: the property's domain is exact rational arithmetic)
        def pow2(x):
            x = abs(F(x))
            return x == 0 or (x.numerator & (x.numerator - 1) == 0 and x.denominator & (x.denominator - 1) == 0)
        # … and with three rows the SECOND pivot must be a power of two as well: entries in {0, ±1} keep every intermediate value in
        # {-2..2} and halves
        exact_float = all(pow2(x) for r in rows for x in r) and (len(rows) <= 2 or all(abs(F(x)) <= 1 and F(x).denominator == 1 for r in rows for x in r))
        as_float = R.random() < 0.3 and exact_float
        inp = [[(float(x) if as_float else x) for x in r] for r in rows]
        try:
            arg = copy.deepcopy(inp)
            if R.random() < 0.5:
                # equal rows given as ONE list object (m = [row] * 2 is an ordinary way to write such a system): the solver must not
                # let the elimination of one row rewrite another through the alias
                for i_ in range(len(arg)):
                    for j_ in range(i_):
                        if arg[j_] == arg[i_]:
                            arg[i_] = arg[j_]
            s = core.guarded(solve, arg)
            if isinstance(s, tuple) and s and s[0] == 'exc':
                raise RuntimeError('solve did not return within the time limit (twice)')
            truthy = bool(s)
            va = s.varargs
        except Exception as e:
            out.append((rows, as_float, ('exc', type(e).__name__, str(e)[:60]), None, None, None))
            continue
        free = [F(R.randint(-3, 3), R.choice([1, 1, 2])) for _ in range(max(va, 0))]
        tup = None
        if truthy:
            try:
                if R.random() < 0.5:
                    # the Solution object is a function of its parameters: calls with OTHER parameter values (and a repeat of
                    # the same ones) come first; the call that is judged must not depend on them
                    other = [F(R.randint(-3, 3), R.choice([1, 2])) for _ in range(max(va, 0))]
                    s(*[(float(x) if as_float else x) for x in other])
                    s(*[(float(x) if as_float else x) for x in free])
                tup = ('ok', tuple(s(*[(float(x) if as_float else x) for x in free])))
            except Exception as e:
                tup = ('exc', type(e).__name__, str(e)[:60])
        out.append((rows, as_float, ('ok', truthy), va, free, tup))
    return out


def line_solve(rows, free):
    m, n = len(rows), len(rows[0]) - 1
    return 'solve %d %d %s %d %s' % (m, n, ' '.join(fr(x) for r in rows for x in r), len(free), ' '.join(fr(x) for x in free))


def run(ctx, scale=1):
    ctx.extra['rule'] = ('augmented matrices with 1-3 rows and 2-3 unknowns: exhaustive over entries in {-2..2} for 1x2, 1x3 and 2x2 (sampled when larger than the budget), '
                         'random / rational / structured (dependent rows, inconsistent rows, zero columns incl. zero leading column) for the rest; 30% evaluated on floats, 70% on Fractions (exact); '
                         'free parameter values random rationals; non-trivial = consistent with rank < unknowns, or inconsistent, or has a zero column')
    total = ctx.n(40000, 1500000) * scale
    R = random.Random(ctx.seed)
    sysl = systems(R, total)
    per = 2500
    args = [(ctx.rng.randrange(1 << 60), 0, i, sysl[i:i + per]) for i in range(0, len(sysl), per)]
    res = []
    for part in core.pmap(work, args):
        res.extend(part)
    lines = []
    for rows, as_float, tr, va, free, tup in res:
        lines.append(line_solve(rows, free if (free is not None and tr[0] == 'ok') else []))
    outs = core.model_lines(lines)
    judge_lines, judge_idx = [], []
    for i, ((rows, as_float, tr, va, free, tup), ml) in enumerate(zip(res, outs)):
        n = len(rows[0]) - 1
        cons, rank = rank_info(rows, n)
        zero_col = any(all(r[c] == 0 for r in rows) for c in range(n))
        key = 'solve ' + str([[fr(x) for x in r] for r in rows])
        ctx.count(key, nontrivial=(not cons or rank < n or zero_col))
        ctx.dist['%dx%d %s rank%d' % (len(rows), n, 'consistent' if cons else 'inconsistent', rank)] += 1
        # model vs exact reference (validates the model)
        m_solv = not ml.startswith('unsolvable')
        if m_solv != cons:
            raise RuntimeError('model truthiness differs from exact consistency: %s -> %s' % (key, ml))
        if cons and ('varargs %d ' % (n - rank)) not in ml + ' ':
            # wrong arity of `free` makes the model report an error but varargs is still printed
            if 'varargs %d' % (n - rank) not in ml:
                raise RuntimeError('model varargs differs from n - rank: %s -> %s' % (key, ml))

        def bad(what, detail):
            ctx.stats['DISAGREE ' + what] += 1
            ctx.violation(key + '|' + what, 'solve(%s): %s' % ([[fr(x) for x in r] for r in rows], detail),
                          dict(rows=gen.jsonable(rows), as_float=as_float, free=gen.jsonable(free or []), what=what))
        if tr[0] != 'ok':
            bad('raises', 'raises %s' % (tr[1:],))
            continue
        if tr[1] != cons:
            bad('truthiness', 'bool(solution) is %s but the system is %s' % (tr[1], 'consistent' if cons else 'inconsistent'))
            continue
        if not cons:
            ctx.stats['agree inconsistent'] += 1
            continue
        if va != n - rank:
            bad('varargs', 'expects %s free parameters; unknowns - rank = %d' % (va, n - rank))
            continue
        if tup[0] != 'ok':
            bad('call-raises', 'calling the solution with %s raises %s' % ([fr(x) for x in free], tup[1:]))
            continue
        t = tup[1]
        if len(t) != n or any(x is None for x in t):
            bad('tuple-shape', 'returns %s' % (t,))
            continue
        if as_float:
            resid = max(abs(sum(float(a) * float(b) for a, b in zip(r[:-1], t)) - float(r[-1])) for r in rows)
            if resid > 1e-9 * max(1.0, max(abs(float(x)) for x in t)):
                bad('not-a-solution', 'returns %s which does not satisfy the system (residual %g)' % (t, resid))
            else:
                ctx.stats['agree (float, residual < 1e-9)'] += 1
        else:
            tx = [F(x) for x in t]
            judge_lines.append('sat %d %d %s %s' % (len(rows), n, ' '.join(fr(x) for r in rows for x in r), ' '.join(fr(x) for x in tx)))
            judge_idx.append((i, key, rows, free, tx, ml))
    jouts = core.model_lines(judge_lines)
    for (i, key, rows, free, tx, ml), jo in zip(judge_idx, jouts):
        if jo != 'true':
            ctx.stats['DISAGREE not-a-solution'] += 1
            ctx.violation(key + '|not-a-solution', 'solve(%s)(%s) returns %s which does not satisfy the system (Lean judge Sat = %s)' % (
                [[fr(x) for x in r] for r in rows], [fr(x) for x in free], [fr(x) for x in tx], jo), dict(rows=gen.jsonable(rows), as_float=False, free=gen.jsonable(free), what='not-a-solution'))
            continue
        # same tuple as the model (the model's call is the proven parametrisation)
        mv = ml.split('vals ')[1].split() if 'vals ' in ml else None
        if mv is not None and [F(x) for x in mv] == tx:
            ctx.stats['agree (exact tuple = model tuple, Sat judged in Lean)'] += 1
        else:
            ctx.stats['satisfies, but tuple differs from the model'] += 1
            ctx.violation(key + '|parametrisation', 'solve(%s)(%s) returns %s; model returns %s (free values must be read back at the non-pivot columns)' % (
                [[fr(x) for x in r] for r in rows], [fr(x) for x in free], [fr(x) for x in tx], ml), dict(rows=gen.jsonable(rows), as_float=False, free=gen.jsonable(free), what='parametrisation'))
    for rows, as_float, tr, va, free, tup in res[-4:]:
        ctx.sample('solve(%s) -> truthy=%s varargs=%s call%s=%s' % ([[fr(x) for x in r] for r in rows], tr[1:], va, [fr(x) for x in (free or [])], tup))


def search(ctx):
    run(ctx, scale=2)


def replay(ctx, case):
    c = case['case']
    rows = [[F(x) for x in r] for r in c['rows']]
    free = [F(x) for x in c['free']]
    from ..impl import G
    from Geometry3D.utils.solver import solve
    import copy
    n = len(rows[0]) - 1
    cons, rank = rank_info(rows, n)
    conv = float if c.get('as_float') else (lambda x: x)
    s = solve([[conv(x) for x in r] for r in rows])
    print('system', c['rows'], 'consistent' if cons else 'inconsistent', 'rank', rank)
    print('implementation: truthy', bool(s), 'varargs', s.varargs)
    ok = bool(s) == cons and (not cons or s.varargs == n - rank)
    if ok and cons:
        try:
            s(*[conv(F(1, 2)) for _ in free[:s.varargs]])      # earlier calls of the same Solution with other / the same values
            s(*[conv(x) for x in free[:s.varargs]])
            t = s(*[conv(x) for x in free[:s.varargs]])
            print('call ->', t)
            ok = None not in t and all(abs(sum(float(a) * float(b) for a, b in zip(r[:-1], t)) - float(r[-1])) < 1e-9 for r in rows)
        except Exception as e:
            print('call raises', e)
            ok = False
    print('AGREE' if ok else 'VIOLATION property=C16')
    return 0 if ok else 1
