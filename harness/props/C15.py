"""C15 correspondence: every invalid-input class of the statement is instantiated over lattice positions, poses and
magnitudes (including near-degenerate-by-tolerance instances, e.g. two points 1e-12 apart); the observable is
"raised an exception" vs "returned a value"."""
import random, itertools
from fractions import Fraction as F
from .. import core, gen, exact as E
from ..gen import Gen, tok, ALL7
from ..exact import add, sub, mul, cross, is0, V

OKEXC = ('NotImplementedError', 'ValueError', 'TypeError')


def classes(impl, G):
    """list of (class name, description, thunk) — each thunk attempts one invalid construction / call"""
    from ..impl import Point, Vector, Line, Plane, Segment, HalfLine, ConvexPolygon, ConvexPolyhedron
    import Geometry3D as g3
    from Geometry3D.calc.aux_calc import get_segment_from_point_list
    R = G.R
    P = lambda p: Point(*[float(c) for c in p])
    Vv = lambda p: Vector(*[float(c) for c in p])
    out = []
    eps = R.choice([0.0, 1e-12, 1e-13, -1e-12, 3e-11])
    p = G.pt(6)
    d = G.dirv(3)
    k = R.choice([F(1), F(1, 4), F(8), F(-3)])
    pe = (float(p[0]) + eps, float(p[1]), float(p[2]) - eps)
    out.append(('zero-length Line', 'Line(p, p+%g)' % eps, lambda: Line(P(p), Point(*pe))))
    out.append(('zero-length Line', 'Line(p, zero vector)', lambda: Line(P(p), Vector(eps, 0.0, 0.0))))
    out.append(('zero-length Segment', 'Segment(p, p+%g)' % eps, lambda: Segment(P(p), Point(*pe))))
    out.append(('zero-length Segment', 'Segment(p, zero vector)', lambda: Segment(P(p), Vector(0.0, eps, 0.0))))
    out.append(('zero-length HalfLine', 'HalfLine(p, p+%g)' % eps, lambda: HalfLine(P(p), Point(*pe))))
    out.append(('zero-length HalfLine', 'HalfLine(p, zero vector)', lambda: HalfLine(P(p), Vector(0.0, 0.0, eps))))
    # polygons
    q = add(p, mul(k, d))
    out.append(('polygon < 3 distinct', '2 points', lambda: ConvexPolygon((P(p), P(q)))))
    out.append(('polygon < 3 distinct', '3 points, one repeated (+%g)' % eps, lambda: ConvexPolygon((P(p), P(q), Point(float(q[0]) + eps, float(q[1]), float(q[2]))))))
    out.append(('polygon < 3 distinct', '4 points, 2 distinct', lambda: ConvexPolygon((P(p), P(q), P(q), P(p)))))
    ts = R.sample([F(-2), F(-1), F(1, 2), F(1), F(2), F(3), F(5)], 3)
    col = [add(p, mul(t, d)) for t in ts]
    out.append(('polygon collinear', '3 collinear points', lambda: ConvexPolygon(tuple(P(x) for x in col))))
    out.append(('polygon collinear', '4 collinear points', lambda: ConvexPolygon(tuple(P(x) for x in col + [p]))))
    cyc = G.polygon(3, 5)
    n = E.polygon_normal(cyc)
    g = max(abs(c) for c in n)
    off = add(R.choice(cyc), mul(R.choice([F(1), F(1, 4), F(1, 100)]) / g, n))
    off = add(off, sub(cyc[1], cyc[0]))
    pts = list(cyc) + [off]
    R.shuffle(pts)
    out.append(('polygon non-coplanar', 'planar %d-gon plus a point off the plane' % len(cyc), lambda: ConvexPolygon(tuple(P(x) for x in pts))))
    # planes
    out.append(('plane zero normal', 'Plane(p, zero vector)', lambda: Plane(P(p), Vector(0.0, 0.0, 0.0))))   # a tiny non-zero normal is normalised to a valid plane: not an invalid object
    out.append(('plane from collinear points', 'Plane(p, q, r) collinear', lambda: Plane(*[P(x) for x in col])))
    out.append(('plane from collinear points', 'Plane(p, v, k v)', lambda: Plane(P(p), Vv(d), Vv(mul(k, d)))))
    out.append(('plane zero normal', 'Plane(0, 0, 0, d)', lambda: Plane(0.0, 0.0, 0.0, float(k))))
    # parallelogram / parallelepiped
    e2 = G.dirv(2)
    out.append(('parallelogram dependent', 'Parallelogram(p, v, k v)', lambda: g3.Parallelogram(P(p), Vv(d), Vv(mul(k, d)))))
    out.append(('parallelogram dependent', 'Parallelogram(p, v, 0)', lambda: g3.Parallelogram(P(p), Vv(d), Vector(0.0, 0.0, 0.0))))
    out.append(('parallelepiped dependent', 'v3 = a v1 + b v2', lambda: g3.Parallelepiped(P(p), Vv(d), Vv(e2), Vv(add(mul(k, d), e2)))))
    out.append(('parallelepiped dependent', 'v2 = k v1', lambda: g3.Parallelepiped(P(p), Vv(d), Vv(mul(k, d)), Vv(e2))))
    # pyramid with apex in the base plane
    c = E.mean(cyc)
    apex = add(c, mul(R.choice([F(2), F(1, 2), F(5)]), sub(cyc[0], c)))
    base = ConvexPolygon(tuple(P(x) for x in cyc))
    out.append(('pyramid apex in base plane', 'apex in the plane of the base', lambda: g3.Pyramid(base, P(apex), direct_call=False)))
    # face sets that are not closed polyhedra
    faces, _ = G.body()
    fl = [ConvexPolygon(tuple(P(x) for x in f)) for f in faces]
    drop = R.randrange(len(fl))
    out.append(('not a closed polyhedron', 'one face removed', lambda: ConvexPolyhedron(tuple(fl[:drop] + fl[drop + 1:]))))
    out.append(('not a closed polyhedron', 'a single face', lambda: ConvexPolyhedron((fl[0],))))
    out.append(('not a closed polyhedron', 'one face repeated', lambda: ConvexPolyhedron(tuple(fl + [fl[drop]]))))
    out.append(('not a closed polyhedron', 'the same polygon twice (flat, V - E + F = 2)', lambda: ConvexPolyhedron((fl[drop], fl[drop]))))
    out.append(('not a closed polyhedron', 'a polygon and its reverse (flat, V - E + F = 2)', lambda: ConvexPolyhedron((fl[drop], -fl[drop]))))
    # degenerate under a NON-default tolerance: two points eps/100 apart while eps is 1e-6 / 1e-5 (restored afterwards)
    big = R.choice([1e-6, 1e-5])
    dl = big / 100

    def under_eps(f):
        def g():
            g3.set_eps(big)
            try:
                return f()
            finally:
                g3.set_eps()
        return g
    pd = (float(p[0]) + dl, float(p[1]) - dl, float(p[2]))
    out.append(('zero-length Line', 'Line(p, p+%g) at eps=%g' % (dl, big), under_eps(lambda: Line(P(p), Point(*pd)))))
    out.append(('zero-length Line', 'Line(p, Vector(0,%g,0)) at eps=%g' % (-dl, big), under_eps(lambda: Line(P(p), Vector(0.0, -dl, 0.0)))))
    out.append(('zero-length Segment', 'Segment(p, p+%g) at eps=%g' % (dl, big), under_eps(lambda: Segment(P(p), Point(*pd)))))
    out.append(('zero-length HalfLine', 'HalfLine(p, p+%g) at eps=%g' % (dl, big), under_eps(lambda: HalfLine(P(p), Point(*pd)))))
    # circle family with n < 3
    nn = R.choice([-1, 0, 1, 2])
    rad = R.choice([0.5, 2.0, 7.0])
    out.append(('circle n < 3', 'Circle n=%d' % nn, lambda: g3.Circle(P(p), Vv(d), rad, nn)))
    out.append(('circle n < 3', 'Cylinder n=%d' % nn, lambda: g3.Cylinder(P(p), rad, Vv(d), nn)))
    out.append(('circle n < 3', 'Cone n=%d' % nn, lambda: g3.Cone(P(p), rad, Vv(d), nn)))
    # collinear-points helper
    out.append(('segment from point list', 'no point', lambda: get_segment_from_point_list([])))
    out.append(('segment from point list', 'one point', lambda: get_segment_from_point_list([P(p)])))
    out.append(('segment from point list', 'all points identical', lambda: get_segment_from_point_list([P(p), P(p), Point(*pe)])))
    nc = [p, q, add(p, cross(d, V(1, 2, 3)) if not is0(cross(d, V(1, 2, 3))) else V(0, 1, 0))]
    out.append(('segment from point list', 'non-collinear points', lambda: get_segment_from_point_list([P(x) for x in nc])))
    # the off-line point anywhere in the list and anywhere ALONG the line (before, between, beyond the collinear ones), with one or
    # two collinear points besides the first two
    off = cross(d, V(1, 2, 3)) if not is0(cross(d, V(1, 2, 3))) else V(0, 1, 0)
    for t_off in (F(1, 2), F(-1), F(5, 2), R.choice([F(1, 4), F(3, 4), F(2)])):
        col = [p, add(p, d), add(p, mul(R.choice([F(3), F(2), F(-2)]), d))][:R.choice([2, 3])]
        bad = add(add(p, mul(t_off, d)), mul(R.choice([F(1), F(1, 4), F(-2)]), off))
        lst = list(col)
        lst.insert(R.randint(0, len(lst)), bad)
        out.append(('segment from point list', 'non-collinear points (off-line point at parameter %s along the line, position %d of %d)' % (t_off, lst.index(bad), len(lst)),
                    lambda lst=lst: get_segment_from_point_list([P(x) for x in lst])))
    # move with a non-Vector
    objs = {}
    fr = G.frame()
    for kx in ALL7:
        if kx in gen.FLATS:
            objs[kx] = impl.build(G.flat(kx, fr, 'free'))
        elif kx == 'G':
            objs[kx] = base
        else:
            objs[kx] = ConvexPolyhedron(tuple(fl))
    bad_arg = R.choice([3, 2.5, None, (1, 2, 3), 'v', P(p), [1, 2, 3]])
    for kx, o in objs.items():
        out.append(('move with non-Vector', '%s.move(%r)' % (kx, bad_arg if not hasattr(bad_arg, 'x') else 'Point'), lambda o=o: o.move(bad_arg)))
    # unsupported operand pairs
    vec = Vv(d)
    foreign = [vec, 3, None if False else 'x', g3.Pyramid(base, P(add(c, mul(F(1) / g, n))), direct_call=False)]
    fo = R.choice(foreign)
    ko = R.choice(ALL7)
    out.append(('unsupported intersection', 'intersection(%s, %s)' % (ko, type(fo).__name__), lambda: impl.intersection(objs[ko], fo)))
    out.append(('unsupported intersection', 'intersection(%s, %s)' % (type(fo).__name__, ko), lambda: impl.intersection(fo, objs[ko])))
    out.append(('unsupported intersection', 'intersection(x, x) with x a %s (the very same object)' % type(fo).__name__, lambda: impl.intersection(fo, fo)))
    out.append(('unsupported distance', 'distance(x, x) with x a %s' % type(fo).__name__, lambda: impl.distance(fo, fo)))
    DOC_D = {('P', 'P'), ('P', 'L'), ('L', 'P'), ('L', 'L'), ('P', 'PL'), ('PL', 'P'), ('L', 'PL'), ('PL', 'L')}
    DOC_A = {('L', 'L'), ('L', 'PL'), ('PL', 'L'), ('PL', 'PL')}
    ka, kb = R.choice(ALL7), R.choice(ALL7)
    if (ka, kb) not in DOC_D:
        out.append(('unsupported distance', 'distance(%s, %s)' % (ka, kb), lambda: impl.distance(objs[ka], objs[kb])))
    if (ka, kb) not in DOC_A:
        out.append(('unsupported angle', 'angle(%s, %s)' % (ka, kb), lambda: impl.angle(objs[ka], objs[kb])))
        out.append(('unsupported parallel', 'parallel(%s, %s)' % (ka, kb), lambda: impl.parallel(objs[ka], objs[kb])))
        out.append(('unsupported orthogonal', 'orthogonal(%s, %s)' % (ka, kb), lambda: impl.orthogonal(objs[ka], objs[kb])))
    # the same unsupported calls with ONE object as both operands (function and method form): no identity shortcut may answer them
    ks = R.choice(['S', 'H', 'G', 'B'])
    xs = objs[ks]
    out.append(('unsupported distance', 'distance(x, x) with x a %s' % ks, lambda: impl.distance(xs, xs)))
    out.append(('unsupported distance', 'x.distance(x) with x a %s' % ks, lambda: xs.distance(xs)))
    for nm in ('angle', 'parallel', 'orthogonal'):
        out.append(('unsupported ' + nm, '%s(x, x) with x a %s' % (nm, ks), lambda nm=nm: getattr(impl, nm)(xs, xs)))
        out.append(('unsupported ' + nm, 'x.%s(x) with x a %s' % (nm, ks), lambda nm=nm: getattr(xs, nm)(xs)))
    out.append(('unsupported angle', 'angle(%s, Vector)' % ka, lambda: impl.angle(objs[ka], vec)))
    out.append(('unsupported distance', 'distance(%s, Vector)' % ka, lambda: impl.distance(objs[ka], vec)))
    kv = R.choice(['P', 'L', 'PL', 'S', 'H', 'G'])
    out.append(('unsupported volume', 'volume(%s)' % kv, lambda: impl.volume(objs[kv])))
    out.append(('unsupported volume', 'volume(%r)' % 3, lambda: impl.volume(3)))
    return out


def work(args):
    seed, n, idx = args
    from .. import impl
    G = Gen(random.Random(seed))
    res = []
    for i in range(n):
        cl = classes(impl, G)      # building the VALID operands of a case; an exception here propagates (core.run: raised inside the implementation -> violation)
        for name, desc, th in cl:
            r = core.guarded(impl.call, th)
            if r[0] == 'ok':
                res.append((name, desc, ('returned', type(r[1]).__name__, repr(r[1])[:80])))
            else:
                res.append((name, desc, ('raised', r[1])))
    return res


def run(ctx, scale=1):
    ctx.extra['rule'] = ('each generated case instantiates ~45 invalid constructions/calls over a random lattice position, pose and magnitude: zero-length Line/Segment/HalfLine (two points 0, 1e-13, 1e-12 or 3e-11 apart, '
                         'zero vector), polygons with < 3 distinct / collinear / non-coplanar vertices, planes with zero normal or from collinear data, dependent parallelogram / parallelepiped vectors, pyramid apex in the base '
                         'plane, face sets that are not closed, Circle/Cylinder/Cone with n < 3, get_segment_from_point_list on 0/1/identical/non-collinear points, move(non-Vector) on all 7 types, unsupported operand '
                         'pairs of intersection/distance/angle/parallel/orthogonal/volume; observable: raised vs returned; every evaluation is non-trivial')
    total = ctx.n(160, 4000) * scale
    res = []
    for part in core.pmap(work, core.chunks(ctx, total, per=10)):
        res.extend(part)
    seen = 0
    for name, desc, r in res:
        key = name + ' | ' + desc
        ctx.evaluations += 1
        ctx.distinct.add(hash((key, seen)))
        seen += 1
        ctx.dist[name + (' -> ' + r[1] if r[0] == 'raised' else ' -> RETURNED')] += 1
        if r[0] == 'raised' and r[1] != 'CaseTimeout':
            ctx.stats['rejected by an exception'] += 1
            if name.startswith('unsupported') or name.startswith('move'):
                if r[1] not in OKEXC:
                    ctx.stats['DISAGREE'] += 1
                    ctx.violation(key, '%s: raises %s, expected NotImplementedError, ValueError or TypeError' % (desc, r[1]), dict(cls=name, desc=desc, got=r))
            continue
        if r[0] == 'harness-exc':
            raise RuntimeError(desc)
        ctx.stats['DISAGREE'] += 1
        ctx.violation(name, '%s (%s): %s instead of raising' % (name, desc, 'returned %s %s' % (r[1], r[2]) if r[0] == 'returned' else r), dict(cls=name, desc=desc, got=r))
    for name, desc, r in res[:6]:
        ctx.sample('%s [%s] -> %s' % (name, desc, r))


def search(ctx):
    run(ctx, scale=2)


def replay(ctx, case):
    c = case['case']
    print('recorded:', c)
    ctx2 = core.Ctx('C15', 'quick', ctx.seed)
    run(ctx2)
    hits = [v for v in ctx2.violations if v['case'].get('cls') == c.get('cls')]
    print('violations of this class now:', len(hits))
    for v in hits[:3]:
        print('  ', v['what'])
    print('AGREE' if not hits else 'VIOLATION property=C15')
    return 1 if hits else 0
