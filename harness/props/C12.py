"""C12 correspondence: algebra of intersection on the implementation — self, subset, vertices-in-both,
associativity with None absorbing — against exact truth (vertex enumeration when a bounded operand is
involved, the proven Lean model otherwise)."""
import random
from fractions import Fraction as F
from .. import core, gen, compare, admit, interlib, exact as E
from ..gen import Gen, tok, ALL7, FLATS
from . import C04, C05

TRIPLES = [(a, b, c) for a in ALL7 for b in ALL7 for c in ALL7]


def make_obj(G, k, fr):
    R = G.R
    if k in FLATS:
        return G.flat(k, fr, R.choices(G.MODES, G.WEIGHTS)[0])
    if k == 'G':
        if R.random() < 0.5:
            pf = dict(o=fr['o'], d=fr['d'], v=G._wred(fr), n=fr['n'])
            try:
                return G.shuffled_polygon(G.polygon(3, 5, pf))
            except RuntimeError:
                pass
        return G.shuffled_polygon(G.polygon(3, 5))
    faces, _ = G.body()
    # move the body so that it contains the frame point (more non-empty triples)
    vs = list(dict.fromkeys(p for f in faces for p in f))
    c = G.comb(vs)
    c = tuple(F(round(x * 2), 2) for x in c)
    t = E.sub(tuple(F(round(x * 2), 2) for x in fr['o']), c)
    faces = [[E.add(p, t) for p in f] for f in faces]
    return G.shuffled_body(faces)


def make_triple(G, i):
    ka, kb, kc = TRIPLES[i % 343]
    fr = G.frame()
    return make_obj(G, ka, fr), make_obj(G, kb, fr), make_obj(G, kc, fr)


def R_choice(G, l):
    return l[G.R.randrange(len(l))]


def big(o):
    pts = [p for p in o[1:] if isinstance(p, tuple)] if o[0] not in 'GB' else (o[1] if o[0] == 'G' else [q for f in o[1] for q in f])
    return max(abs(c) for p in pts for c in p) > 14


def work(args):
    seed, n, idx = args
    from .. import impl
    G = Gen(random.Random(seed))
    out = []
    for i in range(n):
        for _ in range(10):
            A, B, C = make_triple(G, idx * 13 + i)
            if not (big(A) or big(B) or big(C)):
                break
        if (idx * 13 + i) % 7 == 3:
            # a pair from the bounded-exhaustive collinear catalogue (touching / back-to-back / nested 1-D objects) with a
            # third operand through a point of their line
            cat = G.collinear_catalogue()
            A, B, _ = R_choice(G, cat)
            o = A[1]
            C = G.R.choice([('P', o), ('PL', o, G.dirv(2)), ('L', o, G.dirv(2)), ('S', o, E.add(o, G.dirv(2)))])
        rec = dict(A=A, B=B, C=C)
        try:
            a, b = interlib.build_pair(impl, A, B)      # one case in six: an operand arrives by a primed in-place move
            c = impl.build(C)

            def nest_l():
                ab = impl.intersection(a, b)
                return impl.describe(impl.intersection(ab, c))

            def nest_r():
                bc = impl.intersection(b, c)
                return impl.describe(impl.intersection(a, bc))
            rec['l'] = core.guarded(impl.call, nest_l)
            rec['r'] = core.guarded(impl.call, nest_r)
            rec['self'] = core.guarded(impl.call, lambda: (lambda r: (impl.describe(r), r == a))(impl.intersection(a, a)))

            def sub():
                try:
                    inn = a in b
                except Exception:
                    return None
                if inn is not True:
                    return None
                r = impl.intersection(a, b)
                return (impl.describe(r), r == a)
            rec['sub'] = core.guarded(impl.call, sub)

            def verts():
                r = impl.intersection(a, b)
                d = impl.describe(r)
                pts = []
                if d[0] == 'P':
                    pts = [r]
                elif d[0] == 'S':
                    pts = [r.start_point, r.end_point]
                elif d[0] == 'G':
                    pts = list(r.points)
                elif d[0] == 'B':
                    pts = list(r.point_set)
                elif d[0] == 'H':
                    pts = [r.point]
                return [((impl.pex(p)), (p in a) if A[0] != 'P' else (p == a), (p in b) if B[0] != 'P' else (p == b)) for p in pts]
            rec['verts'] = core.guarded(impl.call, verts)
        except Exception as e:
            rec['exc'] = '%s: %s' % (type(e).__name__, str(e)[:100])
        out.append(rec)
    return out


def triple_truth(A, B, C, mline):
    if any(E.bounded(o) for o in (A, B, C)):
        return E.canon_from_vertices(E.enum_vertices(E.hrep(A) + E.hrep(B) + E.hrep(C)))
    return compare.parse_model(mline.split(' | ')[0])


def run(ctx, scale=1):
    ctx.extra['rule'] = ('all 343 ordered type triples cycled; the three operands are placed relative to one lattice frame (flats in the 5 modes of C01, polygons often in the frame plane, '
                         'polyhedra translated to contain the frame point) so that the triple intersection is frequently non-empty and intermediate results are non-lattice rationals; per triple: '
                         'both nestings, intersection(a,a)==a, a in b => intersection(a,b)==a, vertices of intersection(a,b) in both; non-trivial = non-empty triple intersection')
    ctx.extra['unproved'] = ['triples containing a direct polyhedron × polyhedron call need kernel K4 (decided per run against exact vertex enumeration); all other triples are proved']
    total = ctx.n(1715, 60000) * scale
    recs = []
    for part in core.pmap(work, core.chunks(ctx, total, per=49)):
        recs.extend(part)
    outs = core.model_lines(['inter3 %s %s %s' % (tok(r['A']), tok(r['B']), tok(r['C'])) for r in recs])
    for r, ml in zip(recs, outs):
        A, B, C = r['A'], r['B'], r['C']
        key = ' | '.join(tok(o) for o in (A, B, C))
        truth = triple_truth(A, B, C, ml)
        if truth[0] == 'err':
            if not ctx.broken:
                raise RuntimeError('model error on %s: %s' % (key, ml))
            continue
        ctx.count(key, nontrivial=(truth[0] != 'none'))
        ctx.dist['%s-%s-%s' % (A[0], B[0], C[0])] += 1
        ctx.dist['triple result ' + truth[0]] += 1
        problems = []
        if 'exc' in r:
            problems.append('harness: ' + r['exc'])
        else:
            for side, name in (('l', 'intersection(intersection(a,b),c)'), ('r', 'intersection(a,intersection(b,c))')):
                o = r[side]
                if o[0] != 'ok':
                    problems.append('%s raises %s' % (name, o[1:]))
                elif not compare.same_den(o[1], truth):
                    problems.append('%s %s; exact a∩b∩c is %s' % (name, interlib.describe_obs(o), interlib.show_exact(truth)))
            o = r['self']
            if o[0] != 'ok':
                problems.append('intersection(a,a) raises %s' % (o[1:],))
            else:
                d, eq = o[1]
                selfden = ('G', E.vertices_of(A)) if A[0] == 'G' else (('B', E.vertices_of(A)) if A[0] == 'B' else A)
                if not compare.same_den(d, selfden):
                    problems.append('intersection(a,a) does not denote a: %s' % interlib.describe_obs(('ok', d)))
                elif eq is not True:
                    problems.append('intersection(a,a) == a is %r' % (eq,))
            o = r['sub']
            if o[0] != 'ok':
                problems.append('a in b / intersection(a,b) raises %s' % (o[1:],))
            elif o[1] is not None:
                d, eq = o[1]
                ctx.stats['subset cases (a in b)'] += 1
                if eq is not True:
                    problems.append('a in b but intersection(a,b) == a is %r (%s)' % (eq, interlib.describe_obs(('ok', d))))
            o = r['verts']
            if o[0] != 'ok':
                problems.append('vertex membership raises %s' % (o[1:],))
            else:
                for p, ina, inb in o[1]:
                    if ina is not True or inb is not True:
                        problems.append('vertex (%s) of intersection(a,b): in a = %s, in b = %s' % (', '.join('%.9g' % float(c) for c in p), ina, inb))
                        break
        if not problems:
            ctx.stats['agree'] += 1
            continue
        extra = compare.verts(truth) if truth[0] in 'GB' else [q for q in truth[1:] if isinstance(q, tuple)]
        ok, why = admit.admitted([A, B, C], extra_points=extra)
        if not ok:
            ctx.stats['rejected-by-admission: ' + why] += 1
            continue
        ctx.stats['DISAGREE'] += 1
        ctx.violation(key, 'a = %s, b = %s, c = %s: %s' % (tok(A)[:200], tok(B)[:200], tok(C)[:200], '; '.join(problems[:3])),
                      dict(a=gen.jsonable(A), b=gen.jsonable(B), c=gen.jsonable(C)))
    for r in recs[:4]:
        ctx.sample('a=%s b=%s c=%s -> left %s | right %s' % (tok(r['A'])[:80], tok(r['B'])[:80], tok(r['C'])[:80], str(r.get('l'))[:80], str(r.get('r'))[:80]))


def search(ctx):
    run(ctx, scale=2)


def replay(ctx, case):
    from .. import impl
    c = case['case']
    A, B, C = (gen.from_jsonable(c[k]) for k in 'abc')
    a, b = interlib.build_pair(impl, A, B)
    cc = impl.build(C)
    ml = core.model_lines(['inter3 %s %s %s' % (tok(A), tok(B), tok(C))])[0]
    truth = triple_truth(A, B, C, ml)
    l = impl.call(lambda: impl.describe(impl.intersection(impl.intersection(a, b), cc)))
    r = impl.call(lambda: impl.describe(impl.intersection(a, impl.intersection(b, cc))))
    s = impl.call(lambda: impl.intersection(a, a) == a)
    print('a =', tok(A), '\nb =', tok(B), '\nc =', tok(C))
    print('left nesting :', interlib.describe_obs(l) if l[0] == 'ok' else l)
    print('right nesting:', interlib.describe_obs(r) if r[0] == 'ok' else r)
    print('exact a∩b∩c  :', interlib.show_exact(truth), '; intersection(a,a)==a:', s)
    ok = l[0] == 'ok' and r[0] == 'ok' and compare.same_den(l[1], truth) and compare.same_den(r[1], truth) and s == ('ok', True)
    print('AGREE' if ok else 'VIOLATION property=C12')
    return 0 if ok else 1
