"""C06 correspondence: length / area / volume of the implementation (floats) vs exact rational measures
(shoelace / determinant formulas) and vs the Lean model's rational numerators."""
import random, math, copy, itertools
from fractions import Fraction as F
from .. import core, gen, admit, exact as E
from ..gen import Gen, tok


def permuted_polygon(G, cyc, i):
    R = G.R
    pts = list(cyc)
    if len(pts) <= 5 and i % 3 == 0:
        perms = list(itertools.permutations(pts))
        pts = list(perms[(i // 3) % len(perms)])
    else:
        R.shuffle(pts)
    if R.random() < 0.3:
        pts.insert(R.randrange(len(pts) + 1), R.choice(pts))
    return ('G', pts)


def measure_polygon(impl, Pyramid, G, cyc, D):
    R = G.R
    rev = R.random() < 0.3      # the public reverse=True form of the constructor: same point set, opposite normal, same measures
    o = impl.ConvexPolygon(tuple(impl.Pt(p) for p in D[1]), reverse=True) if rev else impl.build(D)
    if R.random() < 0.25:      # measures of an object that was moved in place (cached centre / plane must follow)
        mv = tuple(F(R.randint(-9, 9)) for _ in range(3))
        o.move(impl.Vc(mv))
        cyc = [E.add(p, mv) for p in cyc]
        D = ('G', [E.add(p, mv) for p in D[1]])
    apex = G.pt(3)
    obs = dict(length=impl.call(o.length), area=impl.call(o.area), rev=rev)
    n_ = E.polygon_normal(cyc)
    if E.dot(n_, E.sub(apex, cyc[0])) != 0:
        py = Pyramid(o, impl.Pt(apex), direct_call=False)
        obs.update(pheight=impl.call(py.height), pvolume=impl.call(py.volume), pvolume_fn=impl.call(impl.volume, py))
    else:
        apex = None
    s0 = list(o.segments())[0]
    obs['seglen'] = impl.call(s0.length)
    obs['seg'] = impl.describe(s0)
    return (D, apex, obs)


def measure_body(impl, G, D, sib):
    R = G.R
    if sib:
        # the body shares its INPUT faces with a sibling built from the very same polygon objects, and a copy of it is moved twice
        # (the first move returns an object q): the sibling and the copy are then moved far away -- the body and q own their data
        faces = tuple(impl.ConvexPolygon(tuple(impl.Pt(p) for p in f)) for f in D[1])
        o = impl.ConvexPolyhedron(faces)
        sibling = impl.ConvexPolyhedron(faces)
        sibling.move(impl.Vc((F(7), F(-5), F(9))))
        for f in faces:
            f.move(impl.Vc((F(-6), F(8), F(5))))
        c_ = copy.deepcopy(o)
        q = c_.move(impl.Vc((F(1), F(2), F(-1))))
        c_.move(impl.Vc((F(9), F(-7), F(6))))
        obs = dict(length=impl.call(o.length), area=impl.call(o.area), volume=impl.call(o.volume), volume_fn=impl.call(impl.volume, o),
                   volume_ret=impl.call(q.volume), area_ret=impl.call(q.area), sibling=True)
        return (D, None, obs)
    o = impl.build(D)
    if R.random() < 0.25:
        mv = tuple(F(R.randint(-9, 9)) for _ in range(3))
        o.move(impl.Vc(mv))
        D = ('B', [[E.add(p, mv) for p in f] for f in D[1]])
    obs = dict(length=impl.call(o.length), area=impl.call(o.area), volume=impl.call(o.volume), volume_fn=impl.call(impl.volume, o))
    return (D, None, obs)


def work(args):
    seed, n, idx = args
    from .. import impl
    from Geometry3D import Pyramid
    G = Gen(random.Random(seed))
    R = G.R
    out = []
    for i in range(n):
        j = idx * 7 + i
        if j % 3 == 0:
            cyc = G.polygon(3, 8)
            D = permuted_polygon(G, cyc, j // 3)
            try:
                out.append(measure_polygon(impl, Pyramid, G, cyc, D))
            except Exception as e:      # the implementation raised on a valid shape: an observation, not a harness error
                out.append((D, None, dict(raised=(type(e).__name__, str(e)[:120]))))
            continue
        else:
            faces, bk = G.body() if j % 3 == 1 else (G.hull_body(4, 10), 'hull')
            if bk != 'twin-cube' and R.random() < 0.6:        # away from the origin (origin outside the body): nothing may depend on where the origin is
                t = tuple(F(R.choice([-6, -5, 4, 5, 6])) if R.random() < 0.7 else F(0) for _ in range(3))
                faces = [[E.add(p, t) for p in f] for f in faces]
            D = G.shuffled_body(faces)       # shuffles vertex order of each face (random orientation) and the face order
            sib = R.random() < 0.3
            try:
                out.append(measure_body(impl, G, D, sib))
            except Exception as e:
                out.append((D, None, dict(raised=(type(e).__name__, str(e)[:120]), sibling=sib)))
    return out


def rel_ok(val, ref, tol=1e-9):
    return isinstance(val, float) and abs(val - ref) <= tol * max(abs(ref), 1e-300)


def run(ctx, scale=1):
    ctx.extra['rule'] = ('convex lattice polygons with 3-8 vertices (all permutations for <= 5 vertices in rotation, random shuffles otherwise, 30% with a repeated vertex) and '
                         'closed convex polyhedra with 4-10 vertices (hulls and affine images of box/prism/pyramid/octahedron/tetrahedron; face order and every face vertex order shuffled, '
                         'i.e. random input orientation); Pyramid over a polygon with a random apex; non-trivial = every case (all are distinct shapes/orders)')
    total = ctx.n(1500, 40000) * scale
    cases = []
    for part in core.pmap(work, core.chunks(ctx, total, per=60)):
        cases.extend(part)
    outs = core.model_lines(['measure %s' % tok(D) for D, _, _ in cases])
    for (D, apex, obs), ml in zip(cases, outs):
        key = tok(D) + ('|' + gen.tv(apex) if apex else '')
        ctx.count(key)
        t = ml.split()
        problems = []
        if 'raised' in obs:
            ok, why = admit.admitted([D], derive=False)
            if not ok:
                ctx.stats['rejected-by-admission: ' + why] += 1
                continue
            ctx.stats['DISAGREE'] += 1
            ctx.violation(key, '%s: constructing / measuring this valid shape raises %s' % (tok(D)[:300], obs['raised']), dict(d=gen.jsonable(D), apex=None, rev=False, sibling=bool(obs.get('sibling'))))
            continue
        if D[0] == 'G':
            lens, a4 = E.measures(D)
            ref_len = sum(math.sqrt(float(x)) for x in lens)
            ref_area = math.sqrt(float(a4)) / 2
            if t[0] != 'polygon':
                raise RuntimeError('model: %s -> %s' % (key, ml))
            nn, anum = F(t[2]), F(t[4])
            m_edges = sorted(F(x) for x in t[6:])
            if anum * anum != a4 * nn or m_edges != sorted(lens):
                raise RuntimeError('model measures differ from the exact ones: %s -> %s' % (key, ml))
            ctx.dist['polygon %d vertices' % len(lens)] += 1
            refs = dict(length=ref_len, area=ref_area)
            if apex:
                cyc = E.vertices_of(D)
                n_ = E.polygon_normal(cyc)
                h = abs(float(E.dot(n_, E.sub(apex, cyc[0])))) / math.sqrt(float(E.nsq(n_)))
                refs.update(pheight=h, pvolume=h * ref_area / 3, pvolume_fn=h * ref_area / 3)
            sd = obs['seg']
            refs['seglen'] = math.sqrt(float(E.nsq(E.sub(sd[2], sd[1]))))
        else:
            lens, areas, vol = E.measures(D)
            if t[0] != 'polyhedron':
                raise RuntimeError('model: %s -> %s' % (key, ml))
            if F(t[2]) != vol:
                raise RuntimeError('model volume %s differs from the exact hull volume %s: %s' % (t[2], vol, key))
            ctx.dist['polyhedron %d vertices %d faces' % (len(E.vertices_of(D)), len(D[1]))] += 1
            refs = dict(length=sum(math.sqrt(float(x)) for x in lens), area=sum(math.sqrt(float(a)) / 2 for a in areas), volume=float(vol), volume_fn=float(vol))
            refs.update(volume_ret=float(vol), area_ret=refs['area'])      # the object returned by move() of a copy, after the copy moved on
        if obs.get('rev'):
            ctx.dist['polygon built with reverse=True'] += 1
        for k, ref in refs.items():
            r = obs.get(k)
            if r is None or k in ('rev', 'sibling'):
                continue
            if r[0] != 'ok':
                problems.append('%s raises %s' % (k, r[1:]))
            elif not rel_ok(r[1], ref):
                problems.append('%s = %r, exact value %.15g' % (k, r[1], ref))
        if not problems:
            ctx.stats['agree'] += 1
            continue
        ok, why = admit.admitted([D], derive=False)
        if not ok:
            ctx.stats['rejected-by-admission: ' + why] += 1
            continue
        ctx.stats['DISAGREE'] += 1
        ctx.violation(key, '%s: %s' % (tok(D)[:300], '; '.join(problems[:4])), dict(d=gen.jsonable(D), apex=gen.jsonable(apex) if apex else None, rev=bool(obs.get('rev')), sibling=bool(obs.get('sibling'))))
    for D, apex, obs in cases[:3]:
        ctx.sample('%s -> %s' % (tok(D)[:160], {k: v[1:] for k, v in obs.items() if k not in ('seg', 'rev', 'sibling', 'raised')}))


def search(ctx):
    run(ctx, scale=2)


def replay(ctx, case):
    from .. import impl
    D = gen.from_jsonable(case['case']['d'])
    ok = True
    if case['case'].get('sibling') and D[0] == 'B':
        # the scenario of measure_body: siblings built from the same face objects, a copy moved twice
        try:
            faces = tuple(impl.ConvexPolygon(tuple(impl.Pt(p) for p in f)) for f in D[1])
            o = impl.ConvexPolyhedron(faces)
            sib = impl.ConvexPolyhedron(faces)
            sib.move(impl.Vc((F(7), F(-5), F(9))))
            for f in faces:
                f.move(impl.Vc((F(-6), F(8), F(5))))
            c_ = copy.deepcopy(o)
            q = c_.move(impl.Vc((F(1), F(2), F(-1))))
            c_.move(impl.Vc((F(9), F(-7), F(6))))
            vol = float(E.measures(D)[2])
            rq = impl.call(q.volume)
            print('volume of the object returned by move(), after the receiver moved on:', rq, 'exact', vol)
            ok = rq[0] == 'ok' and rel_ok(rq[1], vol)
        except Exception as e:
            print('raises', type(e).__name__, e)
            print('VIOLATION property=C06')
            return 1
    else:
        o = impl.ConvexPolygon(tuple(impl.Pt(p) for p in D[1]), reverse=True) if case['case'].get('rev') else impl.build(D)
    if D[0] == 'G':
        lens, a4 = E.measures(D)
        refs = dict(length=sum(math.sqrt(float(x)) for x in lens), area=math.sqrt(float(a4)) / 2)
    else:
        lens, areas, vol = E.measures(D)
        refs = dict(length=sum(math.sqrt(float(x)) for x in lens), area=sum(math.sqrt(float(a)) / 2 for a in areas), volume=float(vol))
    for k, ref in refs.items():
        r = impl.call(getattr(o, k))
        print(k, r, 'exact', ref)
        ok = ok and r[0] == 'ok' and rel_ok(r[1], ref)
    if D[0] == 'B':
        r = impl.call(impl.volume, o)
        print('volume()', r)
        ok = ok and r[0] == 'ok' and rel_ok(r[1], refs['volume'])
    print('AGREE' if ok else 'VIOLATION property=C06')
    return 0 if ok else 1
