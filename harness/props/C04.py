"""C04 correspondence: totality, symmetry, method form, documented result types and None absorption of
`intersection` over all 49 ordered operand type pairs."""
import random, importlib.util, os
from .. import core, gen, compare, admit, interlib, exact as E
from ..gen import Gen, tok, ALL7, FLATS
from . import C03

NAMES = {'P': 'Point', 'L': 'Line', 'PL': 'Plane', 'S': 'Segment', 'H': 'HalfLine', 'G': 'ConvexPolygon', 'B': 'ConvexPolyhedron', 'none': 'None'}
PAIRS = [(a, b) for a in ALL7 for b in ALL7]


def doc_table():
    spec = importlib.util.spec_from_file_location('extract_doc', os.path.join(core.VERIF, 'tools', 'extract_doc.py'))
    import sys
    old = sys.argv
    sys.argv = ['extract_doc.py', core.REPO]
    try:
        m = importlib.util.module_from_spec(spec)
        spec.loader.exec_module(m)
        rows = m.rows(core.REPO)
    finally:
        sys.argv = old
    t = {}
    for a, b, tys in rows:
        t[frozenset((a, b))] = set(tys)
    return t


FLAT_PAIRS = [(a, b) for a in FLATS for b in FLATS]
SCHEDULE = PAIRS + FLAT_PAIRS * 3          # flat pairs are cheap and degenerate-rich: four times as many


def make_case(G, i):
    ka, kb = SCHEDULE[i % len(SCHEDULE)]
    R = G.R
    if ka in FLATS and kb in FLATS:
        A, B, cls = G.flat_pair(ka, kb)
        return A, B, cls
    if ka in FLATS or kb in FLATS:
        fk, bk = (ka, kb) if ka in FLATS else (kb, ka)
        if bk == 'B':
            faces, _ = G.body()
            K0, K = ('B', faces), G.shuffled_body(faces)
        else:
            cyc = G.polygon(3, 6)
            K0, K = ('G', cyc), G.shuffled_polygon(cyc)
        f, cls = G.flat_vs_body(fk, K0)
        return (f, K, cls) if ka in FLATS else (K, f, cls)
    if (ka, kb) == ('G', 'G') and R.random() < 0.4:
        # coplanar polygon pairs (incl. an edge of one through a vertex of the other): the richest cell for the argument-order clause
        A, B, cls = C03.make_case(G, C03.TEMPLATES.index('coplanar') + len(C03.TEMPLATES) * 4 * R.randrange(1000))
        if C03.ok_size(A) and C03.ok_size(B):
            return A, B, cls
    if (ka, kb) == ('B', 'B') and R.random() < 0.4:
        # a body inside another one, touching it in a point or two only / two bodies on a shared face plane
        tp = R.choice(['nested-touching', 'shared-face-plane'])
        A, B, cls = C03.make_case(G, C03.TEMPLATES.index(tp) + len(C03.TEMPLATES) * (4 * R.randrange(1000) + 3))
        if (A[0], B[0]) == ('B', 'B') and C03.ok_size(A) and C03.ok_size(B):
            return A, B, cls
    for _ in range(50):
        A, B, cls = C03.make_case(G, R.randrange(10 ** 6))
        if (A[0], B[0]) == (ka, kb) and C03.ok_size(A) and C03.ok_size(B):
            return A, B, cls
    A = ('G', G.polygon(3, 5)) if ka == 'G' else ('B', G.body()[0])
    B = ('G', G.polygon(3, 5)) if kb == 'G' else ('B', G.body()[0])
    return A, B, 'random'


def strictly_nested(G, j):
    """(outer, inner) for even j, (inner, outer) for odd j: the inner body is the outer one shrunk towards its vertex mean"""
    F = E.F
    for _ in range(50):
        faces, _ = G.body()
        vs = E.vertices_of(('B', faces))
        c = E.mean(vs)
        k = G.R.choice([F(1, 2), F(1, 4), F(3, 4)])
        inner = [[tuple(ci + k * (pi - ci) for pi, ci in zip(p, c)) for p in f] for f in faces]
        A, B = G.shuffled_body(faces), G.shuffled_body(inner)
        if C03.ok_size(A) and admit.admitted([A, B])[0]:
            return (A, B, 'nested-strict') if j % 2 == 0 else (B, A, 'nested-strict')
    raise RuntimeError('no admissible nested pair')


def work(args):
    seed, n, idx = args
    from .. import impl
    G = Gen(random.Random(seed))
    out = []
    for i in range(n):
        A, B, cls = make_case(G, idx * 62 + i)
        o1 = interlib.observe(impl, A, B)
        o2 = interlib.observe(impl, B, A)
        o3 = interlib.observe(impl, A, B, method=True) if A[0] != 'P' else None
        out.append((A, B, cls, o1, o2, o3))
    return out


def none_cases(impl):
    """None in either position, for each of the seven types"""
    G = Gen(random.Random(7))
    res = []
    for k in ALL7:
        A, _, _ = make_case(G, ALL7.index(k) * 7 + 0)
        a = impl.build(A)
        for form, f in (('intersection(x, None)', lambda: impl.intersection(a, None)), ('intersection(None, x)', lambda: impl.intersection(None, a)),
                        ('intersection(None, None)', lambda: impl.intersection(None, None))):
            r = impl.call(f)
            res.append((k, form, r))
        if k != 'P':
            res.append((k, 'x.intersection(None)', impl.call(lambda: a.intersection(None))))
    return res


def run(ctx, scale=1):
    from .. import impl
    ctx.extra['rule'] = ('all 49 ordered type pairs cycled (positions as in C01/C02/C03), each evaluated as intersection(a,b), intersection(b,a) and '
                         'a.intersection(b); plus None in either slot for every type; non-trivial = non-empty exact intersection')
    doc = doc_table()
    total = ctx.n(2480, 62000) * scale
    cases = []
    for part in core.pmap(work, core.chunks(ctx, total, per=62)):
        cases.extend(part)
    Gc = Gen(random.Random(ctx.seed + 17))
    for _ in range(ctx.n(2, 6)):
        for A, B, cls in Gc.collinear_catalogue():
            cases.append((A, B, cls, interlib.observe(impl, A, B), interlib.observe(impl, B, A),
                          interlib.observe(impl, A, B, method=True) if A[0] != 'P' else None))
    # a fixed share of strictly nested bodies (no face of the outer body meets the inner one), outer operand first and second:
    # the only position in which the second pass of the body x body handler alone produces the answer
    for j in range(ctx.n(8, 60) * scale):
        A, B, cls = strictly_nested(Gc, j)
        cases.append((A, B, cls, interlib.observe(impl, A, B), interlib.observe(impl, B, A), interlib.observe(impl, A, B, method=True)))
    outs = core.model_lines(['inter %s %s' % (tok(A), tok(B)) for A, B, *_ in cases])
    for (A, B, cls, o1, o2, o3), ml in zip(cases, outs):
        ctx.dist['pair %s-%s' % (A[0], B[0])] += 1
        ctx.dist['position ' + cls] += 1 if cls == 'nested-strict' else 0
        ok = interlib.judge(ctx, 'C04', A, B, cls, o1, ml)
        # swapped order and method form must denote the same set as the exact result
        m = compare.parse_model(ml)
        orc = interlib.bounded_oracle(A, B)
        truth = orc if orc is not None else m
        for form, o in ((' [swapped operands]', o2), (' [method form]', o3)):
            if o is None:
                continue
            if o[0] == 'ok' and compare.same_den(o[1], truth):
                ctx.stats['agree' + form] += 1
                continue
            adm, why = admit.admitted([A, B])
            if not adm:
                ctx.stats['rejected-by-admission'] += 1
                continue
            ctx.stats['DISAGREE' + form] += 1
            a_, b_ = (B, A) if 'swapped' in form else (A, B)
            ctx.violation(tok(A) + '|' + tok(B) + form, 'intersection%s of (%s, %s): %s; exact intersection is %s' % (form, tok(A), tok(B), interlib.describe_obs(o), interlib.show_exact(truth)),
                          dict(a=gen.jsonable(a_), b=gen.jsonable(b_), form=form if 'method' in form else '', impl=gen.jsonable(o)))
        # documented result type
        if o1[0] == 'ok':
            rt = NAMES.get(o1[1][0], o1[1][0])
            allowed = doc.get(frozenset((NAMES[A[0]], NAMES[B[0]])))
            if allowed is None or rt not in allowed:
                ctx.stats['UNDOCUMENTED result type'] += 1
                ctx.violation(tok(A) + '|' + tok(B) + ' [type]', 'intersection(%s, %s) returns a %s; documented for this pair: %s' % (tok(A), tok(B), rt, sorted(allowed or [])),
                              dict(a=gen.jsonable(A), b=gen.jsonable(B), impl=gen.jsonable(o1)))
            else:
                ctx.stats['documented result type'] += 1
    for k, form, r in none_cases(impl):
        ctx.count(('none', k, form))
        if r == ('ok', None):
            ctx.stats['None absorbs'] += 1
        else:
            ctx.violation('none|%s|%s' % (k, form), '%s with x a %s: %s (expected None)' % (form, NAMES[k], r), dict(kind=k, form=form, got=str(r)))
    for A, B, cls, o1, o2, o3 in cases[:4]:
        ctx.sample('intersection(%s, %s) -> %s | swapped -> %s | method -> %s' % (tok(A)[:100], tok(B)[:100], interlib.describe_obs(o1)[:80], interlib.describe_obs(o2)[:80],
                                                                               interlib.describe_obs(o3)[:80] if o3 else 'n/a'))
    interlib.finish_model_check(ctx)


def search(ctx):
    run(ctx, scale=2)


def replay(ctx, case):
    c = case['case']
    if 'kind' in c:
        from .. import impl
        print('None case', c)
        rs = [r for k, form, r in none_cases(impl) if k == c['kind'] and form == c['form']]
        ok = rs and rs[0] == ('ok', None)
        print('AGREE' if ok else 'VIOLATION property=C04')
        return 0 if ok else 1
    return interlib.replay_pair(ctx, 'C04', case)
