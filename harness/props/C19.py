"""C19 correspondence: (1) histories of set_eps / set_sig_figures calls against the Lean state machine;
(2) under each configured eps, catalogue objects of all types (coordinates multiples of 1/8, axis and Pythagorean
frames) perturbed by eps/1000 and eps/100 per defining coordinate must compare equal, hash equal, contain each other's
points and intersect as coincident; Points/Vectors differing by 4·eps must compare unequal; (3) restoring eps restores
the behaviour.  The configuration is process-global, so every worker resets it in a finally block."""
import random, itertools, math
from fractions import Fraction as F
from decimal import Decimal, getcontext
from .. import core, gen
from ..gen import fr

FRAMES = [((1, 0, 0), (0, 1, 0), (0, 0, 1), 1), ((0, 1, 0), (0, 0, 1), (1, 0, 0), 1), ((1, 2, 2), (2, 1, -2), (2, -2, 1), 3),
          ((2, 3, 6), (3, -6, 2), (6, 2, -3), 7), ((2, 1, -2), (1, 2, 2), (-2, 2, -1), 3)]
KINDS = ['P', 'V', 'L', 'PL', 'S', 'H', 'G', 'B']
EPSS = [(12, F(1, 10 ** 12)), (11, F(1, 10 ** 11)), (10, F(1, 10 ** 10)), (9, F(1, 10 ** 9)), (8, F(1, 10 ** 8)), (7, F(1, 10 ** 7)), (6, F(1, 10 ** 6)), (5, F(1, 10 ** 5))]


def lin(o, frm, a, b, c):
    u, v, w, s = frm
    return tuple(o[i] + a * u[i] + b * v[i] + c * w[i] for i in range(3))


def defining(kind, o, frm):
    """list of (role, exact triple) of the defining data"""
    u, v, w, s = frm
    if kind == 'P':
        return [('p', o)]
    if kind == 'V':
        return [('v', u)]
    if kind == 'L':
        return [('p', o), ('v', u)]
    if kind == 'PL':
        return [('p', o), ('v', w)]
    if kind == 'S':
        return [('p', o), ('p', lin(o, frm, 1, 0, 0))]
    if kind == 'H':
        return [('p', o), ('v', u)]
    if kind == 'G':
        return [('p', lin(o, frm, a, b, 0)) for a, b in ((0, 0), (1, 0), (1, 1), (0, 1))]
    return [('p', lin(o, frm, a, b, c)) for a in (0, 1) for b in (0, 1) for c in (0, 1)]


def build(impl, kind, data):
    from ..impl import Point, Vector, Line, Plane, Segment, HalfLine, ConvexPolygon, ConvexPolyhedron
    mk = [(Point(*d) if r == 'p' else Vector(*d)) for r, d in data]
    if kind in ('P', 'V'):
        return mk[0]
    if kind == 'L':
        return Line(mk[0], mk[1])
    if kind == 'PL':
        return Plane(mk[0], mk[1])
    if kind == 'S':
        return Segment(mk[0], mk[1])
    if kind == 'H':
        return HalfLine(mk[0], mk[1])
    if kind == 'G':
        return ConvexPolygon(tuple(mk))
    keys = list(itertools.product((0, 1), repeat=3))
    idx = {k: i for i, k in enumerate(keys)}
    faces = []
    for ax in range(3):
        for val in (0, 1):
            f = [k for k in keys if k[ax] == val]
            f = [f[0], f[1], f[3], f[2]]
            faces.append(ConvexPolygon(tuple(Point(*data[idx[k]][1]) for k in f)))
    return ConvexPolyhedron(tuple(faces))


def boundary_ok(x, sig, margin=F(7, 100)):
    """x (exact) at least `margin` of a rounding step away from every rounding boundary of round(x, sig)"""
    y = F(x) * 10 ** sig
    frac = y - (y.numerator // y.denominator)
    return abs(frac - F(1, 2)) >= margin


def hashed_quantities(kind, o, frm):
    """exact values of the quantities the library rounds when hashing the catalogue object (short rationals)"""
    u, v, w, s = frm
    unit = lambda d: tuple(F(c, s) for c in d)
    qs = []
    pts = [d for r, d in defining(kind, o, frm) if r == 'p']
    for p in pts:
        qs += list(p)
    if kind == 'V':
        qs += list(u)
    if kind in ('L', 'H'):
        d = unit(u)
        qs += list(d)
        if kind == 'L':
            t = sum(F(a) * b for a, b in zip(o, d))
            qs += [F(o[i]) - t * d[i] for i in range(3)]
    if kind in ('PL', 'G', 'B'):
        normals = [w] if kind != 'B' else [u, v, w]
        for nrm in normals:
            n = unit(nrm)
            qs += list(n)
            for p in pts:
                qs.append(sum(F(a) * b for a, b in zip(p, n)))
    return qs


def work(args):
    seed, n, idx = args
    from .. import impl
    import Geometry3D as g3
    R = random.Random(seed)
    out = []
    try:
        for i in range(n):
            j = idx * 7 + i
            if j % 4 == 0:
                # ---- configuration history
                ops, toks = [], []
                for _ in range(R.randint(1, 8)):
                    c = R.random()
                    if c < 0.4:
                        sig, e = R.choice(EPSS)
                        m = R.choice([1, 1, 1, 3, 5, 2])
                        ee = e * m
                        ops.append(('e', ee))
                        toks.append('e ' + fr(ee))
                    elif c < 0.8:
                        k = R.randint(5, 12)
                        ops.append(('s', k))
                        toks.append('s %d' % k)
                    elif c < 0.9:
                        ops.append(('E',))
                        toks.append('E')
                    else:
                        ops.append(('S',))
                        toks.append('S')
                obs = []
                g3.set_eps()
                for op in ops:
                    if op[0] == 'e':
                        g3.set_eps(float(op[1]))
                    elif op[0] == 's':
                        g3.set_sig_figures(op[1])
                    elif op[0] == 'E':
                        g3.set_eps()
                    else:
                        g3.set_sig_figures()
                    obs.append((g3.get_eps(), g3.get_sig_figures()))
                g3.set_eps()
                out.append(dict(kind='cfg', toks=toks, obs=obs, after_reset=(g3.get_eps(), g3.get_sig_figures())))
                continue
            # ---- tolerance behaviour of one catalogue object under one configuration
            sig, e = EPSS[(j // 4) % len(EPSS)]
            kind = KINDS[(j // 32) % 8] if R.random() < 0.5 else R.choice(KINDS)
            frm = R.choice(FRAMES)
            for _ in range(50):
                # Points / Vectors over the whole lattice |x| <= 8 (a tolerance that scaled with the coordinate would show there)
                o = tuple(F(R.randint(-64, 64), 8) for _ in range(3)) if kind in ('P', 'V') else tuple(F(R.randint(-24, 24), 8) for _ in range(3))
                if all(boundary_ok(q, sig) for q in hashed_quantities(kind, o, frm)):
                    break
            else:
                continue
            via = R.choice(['eps', 'sig'])
            prev = (g3.get_eps(), g3.get_sig_figures())
            if via == 'eps':
                g3.set_eps(float(e))
            else:
                g3.set_sig_figures(sig)
            ef = float(e)
            data = defining(kind, o, frm)
            base = [(r, tuple(float(c) for c in d)) for r, d in data]
            a = build(impl, kind, base)
            rec = dict(kind=kind, sig=sig, via=via, o=o, frame=frm[3], frm=frm[:3], problems=[], cfg=(g3.get_eps(), g3.get_sig_figures()))
            for scale, label in ((1e-3, 'eps/1000'), (1e-2, 'eps/100')):
                pert = [(r, tuple(c + R.choice([-1, 0, 1]) * ef * scale for c in d)) for r, d in base]
                try:
                    b = build(impl, kind, pert)
                    res = [a == b, b == a, hash(a) == hash(b), len({a, b}) == 1]
                    names = ['a == b', 'b == a', 'hash(a) == hash(b)', 'len({a,b}) == 1']
                    if kind not in ('P', 'V'):
                        r1 = impl.intersection(a, b)
                        res.append(type(r1) is type(a) and r1 == a)
                        names.append('intersection(a, b) is coincident (== a)')
                        pts_b = [impl.Point(*d) for r, d in pert if r == 'p']
                        pts_a = [impl.Point(*d) for r, d in base if r == 'p']
                        res.append(all(p in a for p in pts_b) and all(p in b for p in pts_a))
                        names.append("each contains the other's defining points")
                    bad = [nm for nm, ok in zip(names, res) if ok is not True]
                    if bad:
                        rec['problems'].append('perturbation %s at eps=1e-%d (set via %s): %s' % (label, sig, via, '; '.join('%s fails' % x for x in bad)))
                except Exception as ex:
                    rec['problems'].append('perturbation %s at eps=1e-%d: raises %s: %s' % (label, sig, type(ex).__name__, str(ex)[:60]))
            if kind in ('P', 'V'):
                k = R.randrange(3)
                far = [(r, tuple(c + (4.5 * ef if t == k else 0.0) for t, c in enumerate(d))) for r, d in base]
                b = build(impl, kind, far)
                if a == b or b == a:
                    rec['problems'].append('coordinate %d differs by 4.5·eps (eps=1e-%d) but the objects compare equal' % (k, sig))
                # the same with EXACT rational coordinates (Fraction in, Fraction kept): 9/2·eps apart is unequal, eps/1000 apart is equal
                ctor = impl.Point if kind == 'P' else impl.Vector
                fe = F(1, 10 ** sig)
                fa = ctor(*[F(c) for c in o])
                ffar = ctor(*[F(c) + (F(9, 2) * fe if t == k else 0) for t, c in enumerate(o)])
                fnear = ctor(*[F(c) + (fe / 1000 if t == k else 0) for t, c in enumerate(o)])
                if fa == ffar or ffar == fa:
                    rec['problems'].append('Fraction coordinates: coordinate %d differs by 9/2·eps (eps=1e-%d) but the objects compare equal' % (k, sig))
                if not (fa == fnear and fnear == fa):
                    rec['problems'].append('Fraction coordinates: coordinate %d differs by eps/1000 (eps=1e-%d) but the objects compare unequal' % (k, sig))
            # objects created (and compared / hashed) under ANOTHER tolerance must follow the current one afterwards:
            # two objects `gap` apart with default eps < gap < configured eps are unequal at the default and equal now
            if sig <= 8:
                g3.set_eps()
                gap = ef / 100.0
                old_a = build(impl, kind, base)
                old_b = build(impl, kind, [(r, tuple(c + gap for c in d)) for r, d in base])
                before = (old_a == old_b, hash(old_a) == hash(old_b))
                if via == 'eps':
                    g3.set_eps(float(e))
                else:
                    g3.set_sig_figures(sig)
                after = (old_a == old_b, old_b == old_a, hash(old_a) == hash(old_b), len({old_a, old_b}) == 1)
                strict = kind in ('P', 'V') and sig <= 7       # only Points / Vectors more than 4·eps apart are REQUIRED to be unequal
                if strict and before[0] is not False:
                    rec['problems'].append('Points/Vectors %g apart compare equal at the default eps' % gap)
                if after != (True, True, True, True):
                    rec['problems'].append('objects built and compared at eps=1e-10, %g apart: after switching to eps=1e-%d (==, ==, hash equal, dedup) = %s' % (gap, sig, after))
                g3.set_eps()
                back = (old_a == old_b)
                if strict and back is not False:
                    rec['problems'].append('after returning to the default eps the same two objects still compare equal')
                if via == 'eps':
                    g3.set_eps(float(e))
                else:
                    g3.set_sig_figures(sig)
            # restore the previous configuration and check that the previous behaviour is back
            g3.set_eps(prev[0])
            if (g3.get_eps(), g3.get_sig_figures()) != prev:
                rec['problems'].append('restoring eps=%r gives (eps, sig)=%r, was %r' % (prev[0], (g3.get_eps(), g3.get_sig_figures()), prev))
            if kind in ('P', 'V') and sig < 10:
                mid = [(r, tuple(c + 30 * prev[0] for c in d)) for r, d in base]      # 30·(old eps): unequal under the old tolerance
                if build(impl, kind, base) == build(impl, kind, mid):
                    rec['problems'].append('after restoring eps=%g, points %g apart still compare equal' % (prev[0], 30 * prev[0]))
            out.append(rec)
    finally:
        g3.set_eps()
    return out


def run(ctx, scale=1):
    from .. import impl
    ctx.extra['rule'] = ('25%: histories of 1-8 setter calls (set_eps with 1e-12..1e-5 times {1,2,3,5}, set_sig_figures 5..12, both without argument) compared step by step with the Lean state machine; '
                         '75%: one catalogue object (8 kinds; coordinates multiples of 1/8; axis and Pythagorean frames (1,2,2)/3 and (2,3,6)/7; every hashed quantity >= 7% of a rounding step from a boundary at the tested precision) '
                         'under one eps in {1e-12..1e-5} set through either setter, perturbed by 0/±eps/1000 and 0/±eps/100 on every defining coordinate: ==, hash, set dedup, mutual containment, coincident intersection; '
                         'Points/Vectors 4.5·eps apart; restore of the previous eps')
    ctx.extra['unproved'] = ['tolerance-band behaviour of the composite types (needs a tolerance-aware geometric model): decided per run']
    total = ctx.n(1600, 60000) * scale
    recs = []
    for part in core.pmap(work, core.chunks(ctx, total, per=100)):
        recs.extend(part)
    cfgs = [r for r in recs if r['kind'] == 'cfg']
    outs = core.model_lines(['tol ' + ' '.join(r['toks'][:k + 1]) for r in cfgs for k in range(len(r['toks']))])
    pos = 0
    for r in cfgs:
        key = 'cfg ' + ' '.join(r['toks'])
        ctx.count(key)
        ctx.dist['config history length %d' % len(r['toks'])] += 1
        problems = []
        for k, (eps, sig) in enumerate(r['obs']):
            ml = outs[pos]
            pos += 1
            if ml in ('err', 'bad-op'):
                raise RuntimeError('model: %s -> %s' % (key, ml))
            me, ms = ml.split()
            # the library stores 1/10**n (a float); the model stores the exact rational
            if sig != int(ms) or abs(eps - float(F(me))) > 1e-15 * float(F(me)) * 10 or not isinstance(sig, int):
                problems.append('after %s: (get_eps, get_sig_figures) = (%r, %r), model (%s, %s)' % (' '.join(r['toks'][:k + 1]), eps, sig, me, ms))
            if sig != round(-math.log10(eps)):
                problems.append('after %s: get_sig_figures() = %r but round(-log10(get_eps())) = %r' % (' '.join(r['toks'][:k + 1]), sig, round(-math.log10(eps))))
        if r['after_reset'] != (1e-10, 10):
            problems.append('set_eps() does not restore the defaults: %r' % (r['after_reset'],))
        if problems:
            ctx.stats['DISAGREE config'] += 1
            ctx.violation(key, '; '.join(problems[:2]), dict(kind='cfg', toks=r['toks']))
        else:
            ctx.stats['agree config'] += 1
    for r in recs:
        if r['kind'] == 'cfg':
            continue
        key = '%s eps=1e-%d via %s frame/%d o=%s' % (r['kind'], r['sig'], r['via'], r['frame'], [fr(x) for x in r['o']])
        ctx.count(key)
        ctx.dist['%s at 1e-%d' % (r['kind'], r['sig'])] += 1
        if r['problems']:
            ctx.stats['DISAGREE tolerance'] += 1
            ctx.violation(key, key + ': ' + '; '.join(r['problems'][:2]), dict(kind=r['kind'], sig=r['sig'], via=r['via'], o=[fr(x) for x in r['o']], frm=[list(v) for v in r['frm']] + [r['frame']]))
        else:
            ctx.stats['agree tolerance'] += 1
    for r in recs[:5]:
        ctx.sample({k: str(v)[:120] for k, v in r.items() if k in ('kind', 'toks', 'obs', 'sig', 'via', 'o', 'frame', 'problems')})
    import Geometry3D as g3
    g3.set_eps()


def search(ctx):
    run(ctx, scale=2)


def replay(ctx, case):
    from .. import impl
    import Geometry3D as g3
    c = case['case']
    try:
        if c['kind'] == 'cfg':
            g3.set_eps()
            ok = True
            for k, t in enumerate(c['toks']):
                p = t.split()
                if p[0] == 'e':
                    g3.set_eps(float(F(p[1])))
                elif p[0] == 's':
                    g3.set_sig_figures(int(p[1]))
                elif p[0] == 'E':
                    g3.set_eps()
                else:
                    g3.set_sig_figures()
                ml = core.model_lines(['tol ' + ' '.join(c['toks'][:k + 1])])[0]
                print(t, '->', (g3.get_eps(), g3.get_sig_figures()), 'model', ml)
                ok = ok and g3.get_sig_figures() == int(ml.split()[1]) and g3.get_sig_figures() == round(-math.log10(g3.get_eps()))
        else:
            o = tuple(F(x) for x in c['o'])
            frm = tuple(tuple(v) for v in c['frm'][:3]) + (c['frm'][3],)
            sig = c['sig']
            if c['via'] == 'eps':
                g3.set_eps(10.0 ** -sig)
            else:
                g3.set_sig_figures(sig)
            e = 10.0 ** -sig
            base = [(r, tuple(float(x) for x in d)) for r, d in defining(c['kind'], o, frm)]
            a = build(impl, c['kind'], base)
            ok = True
            for sgn in (1, -1):
                pert = [(r, tuple(x + sgn * e * 1e-3 for x in d)) for r, d in base]
                b = build(impl, c['kind'], pert)
                res = (a == b, hash(a) == hash(b))
                print('perturbed by %+g: (==, hash equal) = %s' % (sgn * e * 1e-3, res))
                ok = ok and res == (True, True)
    finally:
        g3.set_eps()
    print('AGREE' if ok else 'VIOLATION property=C19')
    return 0 if ok else 1
