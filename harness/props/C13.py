"""C13 correspondence (metamorphic): every query on operands transformed by a signed axis permutation, a lattice translation
and a positive uniform scaling k must give the transformed answer (intersection, membership), the same answer (angle,
parallel, orthogonal, ==) or the answer scaled by k, k^2, k^3 (distance/length, area, volume)."""
import random, itertools, math
from fractions import Fraction as F
from .. import core, gen, compare, admit, interlib, exact as E
from ..gen import Gen, tok, ALL7, FLATS
from . import C04

PERMS = list(itertools.permutations(range(3)))
SYMS = [(p, s) for p in PERMS for s in itertools.product((1, -1), repeat=3)]       # 48
KS = [F(1, 2), F(1), F(2), F(3)]


def sp(sym, v):
    p, s = sym
    return (s[0] * v[p[0]], s[1] * v[p[1]], s[2] * v[p[2]])


def tpt(T, x):
    sym, t, k = T
    y = sp(sym, x)
    return (k * y[0] + t[0], k * y[1] + t[1], k * y[2] + t[2])


def tdir(T, d):
    sym, t, k = T
    y = sp(sym, d)
    return (k * y[0], k * y[1], k * y[2])


def tobj(T, o):
    kd = o[0]
    if kd == 'P':
        return ('P', tpt(T, o[1]))
    if kd in ('L', 'H'):
        return (kd, tpt(T, o[1]), tdir(T, o[2]))
    if kd == 'PL':
        return ('PL', tpt(T, o[1]), sp(T[0], o[2]))
    if kd == 'S':
        return ('S', tpt(T, o[1]), tpt(T, o[2]))
    if kd == 'G':
        return ('G', [tpt(T, p) for p in o[1]])
    if kd == 'B':
        return ('B', [[tpt(T, p) for p in f] for f in o[1]])
    if kd == 'none':
        return o
    raise ValueError(kd)


def tdesc(T, d):
    """transform a RESULT descriptor (exact values of floats)"""
    if d[0] == 'B':
        return ('B', [tpt(T, p) for p in compare.verts(d)])
    return tobj(T, d)


def observe(impl, A, B):
    a, b = impl.build(A), impl.build(B)
    out = {}
    r = core.guarded(impl.call, impl.intersection, a, b)
    out['inter'] = ('ok', impl.describe(r[1])) if r[0] == 'ok' else r
    out['in'] = impl.call(lambda: a in b) if (A[0], B[0]) in MEMPAIRS else None
    out['eq'] = impl.call(lambda: a == b) if A[0] == B[0] else None
    if (A[0], B[0]) in {('P', 'P'), ('P', 'L'), ('L', 'P'), ('L', 'L'), ('P', 'PL'), ('PL', 'P'), ('L', 'PL'), ('PL', 'L')}:
        out['dist'] = impl.call(impl.distance, a, b)
    if A[0] in ('L', 'PL') and B[0] in ('L', 'PL'):
        out['angle'] = impl.call(impl.angle, a, b)
        out['par'] = impl.call(impl.parallel, a, b)
        out['orth'] = impl.call(impl.orthogonal, a, b)
    for nm, o in (('a', a), ('b', b)):
        for m in ('length', 'area', 'volume'):
            if hasattr(o, m) and not isinstance(o, (impl.Point,)):
                out[m + '_' + nm] = impl.call(getattr(o, m))
    return out


MEMPAIRS = {('P', 'L'), ('P', 'H'), ('P', 'S'), ('P', 'PL'), ('P', 'G'), ('P', 'B'), ('S', 'L'), ('S', 'H'), ('S', 'S'), ('S', 'PL'), ('S', 'G'), ('S', 'B'),
            ('H', 'L'), ('H', 'H'), ('H', 'PL'), ('L', 'PL'), ('G', 'PL'), ('G', 'B')}


def size_ok(o):
    pts = [p for p in o[1:] if isinstance(p, tuple)] if o[0] not in 'GB' else (o[1] if o[0] == 'G' else [q for f in o[1] for q in f])
    return max(abs(c) for p in pts for c in p) <= 40


def work(args):
    seed, n, idx = args
    from .. import impl
    G = Gen(random.Random(seed))
    R = G.R
    out = []
    for i in range(n):
        A, B, cls = C04.make_case(G, idx * 11 + i)
        ntr = 3
        trs = []
        for _ in range(ntr):
            T = (R.choice(SYMS), tuple(F(R.randint(-4, 4)) for _ in range(3)), R.choice(KS))
            trs.append(T)
        # a fourth transformation puts the origin midway between the operands' base points (origin-symmetric configuration)
        def base_pt(o):
            return o[1] if o[0] not in 'GB' else (o[1][0] if o[0] == 'G' else o[1][0][0])
        mid = tuple((x + y) / 2 for x, y in zip(base_pt(A), base_pt(B)))
        if all(c.denominator <= 8 for c in mid):
            trs.append((SYMS[0], tuple(-c for c in mid), F(1)))
        rec = dict(A=A, B=B, cls=cls, trs=trs)
        try:
            rec['base'] = observe(impl, A, B)
            rec['after'] = []
            for T in trs:
                TA, TB = tobj(T, A), tobj(T, B)
                if not (size_ok(TA) and size_ok(TB)):
                    rec['after'].append(None)
                    continue
                rec['after'].append(observe(impl, TA, TB))
        except Exception as e:
            rec['exc'] = '%s: %s' % (type(e).__name__, str(e)[:100])
        out.append(rec)
    return out


def builder_work(args):
    """shape builders under the 48 symmetries: area / volume / counts must not depend on the axis the normal points along"""
    seed, n, idx = args
    from .. import impl
    import Geometry3D as g3
    from ..impl import Point, Vector
    R = random.Random(seed)
    out = []
    for i in range(n):
        nrm = tuple(F(R.randint(-3, 3)) for _ in range(3))
        if nrm == (0, 0, 0):
            nrm = (F(0), F(1), F(1))
        if R.random() < 0.4:
            z = R.randrange(3)
            nrm = tuple(F(0) if t == z else c for t, c in enumerate(nrm))
            if nrm == (0, 0, 0):
                nrm = (F(1), F(0), F(0))
        if R.random() < 0.3:
            # within SMALL_ANGLE (0.1 rad) of a coordinate axis but not on it: the frame selection of get_circle_point_list
            # has a branch per axis, and the image of such a normal under a symmetry takes another one
            j = R.randrange(3)
            small = [F(0), F(1, 2), F(-1, 2), F(1, 4), F(-1, 4), F(1), F(-1)]
            nrm = tuple(F(R.choice([8, 16, -8, -16])) if t == j else R.choice(small) for t in range(3))
        c = tuple(F(R.randint(-8, 8), 2) for _ in range(3))
        r = R.choice([0.5, 1.0, 2.0, 3.5])
        nn = R.randint(3, 12)
        kind = R.choice(['Circle', 'Cylinder', 'Cone'])
        sym = R.choice(SYMS)

        def build(center, normal):
            cp, dv = Point(*[float(x) for x in center]), Vector(*[float(x) for x in normal])
            if kind == 'Circle':
                o = g3.Circle(cp, dv, r, nn)
                return ('ok', (len(o.points), o.area(), o.length()))
            o = g3.Cylinder(cp, r, dv, nn) if kind == 'Cylinder' else g3.Cone(cp, r, dv, nn)
            return ('ok', (len(o.point_set), len(o.segment_set), len(o.convex_polygons), o.area(), o.volume()))
        try:
            b0 = build(c, nrm)
        except Exception as e:
            b0 = ('exc', type(e).__name__)
        try:
            b1 = build(sp(sym, c), sp(sym, nrm))
        except Exception as e:
            b1 = ('exc', type(e).__name__)
        out.append(dict(kind=kind, c=c, n=nrm, r=r, nn=nn, sym=sym, b0=b0, b1=b1))
    return out


def forms_work(args):
    """alternative constructor forms under the transformations: Plane(a, b, c, d), Plane(p1, p2, p3), Line(p1, p2), Segment(p, v),
    HalfLine(p1, p2) built from TRANSFORMED arguments must equal the transformed object (and must not start raising)"""
    seed, n, idx = args
    from .. import impl
    from ..impl import Point, Vector, Line, Plane, Segment, HalfLine
    R = random.Random(seed)
    out = []
    for i in range(n):
        T = (R.choice(SYMS), tuple(F(R.randint(-4, 4)) for _ in range(3)), R.choice(KS))
        sym, t, k = T
        form = ['gf', 'gf', 'p3', 'l2', 'sv', 'h2'][(idx + i) % 6]
        rec = dict(form=form, T=T)
        try:
            if form == 'gf':
                nrm = tuple(F(R.randint(-3, 3)) for _ in range(3))
                zero = R.choice([(), (0,), (1,), (2,), (0, 1), (0, 2), (1, 2)])
                nrm = tuple(F(0) if j in zero else (c if c != 0 else F(R.choice([-2, -1, 1, 2]))) for j, c in enumerate(nrm))
                if nrm == (0, 0, 0):
                    nrm = (F(0), F(-1), F(0))
                d = F(R.randint(-8, 8), 2)
                n2 = sp(sym, nrm)
                d2 = k * d + E.dot(n2, t)
                rec['args'] = (nrm, d)
                make0 = lambda: Plane(*[float(c) for c in nrm], float(d))
                make1 = lambda: Plane(*[float(c) for c in n2], float(d2))
            else:
                pts = [tuple(F(R.randint(-12, 12), 4) for _ in range(3)) for _ in range(3)]
                while pts[1] == pts[0]:
                    pts[1] = tuple(F(R.randint(-12, 12), 4) for _ in range(3))
                if E.is0(E.cross(E.sub(pts[1], pts[0]), E.sub(pts[2], pts[0]))):
                    pts[2] = E.add(pts[2], (F(1), F(2), F(-3)))
                    if E.is0(E.cross(E.sub(pts[1], pts[0]), E.sub(pts[2], pts[0]))):
                        pts[2] = E.add(pts[2], (F(0), F(1), F(0)))
                rec['args'] = pts
                P = lambda x: impl.Pt(x)
                V = lambda x: impl.Vc(x)
                q = [tpt(T, x) for x in pts]
                if form == 'p3':
                    make0, make1 = (lambda: Plane(P(pts[0]), P(pts[1]), P(pts[2]))), (lambda: Plane(P(q[0]), P(q[1]), P(q[2])))
                elif form == 'l2':
                    make0, make1 = (lambda: Line(P(pts[0]), P(pts[1]))), (lambda: Line(P(q[0]), P(q[1])))
                elif form == 'sv':
                    v = E.sub(pts[1], pts[0])
                    make0, make1 = (lambda: Segment(P(pts[0]), V(v))), (lambda: Segment(P(q[0]), V(tdir(T, v))))
                else:
                    make0, make1 = (lambda: HalfLine(P(pts[0]), P(pts[1]))), (lambda: HalfLine(P(q[0]), P(q[1])))
            o0 = impl.call(make0)
            o1 = impl.call(make1)
            rec['o0'] = ('ok', impl.describe(o0[1])) if o0[0] == 'ok' else o0
            rec['o1'] = ('ok', impl.describe(o1[1])) if o1[0] == 'ok' else o1
            if o0[0] == 'ok' and o1[0] == 'ok':
                d0 = impl.describe(o0[1])
                d0x = (d0[0],) + tuple(tuple(F(c) for c in part) for part in d0[1:])
                want = impl.build(tobj(T, d0x))
                rec['eq'] = impl.call(lambda: (o1[1] == want, want == o1[1]))
        except Exception as e:
            rec['exc'] = '%s: %s' % (type(e).__name__, str(e)[:100])
        out.append(rec)
    return out


def close(x, y, rel=1e-9):
    return abs(x - y) <= rel * max(1.0, abs(y))


def run(ctx, scale=1):
    ctx.extra['rule'] = ('base cases = all 49 ordered type pairs cycled in generic and degenerate positions (generators of C01/C02/C03); each base case is re-evaluated under 3 transformations drawn from the 48 signed axis '
                         'permutations × lattice translations in [-4,4]^3 × k in {1/2,1,2,3}; compared: intersection (transformed result), membership, ==, distance ×k, angle/parallel/orthogonal unchanged, length ×k, area ×k^2, '
                         'volume ×k^3; non-trivial = non-empty intersection or a defined metric query')
    total = ctx.n(1000, 20000) * scale
    recs = []
    for part in core.pmap(work, core.chunks(ctx, total, per=40)):
        recs.extend(part)
    for r in recs:
        A, B = r['A'], r['B']
        key = tok(A) + '|' + tok(B)
        if 'exc' in r:
            ctx.count(key)
            ctx.stats['DISAGREE'] += 1
            ctx.violation(key, 'raises ' + r['exc'], dict(a=gen.jsonable(A), b=gen.jsonable(B)))
            continue
        base = r['base']
        for T, af in zip(r['trs'], r['after']):
            if af is None:
                ctx.stats['skipped (transformed coordinates beyond the lattice bound)'] += 1
                continue
            sym, t, k = T
            tkey = key + ' T=%s%s t=%s k=%s' % (sym[0], sym[1], gen.tv(t), k)
            nontriv = (base['inter'][0] == 'ok' and base['inter'][1][0] != 'none') or 'dist' in base
            ctx.count(tkey, nontrivial=nontriv)
            ctx.dist['perm %s signs %s' % (''.join('xyz'[i] for i in sym[0]), ''.join('+' if s > 0 else '-' for s in sym[1]))] += 1
            kf = float(k)
            pr = []
            bi, ai = base['inter'], af['inter']
            if bi[0] != 'ok' or ai[0] != 'ok':
                if bi[0] != ai[0]:
                    pr.append('intersection: before %s, after %s' % (bi[:2], ai[:2]))
            elif not compare.same_den(tdesc(T, bi[1]), ai[1], 1e-6):
                pr.append('intersection of the transformed operands %s is not the transformed intersection (before: %s)' % (interlib.describe_obs(ai), interlib.describe_obs(bi)))
            for q in ('in', 'eq', 'par', 'orth'):
                if base.get(q) is not None and base.get(q) != af.get(q):
                    pr.append('%s: before %s, after %s' % (q, base.get(q), af.get(q)))
            for q, power in (('dist', 1), ('angle', 0), ('length_a', 1), ('length_b', 1), ('area_a', 2), ('area_b', 2), ('volume_a', 3), ('volume_b', 3)):
                x, y = base.get(q), af.get(q)
                if x is None:
                    continue
                if x[0] != 'ok' or y is None or y[0] != 'ok':
                    if x != y:
                        pr.append('%s: before %s, after %s' % (q, x, y))
                elif q == 'angle':
                    if abs(x[1] - y[1]) > 1e-7:
                        pr.append('angle: before %r, after %r' % (x[1], y[1]))
                elif not close(y[1], x[1] * kf ** power, 1e-8):
                    pr.append('%s: before %r, after %r, expected factor k^%d = %g' % (q, x[1], y[1], power, kf ** power))
            if not pr:
                ctx.stats['agree'] += 1
                continue
            TA, TB = tobj(T, A), tobj(T, B)
            ok1, w1 = admit.admitted([A, B])
            ok2, w2 = admit.admitted([TA, TB])
            if not (ok1 and ok2):
                ctx.stats['rejected-by-admission: ' + (w1 or w2)] += 1
                continue
            ctx.stats['DISAGREE'] += 1
            ctx.violation(tkey, 'a = %s, b = %s under permutation %s signs %s translation (%s) scale %s: %s' % (tok(A)[:150], tok(B)[:150], sym[0], sym[1], gen.tv(t), k, '; '.join(pr[:3])),
                          dict(a=gen.jsonable(A), b=gen.jsonable(B), perm=list(sym[0]), signs=list(sym[1]), t=gen.jsonable(t), k=gen.fr(k)))
    # builders under symmetries
    brecs = []
    for part in core.pmap(builder_work, core.chunks(ctx, ctx.n(400, 8000) * scale, per=40)):
        brecs.extend(part)
    for r in brecs:
        key = '%s(c=%s, normal=%s, r=%s, n=%d) vs image under %s' % (r['kind'], gen.tv(r['c']), gen.tv(r['n']), r['r'], r['nn'], r['sym'])
        ctx.count(key)
        ctx.dist['builder ' + r['kind']] += 1
        b0, b1 = r['b0'], r['b1']
        ok = b0[0] == b1[0] == 'ok' and all((x == y) if isinstance(x, int) else close(y, x, 1e-9) for x, y in zip(b0[1], b1[1]))
        if ok:
            ctx.stats['agree builders'] += 1
        else:
            ctx.stats['DISAGREE builders'] += 1
            ctx.violation(key, key + ': %s but the image gives %s (counts / area / volume must be invariant)' % (b0[1:], b1[1:]),
                          dict(builder=r['kind'], c=gen.jsonable(r['c']), n=gen.jsonable(r['n']), r=r['r'], nn=r['nn'], perm=list(r['sym'][0]), signs=list(r['sym'][1])))
    # alternative constructor forms under the transformations
    frecs = []
    for part in core.pmap(forms_work, core.chunks(ctx, ctx.n(1200, 24000) * scale, per=60)):
        frecs.extend(part)
    names = dict(gf='Plane(a, b, c, d)', p3='Plane(p1, p2, p3)', l2='Line(p1, p2)', sv='Segment(p, v)', h2='HalfLine(p1, p2)')
    for r in frecs:
        sym, t, k = r['T']
        key = '%s args %s under %s%s t=%s k=%s' % (names[r['form']], r.get('args'), sym[0], sym[1], gen.tv(t), k)
        ctx.count(key)
        ctx.dist['constructor form ' + names[r['form']]] += 1
        pr = []
        if 'exc' in r:
            pr.append('harness: ' + r['exc'])
        elif r['o0'][0] != 'ok' and r['o1'][0] != 'ok' and r['o0'][1] == r['o1'][1]:
            ctx.stats['constructor form rejected before and after the transformation alike'] += 1
            continue
        elif r['o0'][0] != 'ok':
            pr.append('raises on the base arguments: %s' % (r['o0'][1:],))
        elif r['o1'][0] != 'ok':
            pr.append('the base arguments give %s but the transformed arguments raise %s' % (r['o0'][1][0], r['o1'][1:]))
        elif r.get('eq') != ('ok', (True, True)):
            pr.append('object built from the transformed arguments != transformed object: %s' % (r.get('eq'),))
        if not pr:
            ctx.stats['agree constructor forms'] += 1
        else:
            ctx.stats['DISAGREE constructor forms'] += 1
            ctx.violation(key, key + ': ' + '; '.join(pr), dict(form=r['form'], args=gen.jsonable(list(r.get('args') or [])), perm=list(sym[0]), signs=list(sym[1]), t=gen.jsonable(t), k=gen.fr(k)))
    for r in recs[:3]:
        ctx.sample('a=%s b=%s transforms %s' % (tok(r['A'])[:100], tok(r['B'])[:100], [(T[0], gen.tv(T[1]), str(T[2])) for T in r['trs']]))


def search(ctx):
    run(ctx, scale=2)


def replay(ctx, case):
    from .. import impl
    c = case['case']
    if 'form' in c:
        from ..impl import Point, Vector, Line, Plane, Segment, HalfLine
        T = ((tuple(c['perm']), tuple(c['signs'])), tuple(F(x) for x in c['t']), F(c['k']))
        sym, t, k = T
        args = gen.from_jsonable(c['args'])
        P, V = impl.Pt, impl.Vc
        if c['form'] == 'gf':
            nrm, d = tuple(args[0]), args[1]
            n2 = sp(sym, nrm)
            d2 = k * d + E.dot(n2, t)
            make0 = lambda: Plane(*[float(x) for x in nrm], float(d))
            make1 = lambda: Plane(*[float(x) for x in n2], float(d2))
        else:
            pts = [tuple(x) for x in args]
            q = [tpt(T, x) for x in pts]
            v = E.sub(pts[1], pts[0])
            make0, make1 = dict(p3=(lambda: Plane(P(pts[0]), P(pts[1]), P(pts[2])), lambda: Plane(P(q[0]), P(q[1]), P(q[2]))),
                                l2=(lambda: Line(P(pts[0]), P(pts[1])), lambda: Line(P(q[0]), P(q[1]))),
                                sv=(lambda: Segment(P(pts[0]), V(v)), lambda: Segment(P(q[0]), V(tdir(T, v)))),
                                h2=(lambda: HalfLine(P(pts[0]), P(pts[1])), lambda: HalfLine(P(q[0]), P(q[1]))))[c['form']]
        o0, o1 = impl.call(make0), impl.call(make1)
        print('form', c['form'], 'args', c['args'], 'T', T)
        print('base       :', o0)
        print('transformed:', o1)
        ok = o0[0] == 'ok' and o1[0] == 'ok'
        if o0[0] != 'ok' and o1[0] != 'ok' and o0[1] == o1[1]:
            print('AGREE (rejected before and after the transformation alike)')
            return 0
        if ok:
            d0 = impl.describe(o0[1])
            want = impl.build(tobj(T, (d0[0],) + tuple(tuple(F(x) for x in part) for part in d0[1:])))
            ok = (o1[1] == want) and (want == o1[1])
        print('AGREE' if ok else 'VIOLATION property=C13')
        return 0 if ok else 1
    if 'builder' in c:
        import Geometry3D as g3
        from ..impl import Point, Vector
        sym = (tuple(c['perm']), tuple(c['signs']))
        cc, nn_ = tuple(F(x) for x in c['c']), tuple(F(x) for x in c['n'])
        f = getattr(g3, c['builder'])

        def bld(center, normal):
            cp, dv = Point(*[float(x) for x in center]), Vector(*[float(x) for x in normal])
            o = f(cp, dv, c['r'], c['nn']) if c['builder'] == 'Circle' else f(cp, c['r'], dv, c['nn'])
            return (o.area(), getattr(o, 'volume', lambda: 0.0)())
        r0 = impl.call(bld, cc, nn_)
        r1 = impl.call(bld, sp(sym, cc), sp(sym, nn_))
        print(c['builder'], 'original', r0, 'image', r1)
        ok = r0[0] == r1[0] == 'ok' and all(close(y, x) for x, y in zip(r0[1], r1[1]))
        print('AGREE' if ok else 'VIOLATION property=C13')
        return 0 if ok else 1
    if 'perm' not in c:
        print(c)
        return 1
    A, B = gen.from_jsonable(c['a']), gen.from_jsonable(c['b'])
    T = ((tuple(c['perm']), tuple(c['signs'])), tuple(F(x) for x in c['t']), F(c['k']))
    base = observe(impl, A, B)
    af = observe(impl, tobj(T, A), tobj(T, B))
    print('a =', tok(A), '\nb =', tok(B), '\nT =', T)
    print('before:', {k: (interlib.describe_obs(v) if k == 'inter' else v) for k, v in base.items()})
    print('after :', {k: (interlib.describe_obs(v) if k == 'inter' else v) for k, v in af.items()})
    ok = base['inter'][0] == 'ok' and af['inter'][0] == 'ok' and compare.same_den(tdesc(T, base['inter'][1]), af['inter'][1], 1e-6) and all(base.get(q) == af.get(q) for q in ('in', 'eq', 'par', 'orth'))
    kf = float(T[2])
    for q, power in (('dist', 1), ('length_a', 1), ('length_b', 1), ('area_a', 2), ('area_b', 2), ('volume_a', 3), ('volume_b', 3)):
        if base.get(q) and base[q][0] == 'ok':
            ok = ok and af[q][0] == 'ok' and close(af[q][1], base[q][1] * kf ** power, 1e-8)
    print('AGREE' if ok else 'VIOLATION property=C13')
    return 0 if ok else 1
