"""C05 correspondence: `x in S` — implementation vs Lean model vs exact containment."""
import random
from fractions import Fraction as F
from .. import core, gen, compare, admit, exact as E, interlib
from ..gen import Gen, tok
from ..exact import sub, dot, cross, is0, nsq

# (candidate kind, container kind)
CASES = [('P', 'L'), ('P', 'H'), ('P', 'S'), ('P', 'PL'), ('P', 'G'), ('P', 'B'),
         ('S', 'L'), ('S', 'H'), ('S', 'S'), ('S', 'PL'), ('S', 'G'), ('S', 'B'),
         ('H', 'L'), ('H', 'H'), ('H', 'PL'), ('L', 'PL'), ('G', 'PL'), ('G', 'B')]


def truth(x, C):
    """every point of x belongs to C (exact)"""
    kx = x[0]
    if kx in ('P', 'S', 'G'):
        return all(E.contains(C, v) for v in E.vertices_of(x))
    if kx == 'H':
        if not E.contains(C, x[1]):
            return False
        d = x[2]
        if C[0] == 'L':
            return E.par(d, C[2])
        if C[0] == 'H':
            return E.par(d, C[2]) and dot(d, C[2]) > 0
        if C[0] == 'PL':
            return dot(d, C[2]) == 0
    if kx == 'L' and C[0] == 'PL':
        return E.contains(C, x[1]) and dot(x[2], C[2]) == 0
    raise ValueError((kx, C[0]))


def make_case(G, i):
    R = G.R
    kx, kc = CASES[i % len(CASES)]
    if kc in ('G', 'B'):
        if kc == 'B':
            faces, _ = G.body()
            K0, K = ('B', faces), G.shuffled_body(faces)
        else:
            cyc = G.polygon(3, 6)
            K0, K = ('G', cyc), G.shuffled_polygon(cyc)
        if kx in ('P', 'S'):
            x, cls = G.flat_vs_body(kx, K0)
        else:   # polygon in polyhedron: a face, a shrunk face, a cross-section triangle, or a displaced one
            c = R.random()
            f = R.choice(K0[1])
            if c < 0.3:
                x, cls = G.shuffled_polygon(f), 'face'
            elif c < 0.5:
                cen = E.mean(f)
                x, cls = ('G', [E.add(cen, E.mul(F(1, 2), sub(p, cen))) for p in f]), 'in-face'
            else:
                pts = [G.body_feature_point(K0)[0] for _ in range(3)]
                if E.affine_rank(pts) != 2:
                    return make_case(G, i + len(CASES))
                x, cls = ('G', pts), 'triangle'
        return x, K, cls
    fr = G.frame()
    mc = R.choices(G.MODES, G.WEIGHTS)[0]
    mx = R.choices(G.MODES, G.WEIGHTS)[0]
    C = G.flat(kc, fr, mc)
    if kx == 'G':
        pf = G.poly_frame()
        cyc = G.polygon(3, 5, pf)
        x = G.shuffled_polygon(cyc)
        c = R.random()
        if c < 0.5:
            C = ('PL', R.choice(cyc), E.mul(G.scale(), pf['n']))
        elif c < 0.7:
            C = ('PL', E.add(cyc[0], pf['n']), pf['n'])
        return x, C, 'polygon-plane'
    x = G.flat(kx, fr, mx)
    if kx == 'S' and R.random() < 0.4 and kc in ('L', 'H', 'S'):
        # sub-segment of the container's carrier
        p, d = C[1], (C[2] if kc != 'S' else sub(C[2], C[1]))
        t1, t2 = R.sample([F(-1, 2), F(0), F(1, 4), F(1, 2), F(1), F(3, 2)], 2)
        x = ('S', E.add(p, E.mul(t1, d)), E.add(p, E.mul(t2, d)))
        mx = 'sub'
    if kx == 'H' and R.random() < 0.4 and kc in ('L', 'H'):
        p, d = C[1], C[2]
        x = ('H', E.add(p, E.mul(R.choice([F(-1), F(0), F(1, 2), F(2)]), d)), E.mul(G.scale(), d))
        mx = 'sub'
    return x, C, mc + '/' + mx


def work(args):
    seed, n, idx = args
    from .. import impl
    G = Gen(random.Random(seed))
    out = []
    for i in range(n):
        x, C, cls = make_case(G, idx * 5 + i)
        for x_, C_, cls_ in [(x, C, cls)] + [(a_, b_, cls + '+hash-twin') for a_, b_ in interlib.twin_followups(x, C)]:
            try:
                xo, co = interlib.build_pair(impl, x_, C_)      # one case in six: an operand arrives by a primed in-place move
                r = core.guarded(impl.call, lambda a, b: a in b, xo, co)
            except Exception as e:
                r = ('ctor-exc', type(e).__name__)
            out.append((x_, C_, cls_, r))
    return out


def run(ctx, scale=1):
    ctx.extra['rule'] = ('18 (candidate, container) type combinations cycled; flat containers and candidates placed relative to a common lattice frame '
                         '(on the line / in the plane / through the point / parallel / free, plus sub-segments and sub-half-lines of the carrier); for polygon and '
                         'polyhedron containers the candidate is built from feature points (vertex, edge, face, interior, outside at offset >= 1/4); '
                         'non-trivial = contained, or constructed in a degenerate relation')
    ctx.extra['unproved'] = ['none under Polyhedron.Valid; that a constructed body is Valid is judged per body by the Lean procedure validB (proved sound)']
    total = ctx.n(9000, 300000) * scale
    cases = []
    for part in core.pmap(work, core.chunks(ctx, total, per=300)):
        cases.extend(part)
    outs = core.model_lines(['mem %s %s' % (tok(x), tok(C)) for x, C, _, _ in cases])
    for (x, C, cls, r), ml in zip(cases, outs):
        t = truth(x, C)
        key = tok(x) + ' in ' + tok(C)
        ctx.count(key, nontrivial=(t or cls != 'free/free'))
        ctx.dist['%s in %s -> %s' % (x[0], C[0], t)] += 1
        if ml not in ('true', 'false'):
            raise RuntimeError('model: %s -> %s' % (key, ml))
        if (ml == 'true') != t:
            ok, why = admit.admitted([x, C])
            if ok:
                ctx.extra.setdefault('model_mismatch', []).append(dict(case=key, model=ml, exact=t))
                ctx.stats['MODEL-vs-exact mismatch'] += 1
        if r == ('ok', t):
            ctx.stats['agree'] += 1
            continue
        ok, why = admit.admitted([x, C])
        if not ok:
            ctx.stats['rejected-by-admission: ' + why] += 1
            continue
        ctx.stats['DISAGREE'] += 1
        ctx.violation(key, '(%s) in (%s): implementation gives %s, exact containment is %s' % (tok(x), tok(C), r[1:] if r[0] != 'ok' else r[1], t),
                      dict(x=gen.jsonable(x), c=gen.jsonable(C), impl=str(r), exact=t, cls=cls))
    for x, C, cls, r in cases[:5]:
        ctx.sample('(%s) in (%s) [%s] -> %s' % (tok(x)[:100], tok(C)[:140], cls, r[1]))
    mm = ctx.extra.get('model_mismatch')
    if mm and not ctx.broken:
        for m in mm[:5]:
            core.log('MODEL MISMATCH: %s' % m)
        raise RuntimeError('Lean model disagrees with exact containment on %d admitted cases' % len(mm))


def search(ctx):
    run(ctx, scale=2)


def replay(ctx, case):
    from .. import impl
    c = case['case']
    x, C = gen.from_jsonable(c['x']), gen.from_jsonable(c['c'])
    interlib.replay_preamble(impl, x, C)
    xo, co = interlib.build_pair(impl, x, C)
    r = impl.call(lambda a, b: a in b, xo, co)
    t = truth(x, C)
    print('(%s) in (%s): implementation %s, exact %s' % (tok(x), tok(C), r, t))
    ok = r == ('ok', t)
    print('AGREE' if ok else 'VIOLATION property=C05')
    return 0 if ok else 1
