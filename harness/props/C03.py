"""C03 correspondence: ConvexPolygon / ConvexPolyhedron × ConvexPolygon / ConvexPolyhedron.
Implementation vs Lean model vs exact vertex enumeration (dimension, vertex set, volume)."""
import random
from fractions import Fraction as F
from .. import core, gen, compare, admit, interlib, exact as E
from ..gen import Gen, tok
from ..exact import add, sub, mul, neg, dot, cross

TEMPLATES = ['random', 'translate', 'nested', 'shared-vertex', 'face-pyramid', 'coplanar', 'in-face-plane', 'self', 'cut', 'lattice-box', 'nested-touching', 'shared-face-plane', 'shared-face-plane', 'nested-touching']


def body_desc(G):
    faces, bk = G.body()
    return faces


def translate(faces, t):
    return [[add(p, t) for p in f] for f in faces]


def make_case(G, i):
    R = G.R
    tpl = TEMPLATES[i % len(TEMPLATES)]
    kinds = ['GG', 'GB', 'BG', 'BB'][(i // len(TEMPLATES)) % 4]
    if tpl == 'coplanar':
        fr = G.poly_frame()
        a = G.polygon(3, 6, fr)
        b = G.polygon(3, 6, fr)
        if R.random() < 0.3 and len(b) >= 4:
            # an edge of a passes exactly THROUGH A VERTEX of b and leaves b through the interior of a non-adjacent edge
            j = R.randrange(len(b))
            v_ = b[j]
            m_ = (j + 2) % len(b)
            q_ = mul(F(1, 2), add(b[m_], b[(m_ + 1) % len(b)]))
            d_ = sub(q_, v_)
            side = sub(b[(j + 1) % len(b)], v_)
            a = [sub(v_, mul(R.choice([F(1, 2), F(1)]), d_)), add(q_, mul(R.choice([F(1, 2), F(1)]), d_)), add(add(v_, mul(F(1, 2), d_)), mul(R.choice([F(2), F(-2), F(3)]), side))]
            return G.shuffled_polygon(a), G.shuffled_polygon(b), tpl + '+edge-through-vertex'
        if R.random() < 0.6:
            t = add(mul(F(R.randint(-2, 2), 2), fr['d']), mul(F(R.randint(-1, 1), 2), fr['v']))
            b = [add(p, t) for p in b]
        return G.shuffled_polygon(a), G.shuffled_polygon(b), tpl
    if tpl == 'in-face-plane':
        faces = body_desc(G)
        f = R.choice(faces)
        n = E.polygon_normal(f)
        c = E.mean(f)
        k = R.choice([F(1, 2), F(1), F(3, 2), F(2)])
        t = R.choice([E.ZERO3, sub(f[0], c), mul(F(1, 2), sub(f[1], f[0]))])
        poly = [add(add(c, mul(k, sub(p, c))), t) for p in f]
        A, B = G.shuffled_polygon(poly), G.shuffled_body(faces)
        return (A, B, tpl) if R.random() < 0.5 else (B, A, tpl)
    if tpl == 'cut':
        faces = body_desc(G)
        vs = list(dict.fromkeys(p for f in faces for p in f))
        K0 = ('B', faces)
        pts = []
        for _ in range(3):
            pts.append(G.body_feature_point(K0)[0])
        if R.random() < 0.35 and len(vs) >= 5:
            pts = R.sample(vs, 3)      # a plane through three VERTICES (mostly not spanning a face): it cuts through the body along a diagonal section
        if E.affine_rank(pts) != 2:
            pts = [vs[0], vs[1], G.comb(vs)]
        if E.affine_rank(pts) != 2:
            return make_case(G, i + 1)
        c = E.mean(pts)
        k = R.choice([F(1), F(2), F(3)])
        tri = [add(c, mul(k, sub(p, c))) for p in pts]
        A, B = ('G', tri), G.shuffled_body(faces)
        return (A, B, tpl) if R.random() < 0.5 else (B, A, tpl)
    if tpl == 'lattice-box':
        # small axis-aligned integer boxes around the origin (what Parallelepiped users build); every third one is the unit
        # cube [-2,-1] x [0,1]^2 up to the axis: its opposite faces have vertex coordinates that differ only by -1 <-> -2,
        # which CPython hashes alike (hash(-1) == hash(-2)) -- D12: the two faces compared equal and one was lost
        def box(lo, hi):
            vs = [(F(x), F(y), F(z)) for x in (lo[0], hi[0]) for y in (lo[1], hi[1]) for z in (lo[2], hi[2])]
            return E.hull_faces(vs)
        ax = R.randrange(3)
        if R.random() < 0.34:
            lo, hi = [0, 0, 0], [1, 1, 1]
            lo[ax], hi[ax] = -2, -1
        else:
            lo = [R.randint(-2, 0) for _ in range(3)]
            hi = [l + R.randint(1, 2) for l in lo]
        grow_lo = [R.choice([0, 0, 1, 2]) for _ in range(3)]
        grow_hi = [R.choice([0, 0, 1, 2]) for _ in range(3)]
        mode = R.choice(['contains', 'contains', 'self', 'overlap'])
        if mode == 'self':
            lo2, hi2 = lo, hi
        elif mode == 'contains':
            lo2, hi2 = [l - g for l, g in zip(lo, grow_lo)], [h + g for h, g in zip(hi, grow_hi)]
        else:
            sh = [R.choice([-1, 0, 0, 1]) for _ in range(3)]
            lo2, hi2 = [l + d_ for l, d_ in zip(lo, sh)], [h + d_ for h, d_ in zip(hi, sh)]
        A, B = G.shuffled_body(box(lo, hi)), G.shuffled_body(box(lo2, hi2))
        return (A, B, tpl) if R.random() < 0.5 else (B, A, tpl)
    if tpl == 'shared-face-plane':
        # two bodies that share a face plane, their coplanar faces overlapping only partly (one body is the other translated within
        # the plane of a face); half of the bodies have diagonal face normals such as (1,-1,0) -- the clipped face is found once from
        # each body, with its own float noise, and the two copies must be recognised as one face
        for _ in range(20):
            fs, bk = G.special_body()
            if R.random() < 0.95:
                perm = R.sample(range(3), 3)
                rows = [(1, 1, 0), (1, -1, 0), (0, 0, R.choice([1, 2]))]
                M = [tuple(F(rows[j][perm.index(t)]) for t in range(3)) for j in range(3)]
                base = [(x, y, z) for x in (0, 1) for y in (0, 2) for z in (0, 1)]
                o = G.ipt(-2, 2)
                pts = [add(o, add(add(mul(F(p[0]), M[0]), mul(F(p[1]), M[1])), mul(F(p[2]), M[2]))) for p in base]
                fs = E.hull_faces(pts)
            if fs:
                break
        def tied(f):
            n = sorted((abs(c) for c in E.polygon_normal(f)), reverse=True)
            return n[0] == n[1] != 0
        tf = [f for f in fs if tied(f)]
        f_ = R.choice(tf) if tf and R.random() < 0.95 else R.choice(fs)
        if R.random() < 0.3:
            t = add(mul(R.choice([F(1, 2), F(1, 4), F(-1, 2), F(3, 4)]), sub(f_[1], f_[0])), mul(R.choice([F(0), F(1, 4), F(-1, 4), F(1, 2)]), sub(f_[2], f_[1])))
            gs = translate(fs, t)
        else:
            # ANOTHER body on the same side of that face plane: a few points in the plane (around the face) and one or two points of the
            # first body's interior side; its face in the common plane overlaps the first body's face partly, in generic position
            vs = E.vertices_of(('B', fs))
            e1, e2 = sub(f_[1], f_[0]), sub(f_[2], f_[1])
            gs = None
            for _ in range(30):
                inpl = [add(f_[0], add(mul(R.choice([F(-1, 2), F(0), F(1, 2), F(1), F(3, 2)]), e1), mul(R.choice([F(-1, 2), F(0), F(1, 2), F(1), F(3, 2)]), e2))) for _ in range(R.randint(3, 4))]
                inner = [tuple(F(round(x * 2), 2) for x in G.comb(vs)) for _ in range(R.randint(1, 2))]
                gs = E.hull_faces(inpl + inner)
                if gs is not None and max(len(g) for g in gs) <= 6 and ok_size(('B', gs)):
                    break
                gs = None
            if gs is None:
                return make_case(G, i + 1)
        A, B = G.shuffled_body(fs), G.shuffled_body(gs)
        return (A, B, tpl) if R.random() < 0.5 else (B, A, tpl)
    # two bodies / polygons
    def one(k):
        if k == 'G':
            return ('G', G.polygon(3, 6))
        return ('B', body_desc(G))
    A0 = one(kinds[0])
    if tpl == 'random':
        B0 = one(kinds[1])
    elif tpl == 'self':
        B0 = A0
    elif tpl == 'translate':
        t = (F(R.randint(-2, 2), 2), F(R.randint(-2, 2), 2), F(R.randint(-2, 2), 2))
        if A0[0] == 'B' and R.random() < 0.5:
            # translation WITHIN the plane of one face: the two bodies then share that face plane (and the opposite one of a prism) and
            # the coplanar faces overlap only partly -- the clipped face is found once from each body
            f_ = R.choice(A0[1])
            t = add(mul(R.choice([F(1, 2), F(1, 4), F(-1, 2)]), sub(f_[1], f_[0])), mul(R.choice([F(0), F(1, 4), F(-1, 4), F(1, 2)]), sub(f_[2], f_[1])))
        if A0[0] == 'G':
            B0 = ('G', [add(p, t) for p in A0[1]])
        else:
            B0 = ('B', translate(A0[1], t))
    elif tpl == 'nested':
        vs = E.vertices_of(A0)
        c = G.comb(vs)
        c = tuple(F(round(x * 2), 2) for x in c)
        k = R.choice([F(1, 2), F(1, 2), F(2)])
        if A0[0] == 'G':
            c = E.mean(vs)
            B0 = ('G', [add(c, mul(k, sub(p, c))) for p in A0[1]])
        else:
            B0 = ('B', [[add(c, mul(k, sub(p, c))) for p in f] for f in A0[1]])
    elif tpl == 'nested-touching':
        # a body INSIDE the first one that touches its boundary only in one or two points (a vertex, a point of an edge, a point of a
        # face): every face of the outer body misses the inner one or meets it in a Point / Segment only
        if A0[0] != 'B':
            A0 = ('B', body_desc(G))
        vs = E.vertices_of(A0)
        for _ in range(20):
            inner = [tuple(F(round(x * 4), 4) for x in G.comb(vs)) for _ in range(R.randint(3, 4))]
            bd = [G.body_feature_point(A0)[0] for _ in range(R.randint(1, 2))]
            fs = E.hull_faces(inner + bd)
            if fs is not None:
                break
        else:
            return make_case(G, i + 1)
        B0 = ('B', fs)
        if R.random() < 0.5:
            A0, B0 = B0, A0
    elif tpl == 'shared-vertex':
        B0 = one(kinds[1])
        va = R.choice(E.vertices_of(A0))
        vb = R.choice(E.vertices_of(B0))
        t = sub(va, vb)
        if B0[0] == 'G':
            B0 = ('G', [add(p, t) for p in B0[1]])
        else:
            B0 = ('B', translate(B0[1], t))
    elif tpl == 'face-pyramid':
        if A0[0] == 'G':
            f = A0[1]
            n = E.polygon_normal(f)
        else:
            f = R.choice(A0[1])
            n = E.polygon_normal(f)
            cen = E.mean(E.vertices_of(A0))
            if dot(n, sub(cen, f[0])) > 0:
                n = neg(n)
        g = max(abs(x) for x in n)
        apex = add(G.comb(f), mul(R.choice([F(1), F(2), F(-1)]) / g, n))
        apex = tuple(F(round(x * 4), 4) for x in apex)
        fs = E.hull_faces(list(f) + [apex])
        if fs is None:
            return make_case(G, i + 1)
        B0 = ('B', fs)
    else:
        raise ValueError(tpl)

    def shuf(o):
        return G.shuffled_polygon(o[1]) if o[0] == 'G' else G.shuffled_body(o[1])
    return shuf(A0), shuf(B0), tpl


def ok_size(o):
    return max(abs(c) for p in (o[1] if o[0] == 'G' else [q for f in o[1] for q in f]) for c in p) <= 12


def touching_catalogue(n):
    """fixed family (its own constant seed, whatever VERIF_SEED is): a polygon in a STRICTLY supporting plane of a lattice / half-lattice
    hull body through one vertex (the polygon contains the vertex in its interior or on an edge) or along one edge — oblique poses, so
    that every incident edge meets the polygon plane in a computed point; exact answer: that Point / that edge as a Segment"""
    G = Gen(random.Random(20261001))
    R = G.R
    out = []
    while len(out) < n:
        fs = G.hull_body(den=R.choice([1, 2]))
        vs = E.vertices_of(('B', fs))
        cen = E.mean(vs)
        v = R.choice(vs)
        inc = []
        for f in fs:
            if v in f:
                nf = E.polygon_normal(f)
                if dot(nf, sub(cen, f[0])) > 0:
                    nf = neg(nf)
                g = max(abs(x) for x in nf)
                inc.append(mul(1 / g, nf))
        edge = len(out) % 3 == 2
        if edge:
            f0 = next(f for f in fs if v in f)
            w_ = f0[(f0.index(v) + 1) % len(f0)]
            two = [f for f in fs if v in f and w_ in f]
            if len(two) != 2:
                continue
            inc = []
            for f in two:
                nf = E.polygon_normal(f)
                if dot(nf, sub(cen, f[0])) > 0:
                    nf = neg(nf)
                inc.append(mul(1 / max(abs(x) for x in nf), nf))
        nrm = (F(0), F(0), F(0))
        for x in inc:
            nrm = add(nrm, mul(F(R.randint(1, 3)), x))
        if E.is0(nrm):
            continue
        # the plane nrm . (x - v) = 0 must meet the body in the vertex (edge) only
        on = [p for p in vs if dot(nrm, sub(p, v)) == 0]
        if any(dot(nrm, sub(p, v)) > 0 for p in vs) or len(on) != (2 if edge else 1):
            continue
        ax = min(range(3), key=lambda t: abs(nrm[t]))
        e_ = tuple(F(1) if t == ax else F(0) for t in range(3))
        u = E.cross(nrm, e_)
        w = E.cross(nrm, u)

        def dy(x):        # scale by a power of two to length <= 4
            m = max(abs(c) for c in x)
            k = F(1)
            while m * k > 4:
                k /= 2
            return mul(k, x)
        u, w = dy(u), dy(w)
        a, b = F(R.choice([1, 2, 3]), 2), F(R.choice([0, 1, 2]), 4)
        c0 = add(v, add(mul(b, u), mul(R.choice([F(0), F(1, 4)]), w)))          # polygon centre: the vertex, or next to it
        quad = [add(c0, mul(a, u)), add(c0, mul(a, w)), sub(c0, mul(a, u)), sub(c0, mul(a, w))]
        K, Gq = G.shuffled_body(fs), G.shuffled_polygon(quad)
        if not (ok_size(K) and ok_size(Gq)) or any(c.denominator > 64 for p in quad for c in p):
            continue
        out.append((Gq, K, 'touching-oblique') if len(out) % 2 else (K, Gq, 'touching-oblique'))
    return out


def work_touch(args):
    from .. import impl
    return [(A, B, cls, interlib.observe(impl, A, B)) for A, B, cls in args]


def work(args):
    seed, n, idx = args
    from .. import impl
    G = Gen(random.Random(seed))
    out = []
    for i in range(n):
        for _ in range(20):
            A, B, cls = make_case(G, idx * 5 + i)
            if ok_size(A) and ok_size(B):
                break
        out.append((A, B, cls, interlib.observe(impl, A, B)))
    return out


def run(ctx, scale=1):
    ctx.extra['rule'] = ('polygon/polyhedron pairs in both orders over 9 templates: ' + ', '.join(TEMPLATES) +
                         ' (bodies = lattice hulls or affine images of box/prism/pyramid/octahedron/tetrahedron, vertex and face order shuffled); '
                         'plus a fixed catalogue (constant seed) of polygons in a strictly supporting plane through one vertex / along one edge of a body in oblique pose; '
                         'non-trivial = non-empty exact intersection; generic irrational poses are NOT generated (exact model takes rational input only)')
    ctx.extra['unproved'] = ['K4: completeness of the polyhedron × polyhedron assembly (soundness proved; polygon × polygon and polygon × polyhedron proved exact) — decided per run against exact vertex enumeration']
    total = ctx.n(480, 12000) * scale
    cases = []
    for part in core.pmap(work, core.chunks(ctx, total, per=15)):
        cases.extend(part)
    tc = touching_catalogue(ctx.n(320, 2400))
    for part in core.pmap(work_touch, [tc[i:i + 40] for i in range(0, len(tc), 40)]):
        cases.extend(part)
    outs = core.model_lines(['inter %s %s' % (tok(A), tok(B)) for A, B, _, _ in cases])
    for (A, B, cls, obs), ml in zip(cases, outs):
        if interlib.judge(ctx, 'C03', A, B, cls, obs, ml):
            # measures of the result: volume of a polyhedron result against the exact hull volume
            if obs[0] == 'ok' and obs[1][0] == 'B':
                ctx.stats['polyhedron results (volume compared through the vertex set)'] += 1
    # hypotheses of the exactness theorems on both operands, and admissibility (ExactHyp ∧ Valid) of every composite RESULT,
    # judged by Lean: the part of C03 that is not a theorem (the assembled body is Valid again) is decided here per case
    hyp = core.model_lines(['interhyp %s %s' % (tok(A), tok(B)) for A, B, _, _ in cases])
    for (A, B, cls, obs), h in zip(cases, hyp):
        w = h.split()
        if len(w) == 5 and w[0] == 'operands':
            ctx.dist['hypotheses on operands %s' % ('hold' if w[1] == w[2] == 'true' else 'FAIL')] += 1
            if w[4] != 'na':
                ctx.dist['composite result admissible again: %s' % w[4]] += 1
                if w[4] == 'false' and w[1] == w[2] == 'true':
                    ctx.violation('result-not-admissible ' + tok(A) + ' ' + tok(B), 'intersection(%s, %s): the model result is not a Valid polygon / closed convex polyhedron without coplanar neighbours (Lean judges validB, exactHypB)' % (tok(A)[:150], tok(B)[:150]),
                                  dict(a=gen.jsonable(list(A)), b=gen.jsonable(list(B))))
        else:
            ctx.dist['hypotheses: ' + h[:30]] += 1
    for A, B, cls, obs in cases[:4]:
        ctx.sample('intersection(%s, %s) [%s] -> %s' % (tok(A)[:150], tok(B)[:150], cls, interlib.describe_obs(obs)))
    interlib.finish_model_check(ctx)


def search(ctx):
    run(ctx, scale=2)


def replay(ctx, case):
    return interlib.replay_pair(ctx, 'C03', case)
