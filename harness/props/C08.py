"""C08 correspondence: == / != / hash / set-dedup over families of alternative exact representations of the same set
and near-miss different sets, for all seven geometry types plus Vector; == against foreign types."""
import random, copy
from fractions import Fraction as F
from .. import core, gen, compare, admit, exact as E
from ..gen import Gen, tok, ALL7
from ..exact import add, sub, mul, neg, cross, dot, is0, V

KINDS = ALL7 + ['V']
NUMS = ['float', 'int', 'Fraction']


def alt_rep(G, X):
    """another exact representation of the same point set"""
    R = G.R
    k = X[0]
    if k in ('P', 'V'):
        return X
    if k == 'L':
        return ('L', add(X[1], mul(R.choice([F(-2), F(1), F(1, 2), F(3)]), X[2])), mul(G.scale(), X[2]))
    if k == 'PL':
        u = cross(X[2], G.dirv(2))
        if is0(u):
            u = cross(X[2], V(1, 2, 3))
        if is0(u):
            u = cross(X[2], V(3, 2, 1))
        return ('PL', add(X[1], mul(R.choice([F(0), F(1), F(-1, 2)]), u)), mul(G.scale(), X[2]))
    if k == 'S':
        return ('S', X[2], X[1]) if R.random() < 0.7 else X
    if k == 'H':
        return ('H', X[1], mul(R.choice([F(1, 2), F(2), F(3), F(1)]), X[2]))
    if k == 'G':
        return G.shuffled_polygon(E.vertices_of(X))
    return G.shuffled_body(X[1])


def near_miss(G, X):
    """a different set: one defining datum displaced by a clear margin"""
    R = G.R
    k = X[0]
    d = R.choice([V(1, 0, 0), V(0, F(1, 4), 0), V(0, 0, -1), V(F(1, 2), F(1, 2), 0), V(0, 0, F(1, 100))])
    if k in ('P', 'V'):
        return (k, add(X[1], d))
    if k in ('L', 'H'):
        if R.random() < 0.5:
            return (k, add(X[1], d), X[2])
        if k == 'H' and R.random() < 0.5:
            return (k, X[1], neg(X[2]))
        return (k, X[1], add(mul(F(4), X[2]), d))
    if k == 'PL':
        if R.random() < 0.5:
            return (k, add(X[1], d), X[2])
        return (k, X[1], add(mul(F(4), X[2]), d))
    if k == 'S':
        return ('S', X[1], add(X[2], d))
    if k == 'G':
        cyc = E.vertices_of(X)
        n = E.polygon_normal(cyc)
        i = R.randrange(len(cyc))
        c = E.mean(cyc)
        if len(cyc) >= 4 and R.random() < 0.3:      # a vertex dropped: the vertex set of one polygon is a strict SUBSET of the other's, same plane
            return ('G', cyc[:i] + cyc[i + 1:])
        if R.random() < 0.5:       # push one vertex outwards in the plane (stays convex)
            cyc2 = list(cyc)
            cyc2[i] = add(cyc[i], mul(F(1, 4), sub(cyc[i], c)))
            return ('G', cyc2)
        g = max(abs(x) for x in n)
        t = mul(F(1, 2) / g, n)
        return ('G', [add(p, t) for p in cyc])
    vs = E.vertices_of(X)
    c = E.mean(vs)
    i = R.randrange(len(vs))
    if len(vs) >= 5 and R.random() < 0.3:      # a vertex dropped: the hull of the remaining vertices
        fs = E.hull_faces(vs[:i] + vs[i + 1:])
        if fs:
            return ('B', fs)
    vs2 = list(vs)
    vs2[i] = add(vs[i], mul(F(1, 4), sub(vs[i], c)))
    fs = E.hull_faces(vs2)
    return ('B', fs) if fs else ('B', [[add(p, d) for p in f] for f in X[1]])


def collision_twin(G, k):
    """two DIFFERENT point-defined objects whose coordinates differ only by -1 <-> -2 on one axis, the other coordinates
    being 0 or 1: CPython hashes -1 and -2 alike (also as floats, and so the products with 0 / 1), so every hash the library
    builds from the coordinates collides (D12: ConvexPolygon / ConvexPolyhedron `==` compared hashes)"""
    R = G.R
    ax = R.randrange(3)

    def pt(c, u, v):
        p = [F(u), F(v)]
        p.insert(ax, F(c))
        return tuple(p)
    sq = [(0, 0), (0, 1), (1, 1), (1, 0)]
    if k == 'P' or k == 'V':
        u, v = R.randint(0, 1), R.randint(0, 1)
        return (k, pt(-1, u, v)), (k, pt(-2, u, v))
    if k == 'S':
        (u, v), (u2, v2) = R.sample(sq, 2)
        return ('S', pt(-1, u, v), pt(0, u2, v2)), ('S', pt(-2, u, v), pt(0, u2, v2))
    if k == 'G':
        corners = sq if R.random() < 0.5 else R.sample(sq, 3)
        if R.random() < 0.5:        # the same polygon one unit further along the axis
            return G.shuffled_polygon([pt(-1, u, v) for u, v in corners]), G.shuffled_polygon([pt(-2, u, v) for u, v in corners])
        # a polygon through the axis: one edge at -1 resp. -2
        a = [pt(0, 0, 0), pt(0, 1, 0)]
        q = [tuple(F(-1) if j == ax else c for j, c in enumerate(p)) for p in a]
        q2 = [tuple(F(-2) if j == ax else c for j, c in enumerate(p)) for p in a]
        return G.shuffled_polygon(a + q[::-1]), G.shuffled_polygon(a + q2[::-1])
    if k == 'B':
        def box(lo):
            vs = [pt(c, u, v) for c in (lo, 0) for u, v in sq]
            return E.hull_faces(vs)
        if R.random() < 0.5:       # unit cube [-1,0] against the brick [-2,0]
            return G.shuffled_body(box(-1)), G.shuffled_body(box(-2))
        vs1 = [pt(c, u, v) for c in (-1, 1) for u, v in sq]
        vs2 = [pt(c, u, v) for c in (-2, 1) for u, v in sq]
        return G.shuffled_body(E.hull_faces(vs1)), G.shuffled_body(E.hull_faces(vs2))
    return None


def same_set(A, B):
    if A[0] in 'GB':
        return set(E.vertices_of(A)) == set(E.vertices_of(B))
    return None     # decided by the model


def build_num(impl, X, num):
    """build with int / Fraction / float coordinates where exactly representable"""
    from ..impl import Point, Vector, Line, Plane, Segment, HalfLine
    def cv(p):
        if num == 'int' and all(c.denominator == 1 for c in p):
            return [int(c) for c in p]
        if num == 'Fraction':
            return [F(c) for c in p]
        return [float(c) for c in p]
    k = X[0]
    if k == 'P':
        return Point(*cv(X[1]))
    if k == 'V':
        return Vector(*cv(X[1]))
    if k == 'L':
        return Line(Point(*cv(X[1])), Vector(*cv(X[2])))
    if k == 'PL':
        return Plane(Point(*cv(X[1])), Vector(*cv(X[2])))
    if k == 'S':
        return Segment(Point(*cv(X[1])), Point(*cv(X[2])))
    if k == 'H':
        return HalfLine(Point(*cv(X[1])), Vector(*cv(X[2])))
    return impl.build(X)


def work(args):
    seed, n, idx = args
    from .. import impl
    G = Gen(random.Random(seed))
    R = G.R
    out = []
    for i in range(n):
        k = KINDS[(idx + i) % 8]
        if k == 'V':
            X = ('V', G.pt(4))
        elif k in gen.FLATS:
            X = G.flat(k, G.frame(), 'free')
            if R.random() < 0.25 and k in ('L', 'PL', 'H', 'S'):
                # through the origin: hashed offsets / foot points are exactly zero there (sign-of-zero code paths)
                if k == 'PL':
                    u = cross(X[2], G.dirv(2))
                    X = ('PL', u if not is0(u) else E.ZERO3, X[2])
                elif k == 'S':
                    X = ('S', neg(X[2]) if X[2] != E.ZERO3 else X[1], X[2]) if R.random() < 0.5 else ('S', E.ZERO3, X[2] if X[2] != E.ZERO3 else V(1, 2, 3))
                else:
                    X = (k, mul(R.choice([F(0), F(1), F(-2)]), X[2]), X[2])
        elif k == 'G':
            cyc = G.polygon(3, 7)
            if R.random() < 0.25:      # carrier plane through the origin
                n_ = E.polygon_normal(cyc)
                off = dot(n_, cyc[0])
                if off != 0:
                    nn = E.nsq(n_)
                    t = mul(-off / nn, n_)
                    if all((c.denominator in (1, 2, 4)) for c in t):
                        cyc = [add(p, t) for p in cyc]
            X = G.shuffled_polygon(cyc)
        else:
            X = G.shuffled_body(G.body()[0])
        same = (i % 2 == 0)
        Y = alt_rep(G, X) if same else near_miss(G, X)
        tw = collision_twin(G, k) if (not same and k in ('P', 'V', 'S', 'G', 'B') and R.random() < 0.12) else None
        if tw is not None:
            X, Y = tw
        rec = dict(X=X, Y=Y, same=same, twin=tw is not None)
        try:
            num_a, num_b = R.choice(NUMS), R.choice(NUMS)
            a = build_num(impl, X, num_a)
            if k != 'V' and R.random() < 0.25:
                # b arrives at its place by an in-place move after having been hashed / compared elsewhere (stale cached hash / derived state)
                t_ = tuple(F(R.randint(-3, 3)) or F(2) for _ in range(3))
                b = build_num(impl, gen.translate_obj(Y, tuple(-c for c in t_)), num_b)
                impl.prime(b)
                b.move(impl.Vc(t_))
                rec['arrived_by_move'] = True
            else:
                b = build_num(impl, Y, num_b)
            if same and R.random() < 0.3 and k != 'V':      # value recomputed through move-and-back
                t = impl.Vc(tuple(F(R.randint(-3, 3)) for _ in range(3)))
                b = copy.deepcopy(b)
                b.move(t)
                b.move(-t)
            rec['obs'] = impl.call(lambda: (a == b, b == a, a != b, hash(a) == hash(b), len({a, b}), a == a, hash(a) == hash(copy.deepcopy(a))))
            if k in ('P', 'L', 'PL', 'G', 'B'):
                rec['foreign'] = impl.call(lambda: [a == o for o in (None, 3, 'x', impl.Vc((1, 0, 0)), impl.Pt((9, 9, 9)) if k != 'P' else impl.Vc((9, 9, 9)))])
        except Exception as e:
            rec['obs'] = ('exc', type(e).__name__, str(e)[:80])
        out.append(rec)
    return out


def mtok(o):
    return 'V ' + gen.tv(o[1]) if o[0] == 'V' else tok(o)


def run(ctx, scale=1):
    ctx.extra['rule'] = ('eight kinds (7 geometry types + Vector) cycled; even cases: an alternative exact representation of the same set (other support point / direction or normal scaled by ±k / '
                         'swapped end points / rescaled half-line direction / shuffled vertices with repeats / shuffled faces), built with float, int or Fraction coordinates, 30% recomputed through '
                         'move-and-back; odd cases: a near-miss different set (a defining point displaced by >= 1/100, direction tilted, half-line reversed, one vertex pushed out, polygon lifted off '
                         'its plane; 12% of them: collision twins, coordinates differing only by -1 <-> -2, which CPython hashes alike); observed: a==b, b==a, a!=b, hash equality, len({a,b}), a==a, == against foreign values; non-trivial = every case')
    ctx.extra['unproved'] = ['polygon/polyhedron: the code compares rounded SUMS of point/face hashes; the model compares vertex sets and planes (proved ⇔ same point set); that the hash sums agree exactly when the sets do is decided per run']
    total = ctx.n(6000, 200000) * scale
    recs = []
    for part in core.pmap(work, core.chunks(ctx, total, per=200)):
        recs.extend(part)
    # truth = the Lean equality of the model (`eqv` / `Polygon.same` / `Polyhedron.sameB`, each proved ⇔ same point set);
    # for composites additionally cross-checked against the exact vertex-set oracle
    outs = core.model_lines(['eq %s %s' % (mtok(r['X']), mtok(r['Y'])) for r in recs])
    for r, ml in zip(recs, outs):
        if ml not in ('true', 'false'):
            if ml.startswith('ctor-error') and r['obs'][0] == 'exc':      # a degenerate near-miss: model and implementation both refuse to build it
                r['skip'] = True
                ctx.stats['degenerate near-miss rejected by both constructors'] += 1
                continue
            if r['X'][0] in 'GB' and ml.startswith('ctor-error'):      # a near-miss that is not a valid composite: the oracle decides
                r['truth'] = same_set(r['X'], r['Y'])
                ctx.stats['model-constructor-rejects-near-miss'] += 1
                continue
            raise RuntimeError('model eq: %s %s -> %s' % (mtok(r['X']), mtok(r['Y']), ml))
        r['truth'] = (ml == 'true')
        if r['X'][0] in 'GB' and r['truth'] != same_set(r['X'], r['Y']):
            raise RuntimeError('model equality and exact oracle differ: %s %s' % (mtok(r['X'])[:200], mtok(r['Y'])[:200]))
    for r in recs:
        if r.get('skip'):
            continue
        X, Y, t = r['X'], r['Y'], r['truth']
        key = mtok(X) + ' == ' + mtok(Y)
        ctx.count(key)
        ctx.dist['%s %s' % (X[0], 'same set' if t else 'different sets')] += 1
        if r.get('arrived_by_move'):
            ctx.dist['second operand arrived by a primed in-place move'] += 1
        if r.get('twin'):
            ctx.dist['different sets whose coordinates differ only by -1 <-> -2 (colliding CPython hashes)'] += 1
        problems = []
        o = r['obs']
        if o[0] != 'ok':
            problems.append('raises %s' % (o[1:],))
        else:
            ab, ba, ne, he, ln, aa, ha = o[1]
            if ab is not t or ba is not t:
                problems.append('a == b is %r, b == a is %r, but the two objects denote %s' % (ab, ba, 'the same set' if t else 'different sets'))
            if ne is not (not t):
                problems.append('a != b is %r' % (ne,))
            if ab and not he:
                problems.append('a == b but hash(a) != hash(b)')
            if t and ln != 1:
                problems.append('len({a, b}) == %d for equal objects' % ln)
            if not t and ln != 2:
                problems.append('len({a, b}) == %d for different objects' % ln)
            if aa is not True or ha is not True:
                problems.append('a == a is %r; hash(a) == hash(deepcopy(a)) is %r' % (aa, ha))
        f = r.get('foreign')
        if f is not None and f != ('ok', [False] * 5):
            problems.append('== against foreign values gives %s' % (f[1:] if f[0] != 'ok' else f[1],))
        if not problems:
            ctx.stats['agree'] += 1
            continue
        objs = [o_ for o_ in (X, Y) if o_[0] != 'V']
        ok, why = admit.admitted(objs, derive=False) if objs else (True, '')
        if not ok:
            ctx.stats['rejected-by-admission: ' + why] += 1
            continue
        ctx.stats['DISAGREE'] += 1
        ctx.violation(key, 'a = %s, b = %s: %s' % (mtok(X)[:200], mtok(Y)[:200], '; '.join(problems[:3])), dict(a=gen.jsonable(list(X)), b=gen.jsonable(list(Y)), truth=t))
    for r in recs[:5]:
        ctx.sample('%s vs %s (%s) -> %s' % (mtok(r['X'])[:100], mtok(r['Y'])[:100], 'same' if r['truth'] else 'different', r['obs'][1:]))


def search(ctx):
    run(ctx, scale=2)


def replay(ctx, case):
    from .. import impl
    c = case['case']

    def conv(j):
        return ('V', tuple(F(x) for x in j[1])) if j[0] == 'V' else gen.from_jsonable(j)
    X, Y = conv(c['a']), conv(c['b'])
    a, b = impl.build(X), impl.build(Y)
    r = impl.call(lambda: (a == b, b == a, hash(a) == hash(b), len({a, b})))
    print('a =', mtok(X), '\nb =', mtok(Y), '\nsame set:', c['truth'], ' (a==b, b==a, hash equal, len({a,b})) =', r)
    t = c['truth']
    ok = r[0] == 'ok' and r[1][0] is t and r[1][1] is t and (not t or r[1][2]) and r[1][3] == (1 if t else 2)
    print('AGREE' if ok else 'VIOLATION property=C08')
    return 0 if ok else 1
