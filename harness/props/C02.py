"""C02 correspondence: flat primitive × ConvexPolygon / ConvexPolyhedron, both argument orders.
Implementation vs Lean model vs exact vertex enumeration over the H-representation."""
import random
from .. import core, gen, compare, admit, interlib, exact as E
from ..gen import Gen, tok, FLATS


def make_case(G, i):
    kind = FLATS[i % 5]
    body = (i // 5) % 2 == 1
    if body:
        faces, bk = G.body()
        K0 = ('B', faces)
        K = G.shuffled_body(faces)
    else:
        cyc = G.polygon(3, 6)
        K0 = ('G', cyc)
        K = G.shuffled_polygon(cyc)
        bk = 'polygon%d' % len(cyc)
    f, cls = G.flat_vs_body(kind, K0)
    if G.R.random() < 0.5:
        return f, K, '%s:%s' % (cls, bk)
    return K, f, '%s:%s' % (cls, bk)


def noise_pivot_catalogue():
    """fixed positions in which the in-plane line x edge systems have an entry that is mathematically 0 but float noise in the
    implementation (non-dyadic ratios): a plane whose normal projects parallel to the polygon's normal on a coordinate plane, and
    in-plane lines / segments / half-lines parallel (in projection) to an edge of non-dyadic slope; all six axis permutations,
    both argument orders"""
    import itertools
    F = E.F
    out = []
    for perm in itertools.permutations(range(3)):
        def P(*c):
            return tuple(F(c[perm[t]]) for t in range(3))
        for (b, c) in ((4, 3), (3, 4), (1, 3), (5, 3)):
            rect = [P(0, 0, 0), P(4, 0, 0), P(4, c, -b), P(0, c, -b)]            # normal (0, b, c)
            cen = P(2, F(c, 2), F(-b, 2))
            for a in (4, 3, 1, -7):
                for pt in (cen, P(1, 0, 0), P(3, c, -b)):
                    pl = ('PL', pt, P(a, b, c))
                    out.append((pl, ('G', rect), 'noise-pivot:plane'))
                    out.append((('G', rect[::-1]), pl, 'noise-pivot:plane'))
        for (u, v) in ((F(13, 4), F(15, 4)), (F(3), F(7)), (F(5, 4), F(3))):
            tri = [P(0, 0, 0), P(u, v, 2), P(u, v, -1)]
            d = P(u, v, 0)
            for h in (F(1, 2), F(0), F(-1, 4)):
                base = P(u / 4, v / 4, h)
                far = P(u, v, h)
                for fl in (('L', base, d), ('S', base, far), ('S', P(-u, -v, h), P(2 * u, 2 * v, h)), ('H', base, d), ('H', far, tuple(-x for x in d))):
                    out.append((fl, ('G', tri), 'noise-pivot:inplane'))
                    out.append((('G', tri[::-1]), fl, 'noise-pivot:inplane'))
    return out


def work(args):
    seed, n, idx = args
    from .. import impl
    G = Gen(random.Random(seed))
    out = []
    for i in range(n):
        A, B, cls = make_case(G, idx * 3 + i)
        out.append((A, B, cls, interlib.observe(impl, A, B)))
        for A2, B2 in interlib.twin_followups(A, B):      # the same call with one operand replaced by a hash twin, right afterwards
            out.append((A2, B2, cls + '+hash-twin', interlib.observe(impl, A2, B2)))
    return out


def run(ctx, scale=1):
    ctx.extra['rule'] = ('5 flat types × {polygon (3-6 vertices on a random lattice plane), polyhedron (lattice hull 4-10 vertices, or affine image of '
                         'box/prism/pyramid/octahedron/tetrahedron)} × both argument orders; vertex/face order shuffled; the flat is built through features of '
                         'the body (vertex, edge point, face point, interior point, outside point; face plane, supporting plane, plane through an edge); '
                         'non-trivial = non-empty exact intersection')
    ctx.extra['unproved'] = ['none under the stated hypotheses; that a concrete face list is that of a Valid body without coplanar neighbours is judged per body by the Lean procedure exactHypB (proved sound), see hypotheses_* in the distribution']
    total = ctx.n(2500, 80000) * scale
    cases = []
    for part in core.pmap(work, core.chunks(ctx, total, per=100)):
        cases.extend(part)
    from .. import impl
    for A, B, cls in noise_pivot_catalogue():
        cases.append((A, B, cls, interlib.observe(impl, A, B)))
    outs = core.model_lines(['inter %s %s' % (tok(A), tok(B)) for A, B, _, _ in cases])
    for (A, B, cls, obs), ml in zip(cases, outs):
        interlib.judge(ctx, 'C02', A, B, cls, obs, ml)
    # hypotheses of the exactness theorems (K0/K1: polygon Valid; K3/K5: ExactHyp), judged by Lean on the composite operand of every case
    comps = [A if A[0] in 'GB' else B for A, B, _, _ in cases]
    hyp = core.model_lines(['exacthyp %s' % tok(K) for K in comps])
    for K, h in zip(comps, hyp):
        key = 'hypotheses_%s_%s' % ('polyhedron' if K[0] == 'B' else 'polygon', 'hold' if h.strip() == 'true true' else 'fail:' + h.strip().replace(' ', '_'))
        ctx.dist[key] = ctx.dist.get(key, 0) + 1
    for A, B, cls, obs in cases[:5]:
        ctx.sample('intersection(%s, %s) [%s] -> %s' % (tok(A)[:120], tok(B)[:120], cls, interlib.describe_obs(obs)))
    interlib.finish_model_check(ctx)


def search(ctx):
    run(ctx, scale=2)


def replay(ctx, case):
    return interlib.replay_pair(ctx, 'C02', case)
