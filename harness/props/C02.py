"""C02 correspondence: flat primitive × ConvexPolygon / ConvexPolyhedron, both argument orders.
Implementation vs Lean model vs exact vertex enumeration over the H-representation."""
import random
from .. import core, gen, compare, admit, interlib, exact as E
from ..gen import Gen, tok, FLATS


def make_case(G, i):
    kind = FLATS[i % 5]
    body = (i // 5) % 2 == 1
    if body:
        faces, bk = G.body()
        K0 = ('B', faces)
        K = G.shuffled_body(faces)
    else:
        cyc = G.polygon(3, 6)
        K0 = ('G', cyc)
        K = G.shuffled_polygon(cyc)
        bk = 'polygon%d' % len(cyc)
    f, cls = G.flat_vs_body(kind, K0)
    if G.R.random() < 0.5:
        return f, K, '%s:%s' % (cls, bk)
    return K, f, '%s:%s' % (cls, bk)


def work(args):
    seed, n, idx = args
    from .. import impl
    G = Gen(random.Random(seed))
    out = []
    for i in range(n):
        A, B, cls = make_case(G, idx * 3 + i)
        out.append((A, B, cls, interlib.observe(impl, A, B)))
        for A2, B2 in interlib.twin_followups(A, B):      # the same call with one operand replaced by a hash twin, right afterwards
            out.append((A2, B2, cls + '+hash-twin', interlib.observe(impl, A2, B2)))
    return out


def run(ctx, scale=1):
    ctx.extra['rule'] = ('5 flat types × {polygon (3-6 vertices on a random lattice plane), polyhedron (lattice hull 4-10 vertices, or affine image of '
                         'box/prism/pyramid/octahedron/tetrahedron)} × both argument orders; vertex/face order shuffled; the flat is built through features of '
                         'the body (vertex, edge point, face point, interior point, outside point; face plane, supporting plane, plane through an edge); '
                         'non-trivial = non-empty exact intersection')
    ctx.extra['unproved'] = ['none under the stated hypotheses; that a concrete face list is that of a Valid body without coplanar neighbours is judged per body by the Lean procedure exactHypB (proved sound), see hypotheses_* in the distribution']
    total = ctx.n(2500, 80000) * scale
    cases = []
    for part in core.pmap(work, core.chunks(ctx, total, per=100)):
        cases.extend(part)
    outs = core.model_lines(['inter %s %s' % (tok(A), tok(B)) for A, B, _, _ in cases])
    for (A, B, cls, obs), ml in zip(cases, outs):
        interlib.judge(ctx, 'C02', A, B, cls, obs, ml)
    # hypotheses of the exactness theorems (K0/K1: polygon Valid; K3/K5: ExactHyp), judged by Lean on the composite operand of every case
    comps = [A if A[0] in 'GB' else B for A, B, _, _ in cases]
    hyp = core.model_lines(['exacthyp %s' % tok(K) for K in comps])
    for K, h in zip(comps, hyp):
        key = 'hypotheses_%s_%s' % ('polyhedron' if K[0] == 'B' else 'polygon', 'hold' if h.strip() == 'true true' else 'fail:' + h.strip().replace(' ', '_'))
        ctx.dist[key] = ctx.dist.get(key, 0) + 1
    for A, B, cls, obs in cases[:5]:
        ctx.sample('intersection(%s, %s) [%s] -> %s' % (tok(A)[:120], tok(B)[:120], cls, interlib.describe_obs(obs)))
    interlib.finish_model_check(ctx)


def search(ctx):
    run(ctx, scale=2)


def replay(ctx, case):
    return interlib.replay_pair(ctx, 'C02', case)
