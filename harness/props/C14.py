"""C14 correspondence: shape builders (Parallelogram, Parallelepiped, Circle, Cylinder, Cone, Sphere) over centres, radii,
axis directions (all 26 lattice directions, random, near-axis) and resolutions; counts, on-surface residuals, equal
angular steps, closed-form area / volume (relative 1e-9, floating point, per the property's own quantifier), arguments
unchanged.  Combinatorial counts are also compared with the formulas proved in Lean (when the Builders module is present)."""
import random, math, itertools
from fractions import Fraction as F
from .. import core, gen, exact as E
from ..gen import Gen

AXES = [d for d in itertools.product((-1, 0, 1), repeat=3) if d != (0, 0, 0)]      # 26 lattice directions


def A(n, rho):
    return n / 2.0 * rho * rho * math.sin(2 * math.pi / n)


def sphere_refs(r, n1, n2):
    phis = [math.pi / 2 * j / n2 for j in range(n2)]
    rho = [r * math.cos(p) for p in phis]
    z = [r * math.sin(p) for p in phis]
    vol = area = 0.0
    sn, cs = math.sin(math.pi / n1), math.cos(math.pi / n1)
    for j in range(n2 - 1):
        d = z[j + 1] - z[j]
        a1, a2 = A(n1, rho[j]), A(n1, rho[j + 1])
        vol += d / 3 * (a1 + a2 + math.sqrt(a1 * a2))
        slant = math.sqrt(d * d + ((rho[j] - rho[j + 1]) * cs) ** 2)
        area += n1 * (2 * rho[j] * sn + 2 * rho[j + 1] * sn) / 2 * slant
    d = r - z[-1]
    vol += d / 3 * A(n1, rho[-1])
    area += n1 * (2 * rho[-1] * sn) / 2 * math.sqrt(d * d + (rho[-1] * cs) ** 2)
    return 2 * vol, 2 * area, phis


def direction(R, G):
    c = R.random()
    if c < 0.45:
        d = R.choice(AXES)
        k = R.choice([1, 1, 2, 0.5, 3])
        return tuple(float(x) * k for x in d), 'lattice'
    if c < 0.7:
        ax = R.choice([(1, 0, 0), (-1, 0, 0), (0, 1, 0), (0, -1, 0), (0, 0, 1), (0, 0, -1)])
        eps = R.choice([1e-3, 1e-2, 0.05, 0.09, 0.11, 0.2])
        o = [R.uniform(-1, 1) for _ in range(3)]
        return tuple(a + eps * b for a, b in zip(ax, o)), 'near-axis'
    while True:
        d = tuple(R.uniform(-1, 1) for _ in range(3))
        if sum(x * x for x in d) > 0.05:
            return d, 'random'


def nrm(v):
    return math.sqrt(sum(x * x for x in v))


def rel_ok(val, ref, tol=1e-9):
    return abs(val - ref) <= tol * max(abs(ref), 1e-12)


def hl_(d):
    return math.sqrt(sum(x * x for x in d))


def work(args):
    seed, n_, idx = args
    from .. import impl
    import Geometry3D as g3
    from ..impl import Point, Vector
    G = Gen(random.Random(seed))
    R = G.R
    out = []
    for i in range(n_):
        j = idx * 7 + i
        kind = ['Circle', 'Cylinder', 'Cone', 'Sphere', 'Parallelogram', 'Parallelepiped'][j % 6]
        pr = []
        c = tuple(float(x) for x in G.pt(6))
        rec = dict(kind=kind, c=c)
        try:
            if kind in ('Circle', 'Cylinder', 'Cone'):
                d, dcls = direction(R, G)
                r = R.choice([0.3, 0.5, 1.0, 2.0, 3.75, 7.5]) * R.choice([1.0, 1.0, 0.97])
                n = R.randint(3, 24)
                rec.update(d=d, r=r, n=n, dcls=dcls)
                if R.random() < 0.5:
                    # a decoy call just before, with ALMOST the same axis (tilted by 1e-6 .. 1e-5 rad, or the opposite direction),
                    # another centre and radius, result discarded: nothing of it may leak into the call under test
                    tl = R.choice([1e-6, 3e-6, 1e-5]) * hl_(d)
                    jj = R.randrange(3)
                    d2 = tuple((-x if R.random() < 0.2 else x) for x in d)
                    d2 = tuple(x + (tl if t == jj else 0.0) for t, x in enumerate(d2 if all(a == -b for a, b in zip(d2, d)) or d2 == tuple(d) else d))
                    try:
                        getattr(g3, kind)(*((Point(c[0] + 1, c[1], c[2] - 2), Vector(*d2), 0.9 * r, n) if kind == 'Circle' else (Point(c[0] + 1, c[1], c[2] - 2), 0.9 * r, Vector(*d2), n)))
                    except Exception:
                        pass
                    rec['decoy'] = d2
                cp, dv = Point(*c), Vector(*d)
                snap = (impl.snapshot(cp), impl.snapshot(dv))
                hl = nrm(d)
                u = tuple(x / hl for x in d)
                if kind == 'Circle':
                    o = g3.Circle(cp, dv, r, n)
                    pts = [(p.x, p.y, p.z) for p in o.points]
                    rings = [(c, pts)]
                    refs = dict(area=A(n, r), length=n * 2 * r * math.sin(math.pi / n))
                    counts = (len(pts), None, None)
                    want = (n, None, None)
                elif kind == 'Cylinder':
                    o = g3.Cylinder(cp, r, dv, n)
                    top = tuple(a + b for a, b in zip(c, d))
                    allp = [(p.x, p.y, p.z) for p in o.point_set]
                    bot_ring = [p for p in allp if abs(sum((a - b) * w for a, b, w in zip(p, c, u))) < 1e-7 * max(1, hl)]
                    top_ring = [p for p in allp if abs(sum((a - b) * w for a, b, w in zip(p, top, u))) < 1e-7 * max(1, hl)]
                    rings = [(c, bot_ring), (top, top_ring)]
                    if len(bot_ring) + len(top_ring) != len(allp):
                        pr.append('vertices not on the bottom/top planes')
                    refs = dict(volume=A(n, r) * hl, area=2 * A(n, r) + n * 2 * r * math.sin(math.pi / n) * hl)
                    counts = (len(o.point_set), len(o.segment_set), len(o.convex_polygons))
                    want = (2 * n, 3 * n, n + 2)
                else:
                    o = g3.Cone(cp, r, dv, n)
                    top = tuple(a + b for a, b in zip(c, d))
                    allp = [(p.x, p.y, p.z) for p in o.point_set]
                    ring = [p for p in allp if max(abs(a - b) for a, b in zip(p, top)) > 1e-9 * max(1, hl)]
                    if len(ring) != len(allp) - 1:
                        pr.append('apex is not at centre + height vector')
                    rings = [(c, ring)]
                    refs = dict(volume=A(n, r) * hl / 3, area=A(n, r) + n * r * math.sin(math.pi / n) * math.sqrt(hl * hl + (r * math.cos(math.pi / n)) ** 2))
                    counts = (len(o.point_set), len(o.segment_set), len(o.convex_polygons))
                    want = (n + 1, 2 * n, n + 1)
                # rings: on the circle (distance r from the ring centre, in the plane normal to the axis), equal steps
                for rc, ring in rings:
                    if len(ring) != n:
                        pr.append('a ring has %d vertices, expected %d' % (len(ring), n))
                        continue
                    for p in ring:
                        w = tuple(a - b for a, b in zip(p, rc))
                        if not rel_ok(nrm(w), r, 1e-9) or abs(sum(a * b for a, b in zip(w, u))) > 1e-9 * max(1.0, r):
                            pr.append('vertex %s is not on the circle of radius %g about %s normal to the axis' % (p, r, rc))
                            break
                    # equal angular steps: every vertex has exactly two neighbours at chord distance 2 r sin(pi/n)
                    chord = 2 * r * math.sin(math.pi / n)
                    for p in ring:
                        near = sum(1 for q in ring if q is not p and rel_ok(nrm(tuple(a - b for a, b in zip(p, q))), chord, 1e-7))
                        need = 2 if n > 3 else 2
                        if near < need:
                            pr.append('angular steps are not equal (vertex %s has %d neighbours at the chord length)' % (p, near))
                            break
                if (impl.snapshot(cp), impl.snapshot(dv)) != snap:
                    pr.append('the centre / axis arguments were modified')
            elif kind == 'Sphere':
                r = R.choice([0.3, 0.5, 1.0, 2.0, 3.75, 7.5])
                n1, n2 = R.randint(3, 12), R.randint(2, 5)
                rec.update(r=r, n1=n1, n2=n2)
                cp = Point(*c)
                snap = impl.snapshot(cp)
                o = g3.Sphere(cp, r, n1, n2)
                vol, area, phis = sphere_refs(r, n1, n2)
                # the telescoped closed form proved in Lean (BA.sphere_volume_closed_form) must agree with the band sum
                closed = n1 / 3 * r ** 3 * math.sin(2 * math.pi / n1) * (1 + math.cos(math.pi / 2 / n2))
                if abs(closed - vol) > 1e-12 * max(1.0, abs(vol)):
                    raise RuntimeError('sphere closed form %r differs from band sum %r' % (closed, vol))
                refs = dict(volume=vol, area=area)
                allp = [(p.x, p.y, p.z) for p in o.point_set]
                counts = (len(o.point_set), len(o.segment_set), len(o.convex_polygons))
                want = (n1 * (2 * n2 - 1) + 2, n1 * (4 * n2 - 1), 2 * n1 * n2)
                heights = sorted(set(round(p[2] - c[2], 9) for p in allp))
                exp_h = sorted(set(round(s * r * math.sin(ph), 9) for ph in phis for s in (1, -1)) | {round(r, 9), round(-r, 9)})
                if heights != exp_h:
                    pr.append('ring heights %s, expected latitude steps %s' % (heights[:6], exp_h[:6]))
                for p in allp:
                    if not rel_ok(nrm(tuple(a - b for a, b in zip(p, c))), r, 1e-9):
                        pr.append('vertex %s is not on the sphere' % (p,))
                        break
                if impl.snapshot(cp) != snap:
                    pr.append('the centre argument was modified')
            else:
                while True:
                    vs = [G.dirv(3) for _ in range(3)]
                    if E.det3(*vs) != 0:
                        break
                fv = [tuple(float(x) for x in v) for v in vs]
                rec.update(vs=fv)
                cp = Point(*c)
                V = [Vector(*v) for v in fv]
                snap = (impl.snapshot(cp), [impl.snapshot(v) for v in V])
                cr = lambda a, b: math.sqrt(float(E.nsq(E.cross(a, b))))
                if kind == 'Parallelogram':
                    o = g3.Parallelogram(cp, V[0], V[1])
                    refs = dict(area=cr(vs[0], vs[1]), length=2 * (math.sqrt(float(E.nsq(vs[0]))) + math.sqrt(float(E.nsq(vs[1])))))
                    got = sorted((p.x, p.y, p.z) for p in o.points)
                    exp = sorted(tuple(c[t] + a * fv[0][t] + b * fv[1][t] for t in range(3)) for a in (0, 1) for b in (0, 1))
                    counts, want = (len(got), None, None), (4, None, None)
                else:
                    o = g3.Parallelepiped(cp, V[0], V[1], V[2])
                    refs = dict(volume=abs(float(E.det3(*vs))), area=2 * (cr(vs[0], vs[1]) + cr(vs[1], vs[2]) + cr(vs[0], vs[2])))
                    got = sorted((p.x, p.y, p.z) for p in o.point_set)
                    exp = sorted(tuple(c[t] + a * fv[0][t] + b * fv[1][t] + e * fv[2][t] for t in range(3)) for a in (0, 1) for b in (0, 1) for e in (0, 1))
                    counts, want = (len(o.point_set), len(o.segment_set), len(o.convex_polygons)), (8, 12, 6)
                if len(got) != len(exp) or any(max(abs(a - b) for a, b in zip(p, q)) > 1e-9 for p, q in zip(got, exp)):
                    pr.append('vertices %s, expected %s' % (got[:4], exp[:4]))
                if (impl.snapshot(cp), [impl.snapshot(v) for v in V]) != snap:
                    pr.append('the base point / edge vector arguments were modified')
            if counts != want:
                pr.append('vertex/edge/face counts %s, expected %s' % (counts, want))
            elif counts[1] is not None and counts[0] - counts[1] + counts[2] != 2:
                pr.append('V - E + F != 2')
            rec['counts'] = counts
            for q, ref in refs.items():
                val = getattr(o, q)()
                if not rel_ok(val, ref, 1e-9):
                    pr.append('%s() = %r, closed form %r' % (q, val, ref))
            if 'volume' in refs:
                v2 = impl.volume(o)
                if not rel_ok(v2, refs['volume'], 1e-9):
                    pr.append('volume(x) = %r, closed form %r' % (v2, refs['volume']))
        except Exception as e:
            pr.append('raises %s: %s' % (type(e).__name__, str(e)[:100]))
        rec['problems'] = pr
        out.append(rec)
    return out


def run(ctx, scale=1):
    ctx.extra['rule'] = ('six builders cycled; centres on the lattice (multiples of 1/4, 1/2, 1), radii in {0.3,...,7.5} (some ×0.97), axis/normal directions: 45% the 26 lattice directions (scaled), 25% within 1e-3..0.2 rad of '
                         '±x/±y/±z (straddling SMALL_ANGLE = 0.1), 30% random; n in 3..24, Sphere n1 in 3..12 and n2 in 2..5; Parallelogram/Parallelepiped over independent lattice edge vectors; non-trivial = every case')
    ctx.extra['unproved'] = ['closedness of the Sphere face complex for general n1, n2 (kernel-evaluated table over the whole range of the property instead); all closed forms (areas, volumes), convexity, on-surface and equal-step facts are proved over ℝ and compared numerically with the implementation at relative 1e-9 as the property specifies']
    total = ctx.n(900, 30000) * scale
    recs = []
    for part in core.pmap(work, core.chunks(ctx, total, per=30)):
        recs.extend(part)
    for r in recs:
        key = str({k: v for k, v in r.items() if k in ('kind', 'c', 'd', 'r', 'n', 'n1', 'n2', 'vs')})
        ctx.count(key)
        ctx.dist[r['kind'] + ((' ' + r['dcls']) if 'dcls' in r else '')] += 1
        if r['problems']:
            ctx.stats['DISAGREE'] += 1
            ctx.violation(key, key + ': ' + '; '.join(r['problems'][:3]), {k: v for k, v in r.items() if k != 'problems'})
        else:
            ctx.stats['agree'] += 1
    for r in recs[:6]:
        ctx.sample({k: str(v)[:100] for k, v in r.items()})


def search(ctx):
    run(ctx, scale=2)


def on_shape(kind, pts, c, d, r):
    """every vertex on the specified circle / cylinder / cone (height 0 or |d| along the axis, distance r from it; the apex on it)"""
    hl = nrm(d)
    u = tuple(x / hl for x in d)
    for p in pts:
        w = tuple(a - b for a, b in zip(p, c))
        t = sum(a * b for a, b in zip(w, u))
        rad = nrm(tuple(a - t * b for a, b in zip(w, u)))
        tol = 1e-9 * max(1.0, r, hl)
        if kind == 'Circle':
            ok = abs(t) <= tol and abs(rad - r) <= tol
        elif kind == 'Cylinder':
            ok = (abs(t) <= tol or abs(t - hl) <= tol) and abs(rad - r) <= tol
        else:
            ok = (abs(t) <= tol and abs(rad - r) <= tol) or (abs(t - hl) <= tol and rad <= tol)
        if not ok:
            print('vertex', p, 'is not on the specified', kind, '(height %r along the axis, distance %r from it)' % (t, rad))
            return False
    return True


def replay(ctx, case):
    from .. import impl
    import Geometry3D as g3
    from ..impl import Point, Vector
    c = case['case']
    kind = c['kind']
    if c.get('decoy'):      # the decoy call that preceded the call under test
        cc, d2 = c['c'], c['decoy']
        try:
            getattr(g3, kind)(*((Point(cc[0] + 1, cc[1], cc[2] - 2), Vector(*d2), 0.9 * c['r'], c['n']) if kind == 'Circle' else (Point(cc[0] + 1, cc[1], cc[2] - 2), 0.9 * c['r'], Vector(*d2), c['n'])))
        except Exception:
            pass
    try:
        if kind == 'Circle':
            o = g3.Circle(Point(*c['c']), Vector(*c['d']), c['r'], c['n'])
            print('Circle ->', len(o.points), 'vertices, area', o.area(), 'closed form', A(c['n'], c['r']))
            ok = len(o.points) == c['n'] and rel_ok(o.area(), A(c['n'], c['r'])) and on_shape(kind, [(p.x, p.y, p.z) for p in o.points], c['c'], c['d'], c['r'])
        elif kind == 'Cylinder':
            o = g3.Cylinder(Point(*c['c']), c['r'], Vector(*c['d']), c['n'])
            ref = A(c['n'], c['r']) * nrm(c['d'])
            print('Cylinder -> counts', len(o.point_set), len(o.segment_set), len(o.convex_polygons), 'volume', o.volume(), 'closed form', ref)
            ok = rel_ok(o.volume(), ref) and len(o.point_set) == 2 * c['n'] and on_shape(kind, [(p.x, p.y, p.z) for p in o.point_set], c['c'], c['d'], c['r'])
        elif kind == 'Cone':
            o = g3.Cone(Point(*c['c']), c['r'], Vector(*c['d']), c['n'])
            ref = A(c['n'], c['r']) * nrm(c['d']) / 3
            print('Cone -> volume', o.volume(), 'closed form', ref)
            ok = rel_ok(o.volume(), ref) and on_shape(kind, [(p.x, p.y, p.z) for p in o.point_set], c['c'], c['d'], c['r'])
        elif kind == 'Sphere':
            o = g3.Sphere(Point(*c['c']), c['r'], c['n1'], c['n2'])
            ref = sphere_refs(c['r'], c['n1'], c['n2'])[0]
            print('Sphere -> volume', o.volume(), 'closed form', ref)
            ok = rel_ok(o.volume(), ref)
        else:
            vs = [Vector(*v) for v in c['vs']]
            o = g3.Parallelogram(Point(*c['c']), vs[0], vs[1]) if kind == 'Parallelogram' else g3.Parallelepiped(Point(*c['c']), *vs)
            print(kind, '-> built', o)
            ok = True
    except Exception as e:
        print('raises', type(e).__name__, e)
        ok = False
    print('AGREE' if ok else 'VIOLATION property=C14')
    return 0 if ok else 1
