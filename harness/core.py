"""Shared pipeline of every property check (see DESIGN.md section 2.1):

  1 translators regenerate lean/G3D/Extracted/*.lean from /repo's working tree
  2 lake build  (property theorems + model driver)           -> proof obligations
  3 axiom audit (#print axioms on every listed theorem) + source grep
  4 correspondence: real code vs Lean model (+ exact oracles) on generated cases
  5 failing-input search when 2/3 broke and 4 found nothing
  6 known findings, evidence, exit code   (0 pass, 1 violation, 2 infrastructure)
"""
import os, sys, json, time, subprocess, random, re, fcntl, collections, importlib, traceback, hashlib

VERIF = os.path.dirname(os.path.dirname(os.path.abspath(__file__)))
LEAN = os.path.join(VERIF, 'lean')
OUT = os.path.join(VERIF, 'out')
MODEL_EXE = os.path.join(LEAN, '.lake', 'build', 'bin', 'g3dmodel')
ALLOWED_AXIOMS = {'propext', 'Classical.choice', 'Quot.sound'}
FORBIDDEN = re.compile(r'\b(sorry|admit|native_decide|bv_decide|implemented_by)\b|^\s*axiom\s|^\s*unsafe\s|maxHeartbeats\s+0\b')
REPO = os.environ.get('G3D_SRC', '/repo')


def log(*a):
    print(*a, flush=True)


class Lock:
    def __enter__(self):
        os.makedirs(LEAN, exist_ok=True)
        self.f = open(os.path.join(LEAN, '.lock'), 'w')
        fcntl.flock(self.f, fcntl.LOCK_EX)
        return self

    def __exit__(self, *a):
        fcntl.flock(self.f, fcntl.LOCK_UN)
        self.f.close()


def theorems_for(prop):
    return json.load(open(os.path.join(VERIF, 'theorems.json')))[prop]


# ------------------------------------------------------------------------------------------- 1 extraction
def run_extractors(names):
    """each tools/extract_<name>.py prints a Lean file on stdout; written only when it changed.
    -> {name: {'ok':bool, 'changed':bool, 'error':str}}"""
    res = {}
    for name in names:
        tool = os.path.join(VERIF, 'tools', 'extract_%s.py' % name)
        target = os.path.join(LEAN, 'G3D', 'Extracted', name.capitalize() + '.lean')
        p = subprocess.run(['/venv/bin/python', '-B', tool, REPO], capture_output=True, text=True, timeout=120)
        if p.returncode != 0:
            # fail closed: write a file that cannot build, so that the dependants are not silently stale
            text = '-- extraction failed\n#exit_extraction_failed\n'
            err = (p.stderr or p.stdout)[-600:]
        else:
            text, err = p.stdout, ''
        old = open(target).read() if os.path.exists(target) else None
        if old != text:
            with open(target, 'w') as f:
                f.write(text)
        res[name] = dict(ok=p.returncode == 0, changed=(old != text), error=err)
    return res


# ------------------------------------------------------------------------------------------- 2 build
def lake_build(targets, timeout=1500):
    p = subprocess.run(['lake', 'build'] + targets, cwd=LEAN, capture_output=True, text=True, timeout=timeout)
    outp = p.stdout + p.stderr
    failed = []
    for m in re.finditer(r'^error: (\S+?\.lean):(\d+):(\d+): (.*)$', outp, re.M):
        failed.append(dict(file=m.group(1), line=int(m.group(2)), msg=m.group(4)[:200]))
    mods = re.findall(r'✖ \[\d+/\d+\] (?:Building|Built) (\S+)', outp)
    return dict(ok=p.returncode == 0, errors=failed, failed_modules=mods, log=outp[-3000:])


# ------------------------------------------------------------------------------------------- 3 audit
def audit(prop, thms):
    """-> {'ok', 'axioms': {thm: [..]}, 'bad': [...], 'forbidden': [...]}"""
    mods = sorted({t['module'] for t in thms})
    src = ''.join('import %s\n' % m for m in mods) + ''.join('#print axioms %s\n' % t['name'] for t in thms)
    os.makedirs(os.path.join(LEAN, 'G3D', 'Audit'), exist_ok=True)
    path = os.path.join(LEAN, 'G3D', 'Audit', prop + '.lean')
    with open(path, 'w') as f:
        f.write(src)
    p = subprocess.run(['lake', 'env', 'lean', path], cwd=LEAN, capture_output=True, text=True, timeout=900)
    outp = p.stdout + p.stderr
    axioms = {}
    for m in re.finditer(r"'(\S+?)' depends on axioms: \[([^\]]*)\]", outp.replace('\n', ' ')):
        axioms[m.group(1)] = [a.strip() for a in m.group(2).split(',') if a.strip()]
    for m in re.finditer(r"'(\S+?)' does not depend on any axioms", outp):
        axioms[m.group(1)] = []
    bad = []
    for t in thms:
        if t['name'] not in axioms:
            bad.append('%s: not found / not checked' % t['name'])
        else:
            extra = set(axioms[t['name']]) - ALLOWED_AXIOMS
            if extra:
                bad.append('%s: axioms %s' % (t['name'], sorted(extra)))
    forb = grep_forbidden()
    return dict(ok=(p.returncode == 0 and not bad and not forb), axioms=axioms, bad=bad, forbidden=forb, log=outp[-1500:])


def strip_comments(text):
    # remove /- ... -/ (nested) and -- comments
    out = []
    i, depth, n = 0, 0, len(text)
    while i < n:
        if text.startswith('/-', i):
            depth += 1
            i += 2
        elif depth and text.startswith('-/', i):
            depth -= 1
            i += 2
        elif depth:
            if text[i] == '\n':
                out.append('\n')
            i += 1
        elif text.startswith('--', i):
            while i < n and text[i] != '\n':
                i += 1
        else:
            out.append(text[i])
            i += 1
    return ''.join(out)


def grep_forbidden():
    hits = []
    for root, _, files in os.walk(os.path.join(LEAN, 'G3D')):
        if '/Audit' in root:
            continue
        for fn in files:
            if fn.endswith('.lean'):
                path = os.path.join(root, fn)
                text = strip_comments(open(path).read())
                if fn.startswith('Extracted') or '/Extracted' in root:
                    text = text.replace('#exit_extraction_failed', '')
                for ln, line in enumerate(text.split('\n'), 1):
                    if FORBIDDEN.search(line):
                        hits.append('%s:%d: %s' % (os.path.relpath(path, LEAN), ln, line.strip()[:80]))
    return hits


# ------------------------------------------------------------------------------------------- model driver
def model_lines(lines, timeout=3600):
    """pipe protocol lines through the compiled model driver; one output line per input line"""
    if not lines:
        return []
    p = subprocess.run([MODEL_EXE], input='\n'.join(lines) + '\n', capture_output=True, text=True, timeout=timeout)
    outl = p.stdout.split('\n')
    if outl and outl[-1] == '':
        outl.pop()
    if len(outl) != len(lines):
        raise RuntimeError('model driver returned %d lines for %d inputs (rc=%s, stderr=%s)' % (len(outl), len(lines), p.returncode, p.stderr[-300:]))
    return outl


# ------------------------------------------------------------------------------------------- context
class Ctx:
    def __init__(self, prop, tier, seed):
        self.prop, self.tier, self.seed = prop, tier, seed
        self.rng = random.Random(seed * 1000003 + int(prop[1:]))
        self.t0 = time.time()
        self.stats = collections.Counter()
        self.dist = collections.Counter()
        self.samples = []
        self.violations = []       # dicts: {key, what, case}
        self.evaluations = 0
        self.distinct = set()
        self.notes = []
        self.broken = []           # broken obligations (strings)
        self.extra = {}

    def quick(self):
        return self.tier == 'quick'

    def n(self, quick, thorough):
        return quick if self.tier == 'quick' else thorough

    def count(self, case_key, nontrivial=True):
        self.evaluations += 1
        if nontrivial:
            self.distinct.add(hashlib.blake2b(repr(case_key).encode(), digest_size=8).digest())

    def sample(self, s, every=1):
        if len(self.samples) < 8:
            self.samples.append(s)

    def violation(self, key, what, case):
        self.violations.append(dict(key=key, what=what, case=case))


def load_known():
    p = os.path.join(VERIF, 'known_findings.json')
    if not os.path.exists(p):
        return []
    return json.load(open(p))['findings']


def write_evidence(ctx, thms, discharged, assumptions, checker_cmd, trusted, nviol):
    os.makedirs(os.path.join(VERIF, 'evidence'), exist_ok=True)
    ev = dict(
        property_id=ctx.prop, tier=ctx.tier, seed=ctx.seed, level='proof',
        coverage=dict(
            obligations=len(thms) + len(ctx.extra.get('extracted_obligations', [])),
            discharged=discharged,
            checker_cmd=checker_cmd,
            trusted_base=trusted,
            theorems=[dict(name=t['name'], status=t.get('status', 'full'), says=t.get('says', '')) for t in thms],
            unproved_kernels=ctx.extra.get('unproved', []),
            evaluations=ctx.evaluations,
            distinct_nontrivial=len(ctx.distinct),
            rule=ctx.extra.get('rule', ''),
            samples=ctx.samples or ['(no correspondence cases in this run)'],
            distribution=dict(sorted(ctx.dist.items())),
            stats=dict(sorted(ctx.stats.items())),
            broken_obligations=ctx.broken,
            extraction=ctx.extra.get('extraction', {}),
            leanchecker=ctx.extra.get('leanchecker', 'thorough tier only'),
            axioms_per_theorem=ctx.extra.get('axioms', {}),
        ),
        assumptions=assumptions,
        wall_s=round(time.time() - ctx.t0, 2),
        violations=nviol,
    )
    with open(os.path.join(VERIF, 'evidence', ctx.prop + '.json'), 'w') as f:
        json.dump(ev, f, indent=1, default=str)
    return ev


def run(prop, tier, seed, replay=None):
    mod = importlib.import_module('harness.props.' + prop)
    ctx = Ctx(prop, tier, seed)
    spec = theorems_for(prop)
    if replay:
        # bring the extracted files and the model driver in line with the CURRENT tree before replaying
        with Lock():
            if spec.get('extractors'):
                run_extractors(spec['extractors'])
            lake_build(['g3dmodel'])
        case = json.load(open(replay))
        if isinstance(case.get('case'), dict) and case['case'].get('kind') == 'implementation-exception':
            # the exception escaped the harness of a whole run: the replay is that run (same seed and tier)
            return run(prop, case['case'].get('tier', 'quick'), int(case['case'].get('seed', seed)))
        return mod.replay(ctx, case)
    thms = spec['theorems']
    extractors = spec.get('extractors', [])
    targets = sorted({t['module'] for t in thms}) + ['g3dmodel']
    discharged = 0
    with Lock():
        if extractors:
            ex = run_extractors(extractors)
            ctx.extra['extraction'] = {k: dict(ok=v['ok'], changed=v['changed']) for k, v in ex.items()}
            for k, v in ex.items():
                if not v['ok']:
                    ctx.broken.append('extractor %s failed: %s' % (k, v['error'].strip().split('\n')[-1] if v['error'] else ''))
        b = lake_build(targets)
        if not b['ok']:
            for e in b['errors'][:10]:
                ctx.broken.append('build: %s:%d %s' % (e['file'], e['line'], e['msg']))
            if not b['errors']:
                ctx.broken.append('build failed: ' + b['log'][-400:])
        a = audit(prop, thms) if b['ok'] else dict(ok=False, axioms={}, bad=['not audited: build failed'], forbidden=[])
        if b['ok']:
            discharged = sum(1 for t in thms if t['name'] in a['axioms'] and not (set(a['axioms'][t['name']]) - ALLOWED_AXIOMS))
            discharged += len(ctx.extra.get('extracted_obligations', []))
            for x in a['bad']:
                ctx.broken.append('audit: ' + x)
            for x in a['forbidden']:
                ctx.broken.append('forbidden construct: ' + x)
        if b['ok'] and tier == 'thorough':
            # independent re-check of the compiled property modules by the toolchain's external checker
            mods = sorted({t['module'] for t in thms})
            lc = subprocess.run(['lake', 'env', 'leanchecker'] + mods, cwd=LEAN, capture_output=True, text=True, timeout=3600)
            ctx.extra['leanchecker'] = dict(modules=mods, exit=lc.returncode, tail=(lc.stdout + lc.stderr)[-300:])
            if lc.returncode != 0:
                ctx.broken.append('leanchecker rejected %s: %s' % (mods, (lc.stdout + lc.stderr)[-200:]))
        model_ok = os.path.exists(MODEL_EXE)
    if not model_ok:
        log('INFRA: model driver missing after build')
        log(b['log'][-1500:])
        return 2
    ctx.extra['axioms'] = a.get('axioms', {})
    # 4 correspondence (+5: the property module widens its search when obligations broke)
    try:
        mod.run(ctx)
    except Exception as e:
        tb = traceback.format_exc() + (getattr(e.__cause__, 'tb', '') or '')
        src = os.path.join(os.environ.get('G3D_SRC', '/repo'), 'Geometry3D') + os.sep
        frames = [l.strip() for l in tb.split('\n') if l.strip().startswith('File "' + src)]
        if not frames:
            traceback.print_exc()
            log('INFRA: harness error in %s' % prop)
            return 2
        # the exception was raised INSIDE the implementation at a place where the harness has no handler, i.e. where the
        # unchanged tree never raises for the inputs of this run (construction / observation of a valid case): a behaviour
        # change, reported with the raising frame and the traceback (the run's seed replays it)
        where = frames[-1].replace(src, 'Geometry3D/')
        ctx.violation('implementation raised ' + type(e).__name__ + ' at ' + where.split(', line')[0] + where[where.find(', in'):],
                      'the implementation raised %s: %s (%s) while the harness constructed / observed a case of this run; the unchanged tree raises nothing here' % (type(e).__name__, str(e)[:120], where),
                      dict(kind='implementation-exception', seed=seed, tier=tier, traceback=tb[-3000:]))
    if ctx.broken and not ctx.violations and hasattr(mod, 'search'):
        try:
            mod.search(ctx)
        except Exception:
            traceback.print_exc()
    # 6 verdict
    known = [k for k in load_known() if k['property'] == prop and k['status'] == 'known']
    os.makedirs(os.path.join(OUT, 'replays'), exist_ok=True)
    reported = 0
    seen_keys = set()
    for v in ctx.violations:
        kf = next((k for k in known if k['match'] == v['key']), None)
        if kf:
            if v['key'] not in seen_keys:
                log('KNOWN-FINDING: property=%s %s' % (prop, kf['what']))
            seen_keys.add(v['key'])
            continue
        if v['key'] in seen_keys:
            continue
        seen_keys.add(v['key'])
        reported += 1
        if reported <= 5:
            path = os.path.join(OUT, 'replays', '%s-%d-%d.json' % (prop, seed, reported))
            with open(path, 'w') as f:
                json.dump(dict(property=prop, what=v['what'], key=v['key'], case=v['case'], broken_obligations=ctx.broken,
                               replay_cmd='./check %s --replay %s' % (prop, path)), f, indent=1, default=str)
            log('VIOLATION property=%s replay=%s' % (prop, path))
            log('  ' + v['what'][:300])
    if ctx.broken and reported == 0:
        path = os.path.join(OUT, 'replays', '%s-%d-obligation.json' % (prop, seed))
        with open(path, 'w') as f:
            json.dump(dict(property=prop, what='proof obligation / correspondence no longer checks; the search found no failing input',
                           broken_obligations=ctx.broken, searched=dict(evaluations=ctx.evaluations, stats=dict(ctx.stats))), f, indent=1)
        for x in ctx.broken[:8]:
            log('  broken: ' + x)
        log('VIOLATION property=%s replay=%s no-failing-input-found' % (prop, path))
        reported += 1
    trusted = ['Lean 4.33.0 kernel', 'Mathlib v4.33.0 (tactics, ordered fields)', 'axioms: propext, Classical.choice, Quot.sound only (audited this run)',
               'hand-written Lean model tied to /repo by this run\'s correspondence' + (' and by translators ' + ','.join(extractors) if extractors else ''),
               'harness/*.py generators, float->exact conversion, comparators']
    write_evidence(ctx, thms, discharged, spec.get('assumptions', []), 'cd lean && lake build %s && lake env lean G3D/Audit/%s.lean' % (' '.join(targets), prop), trusted, reported)
    log('%s %s seed=%d: theorems %d/%d, cases %d (distinct %d), broken %d, violations %d, %.1fs' % (
        prop, tier, seed, discharged, len(thms) + len(ctx.extra.get('extracted_obligations', [])), ctx.evaluations, len(ctx.distinct), len(ctx.broken), reported, time.time() - ctx.t0))
    for k, v in sorted(ctx.stats.items()):
        log('   %-40s %d' % (k, v))
    return 1 if reported else 0


def main(argv):
    if len(argv) < 2:
        log('usage: check <Cxx> <quick|thorough> | check <Cxx> --replay <file>')
        return 2
    prop = argv[0]
    seed = int(os.environ.get('VERIF_SEED', '1') or 1)
    if argv[1] == '--replay':
        return run(prop, 'quick', seed, replay=argv[2])
    tier = argv[1]
    try:
        return run(prop, tier, seed)
    except subprocess.TimeoutExpired as e:
        log('INFRA: timeout %s' % e)
        return 2


# ------------------------------------------------------------------------------------------- parallel evaluation
class CaseTimeout(BaseException):
    """not an Exception subclass on purpose: impl.call must not swallow it"""
    pass


def _alarm(signum, frame):
    raise CaseTimeout()


def guarded(f, *a, seconds=30):
    """run f(*a) with a wall-clock limit (a hang is an observable outcome, not a stuck check).  On an overloaded
    machine a process can be descheduled for a long time, so a first timeout is retried once with a six times larger
    limit before it counts."""
    import signal
    old = signal.signal(signal.SIGALRM, _alarm)
    try:
        for limit in (seconds, 6 * seconds):
            signal.alarm(limit)
            try:
                return f(*a)
            except CaseTimeout:
                if limit != seconds:
                    return ('exc', 'CaseTimeout', 'no answer within %d s (twice)' % limit)
            finally:
                signal.alarm(0)
    finally:
        signal.signal(signal.SIGALRM, old)


def _with_chunk_index(fn, a):
    # the generator mode (default / axis / tiny lattice) of a chunk is a function of its index, so that every run of every
    # check has chunks in each mode (harness/gen.py reads gen.CHUNK_INDEX)
    from . import gen
    gen.CHUNK_INDEX = a[2] if isinstance(a, tuple) and len(a) == 3 and isinstance(a[2], int) else None
    try:
        return fn(a)
    finally:
        gen.CHUNK_INDEX = None


def pmap(fn, args_list, procs=None):
    import multiprocessing as mp, functools
    procs = procs or min(16, os.cpu_count() or 4, max(1, len(args_list)))
    f = functools.partial(_with_chunk_index, fn)
    if procs <= 1 or len(args_list) <= 1:
        return [f(a) for a in args_list]
    with mp.get_context('fork').Pool(procs) as pool:
        return pool.map(f, args_list, chunksize=1)


def chunks(ctx, total, per=250):
    """[(seed_i, n_i)] deterministic in ctx.seed"""
    out = []
    i = 0
    while total > 0:
        n = min(per, total)
        out.append((ctx.rng.randrange(1 << 62), n, i))
        total -= n
        i += 1
    return out
