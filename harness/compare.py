"""Denotational comparison of two result descriptors (an implementation result whose floats were
taken exactly, against an exact model / oracle result).  Same point set within `tol`
(absolute, coordinates are O(10)); never compares representations."""
import math
from . import exact as E

TOL = 1e-7


def f3(p): return (float(p[0]), float(p[1]), float(p[2]))
def _sub(u, v): return (u[0] - v[0], u[1] - v[1], u[2] - v[2])
def _dot(u, v): return u[0] * v[0] + u[1] * v[1] + u[2] * v[2]
def _cross(u, v): return (u[1] * v[2] - u[2] * v[1], u[2] * v[0] - u[0] * v[2], u[0] * v[1] - u[1] * v[0])
def _n(u): return math.sqrt(_dot(u, u))


def peq(p, q, tol=TOL):
    return abs(p[0] - q[0]) <= tol and abs(p[1] - q[1]) <= tol and abs(p[2] - q[2]) <= tol


def setsame(A, B, tol=TOL):
    A = [f3(p) for p in A]
    B = [f3(p) for p in B]
    return all(any(peq(a, b, tol) for b in B) for a in A) and all(any(peq(a, b, tol) for a in A) for b in B)


def dir_par(u, v, tol=TOL):
    u, v = f3(u), f3(v)
    nu, nv = _n(u), _n(v)
    if nu == 0 or nv == 0:
        return False
    return _n(_cross(u, v)) <= tol * nu * nv


def on_line(p, sv, dv, tol=TOL):
    p, sv, dv = f3(p), f3(sv), f3(dv)
    w = _sub(p, sv)
    return _n(_cross(w, dv)) <= tol * _n(dv) * max(1.0, _n(w))


def verts(o):
    if o[0] == 'G':
        return list(dict.fromkeys(o[1]))
    if o[0] == 'B':
        if len(o) > 1 and o[1] and isinstance(o[1][0], list):
            return list(dict.fromkeys(p for f in o[1] for p in f))
        return list(o[1])
    raise ValueError(o[0])


def same_den(a, b, tol=TOL):
    """a, b: descriptors ('none',) | P | L | PL | S | H | G | B (B either face lists or vertex list)"""
    if a[0] != b[0]:
        return False
    k = a[0]
    if k == 'none':
        return True
    if k == 'P':
        return peq(f3(a[1]), f3(b[1]), tol)
    if k == 'S':
        return setsame([a[1], a[2]], [b[1], b[2]], tol)
    if k == 'H':
        return peq(f3(a[1]), f3(b[1]), tol) and dir_par(a[2], b[2], tol) and _dot(f3(a[2]), f3(b[2])) > 0
    if k == 'L':
        return dir_par(a[2], b[2], tol) and on_line(a[1], b[1], b[2], tol)
    if k == 'PL':
        n = f3(b[2])
        return dir_par(a[2], b[2], tol) and abs(_dot(_sub(f3(a[1]), f3(b[1])), n)) <= tol * _n(n) * 10
    if k in ('G', 'B'):
        return setsame(verts(a), verts(b), tol)
    return False


def parse_model(line):
    """one output line of g3dmodel -> descriptor (Fractions) | ('err', text)"""
    from fractions import Fraction as F
    t = line.split()
    if not t:
        return ('err', 'empty')
    if t[0] == 'none':
        return ('none',)
    if t[0] in ('err', 'ctor-error', 'bad-op'):
        return ('err', line.strip())

    def v(i):
        return (F(t[i]), F(t[i + 1]), F(t[i + 2]))
    if t[0] == 'P':
        return ('P', v(1))
    if t[0] in ('S', 'L', 'H', 'PL'):
        return (t[0], v(1), v(4))
    if t[0] == 'G':
        k = int(t[1])
        return ('G', [v(2 + 3 * i) for i in range(k)])
    if t[0] == 'B':
        k = int(t[1])
        d = ('B', [v(2 + 3 * i) for i in range(k)])
        rest = t[2 + 3 * k:]
        extra = {}
        for i in range(0, len(rest) - 1, 2):
            extra[rest[i]] = F(rest[i + 1])
        return d + (extra,)
    return ('err', 'unparsed ' + line.strip())
