"""Admission filter of the properties' common quantifier:

  (i)  every incidence among the features of the operands (and the points the library derives from
       them: line/plane and line/line hits, result vertices) is exact or violated by a relative
       margin > 1e-3;
  (ii) no hashed quantity (point coordinates, unit directions / normals, plane offsets) lies within
       5e-13 of a decimal rounding boundary of the 10-digit hash.

Conservative: it may reject more than strictly necessary, never admits a tolerance-band case on
purpose.  It is evaluated on every disagreement before it is reported (a disagreement on a
non-admitted input is dropped and counted) and on a random sample of all cases (to report the
rejected fraction)."""
from fractions import Fraction as F
from decimal import Decimal, getcontext
from . import exact as E
from .exact import sub, dot, cross, nsq, is0, add, mul

getcontext().prec = 50
MARGIN = F(1, 1000)
MARGIN2 = MARGIN * MARGIN
HASH_BAND = F(5, 10 ** 13)


def features(o):
    """-> points, lines [(p,d)], planes [(p,n)], ranges [('seg',a,b)|('ray',p,v)]"""
    k = o[0]
    if k == 'P':
        return [o[1]], [], [], []
    if k == 'L':
        return [o[1]], [(o[1], o[2])], [], []
    if k == 'PL':
        return [o[1]], [], [(o[1], o[2])], []
    if k == 'S':
        return [o[1], o[2]], [(o[1], sub(o[2], o[1]))], [], [('seg', o[1], o[2])]
    if k == 'H':
        return [o[1]], [(o[1], o[2])], [], [('ray', o[1], o[2])]
    if k == 'G':
        cyc = E.vertices_of(o)
        n = E.polygon_normal(cyc)
        edges = [(cyc[i], cyc[(i + 1) % len(cyc)]) for i in range(len(cyc))]
        return list(cyc), [(a, sub(b, a)) for a, b in edges], [(cyc[0], n)], [('seg', a, b) for a, b in edges]
    if k == 'B':
        vs = E.vertices_of(o)
        fs = E.hull_faces(vs)
        es = {}
        for f in fs:
            for i in range(len(f)):
                a, b = f[i], f[(i + 1) % len(f)]
                es[(min(a, b), max(a, b))] = 1
        return list(vs), [(a, sub(b, a)) for a, b in es], [(f[0], E.polygon_normal(f)) for f in fs], [('seg', a, b) for a, b in es]
    if k == 'none':
        return [], [], [], []
    raise ValueError(k)


def _exact_or_margin_sin2(u, v):
    """sin^2 of the angle between u and v is 0 or > MARGIN^2"""
    c = nsq(cross(u, v))
    if c == 0:
        return True
    return c > MARGIN2 * nsq(u) * nsq(v)


def _near_boundary(x):
    """x within HASH_BAND of a rounding boundary of round(x, 10)"""
    y = x * 10 ** 10
    fr = y - (y.numerator // y.denominator)
    return abs(fr - F(1, 2)) <= HASH_BAND * 10 ** 10


def _sqrt(x):
    return Decimal(x.numerator).sqrt() / Decimal(x.denominator).sqrt() if x >= 0 else None


def _near_boundary_dec(d):
    y = d * Decimal(10 ** 10)
    fr = y - y.to_integral_value(rounding='ROUND_FLOOR')
    return abs(fr - Decimal('0.5')) <= Decimal('0.005')


def hashed_ok(points, dirs, planes):
    for p in points:
        for c in p:
            if _near_boundary(c):
                return False, 'coordinate on a rounding boundary'
    for d in dirs:
        ln = _sqrt(nsq(d))
        for c in d:
            if c != 0 and _near_boundary_dec(Decimal(c.numerator) / Decimal(c.denominator) / ln):
                return False, 'unit direction on a rounding boundary'
    for p, n in planes:
        ln = _sqrt(nsq(n))
        for c in n:
            if c != 0 and _near_boundary_dec(Decimal(c.numerator) / Decimal(c.denominator) / ln):
                return False, 'unit normal on a rounding boundary'
        off = dot(n, p)
        if off != 0 and _near_boundary_dec(Decimal(off.numerator) / Decimal(off.denominator) / ln):
            return False, 'plane offset on a rounding boundary'
    return True, ''


def admitted(objs, extra_points=(), derive=True):
    pts, lines, planes, ranges = [], [], [], []
    for o in objs:
        a, b, c, d = features(o)
        pts += a
        lines += b
        planes += c
        ranges += d
    pts = list(dict.fromkeys(pts + list(extra_points)))
    lines = list(dict.fromkeys(lines))
    planes = list(dict.fromkeys(planes))
    # directions: parallel or clearly not
    for i, (p, d) in enumerate(lines):
        for (q, e) in lines[i + 1:]:
            if not _exact_or_margin_sin2(d, e):
                return False, 'nearly parallel lines'
        for (q, n) in planes:
            s = dot(d, n)
            if s != 0 and s * s <= MARGIN2 * nsq(d) * nsq(n):
                return False, 'line nearly parallel to plane'
    for i, (p, n) in enumerate(planes):
        for (q, m) in planes[i + 1:]:
            if not _exact_or_margin_sin2(n, m):
                return False, 'nearly parallel planes'
    derived = []
    if derive:
        for (p, d) in lines:
            for (q, n) in planes:
                s = dot(d, n)
                if s != 0:
                    derived.append(add(p, mul(dot(n, sub(q, p)) / s, d)))
        for i, (p, d) in enumerate(lines):
            for (q, e) in lines[i + 1:]:
                c = cross(d, e)
                if is0(c):
                    continue
                w = sub(q, p)
                t = dot(w, c)
                if t == 0:
                    derived.append(add(p, mul(dot(cross(w, e), c) / nsq(c), d)))
                elif t * t <= MARGIN2 * nsq(c) * max(nsq(w), F(1)):
                    return False, 'nearly intersecting lines'
    allp = list(dict.fromkeys(pts + derived))
    # point / point
    scale = F(1)
    for i, p in enumerate(allp):
        for q in allp[i + 1:]:
            d2 = nsq(sub(p, q))
            if d2 != 0 and d2 <= MARGIN2 * scale:
                return False, 'nearly coincident points'
    for x in allp:
        for (p, d) in lines:
            w = sub(x, p)
            c = nsq(cross(w, d))
            if c != 0 and c <= MARGIN2 * nsq(d) * max(nsq(w), F(1)):
                return False, 'point nearly on line'
        for (p, n) in planes:
            s = dot(sub(x, p), n)
            if s != 0 and s * s <= MARGIN2 * nsq(n):
                return False, 'point nearly on plane'
        for r in ranges:
            if r[0] == 'seg':
                a, b = r[1], r[2]
                v = sub(b, a)
                t = dot(sub(x, a), v) / nsq(v)
                if (t != 0 and abs(t) <= MARGIN) or (t != 1 and abs(t - 1) <= MARGIN):
                    return False, 'point nearly at a segment end'
            else:
                p, v = r[1], r[2]
                t = dot(sub(x, p), v) / nsq(v)
                if t != 0 and abs(t) <= MARGIN:
                    return False, 'point nearly at a half-line start'
    ok, why = hashed_ok(allp, [d for _, d in lines], planes)
    if not ok:
        return False, why
    return True, ''
