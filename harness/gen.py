"""Seeded generators of exact lattice objects in constructed relative positions.

Every random choice comes from the `random.Random` handed in (derived from
VERIF_SEED), so a case replays exactly.  Generators return descriptors of
harness/exact.py plus a `cls` string naming the position class for the
distribution report."""
import itertools, os
from fractions import Fraction as F
from . import exact as E
from .exact import add, sub, mul, neg, dot, cross, nsq, is0, V

FLATS = ['P', 'L', 'PL', 'S', 'H']
ALL7 = ['P', 'L', 'PL', 'S', 'H', 'G', 'B']
TS = [F(-2), F(-1), F(-1, 2), F(0), F(1, 2), F(1), F(3, 2), F(2), F(3)]
CHUNK_INDEX = None      # set by core.pmap around every chunk: the generator mode is a function of the chunk index


class Gen:
    def __init__(self, rng, span=4):
        self.R = rng
        self.span = span
        # axis mode: integer coordinates and axis-aligned frames (what users of Parallelepiped / unit shapes build; defect D12
        # lived there).  One chunk of cases in six runs in this mode; G3D_GEN_AXIS=1 / 0 forces it on / off.
        env = os.environ.get('G3D_GEN_AXIS')
        ci = CHUNK_INDEX
        self.axis = (env == '1') if env in ('0', '1') else ((ci % 6 == 2) if ci is not None else (rng.random() < 1 / 6))
        # tiny mode (one chunk in eight; implies axis mode): every coordinate comes from {-2, -1, 0, 1}.  In this corner of the
        # lattice distinct points / planes / polygons with EQUAL CPython hashes abound (hash(-1) == hash(-2)), and coincidences of
        # every kind are frequent; all operations of one chunk run in one process, so state keyed by hashes or leaking between
        # calls meets its collision.  G3D_GEN_TINY=1 / 0 forces it on / off.
        env = os.environ.get('G3D_GEN_TINY')
        self.tiny = (env == '1') if env in ('0', '1') else ((ci % 8 == 5) if ci is not None else (rng.random() < 1 / 8))
        if self.tiny:
            self.axis = True

    def _axis_vecs(self):
        """two different signed, scaled coordinate axes"""
        R = self.R
        a, b = R.sample(range(3), 2)
        u = tuple(F(R.choice([1, 1, 2, -1, -2])) if t == a else F(0) for t in range(3))
        v = tuple(F(R.choice([1, 1, 2, -1, -2])) if t == b else F(0) for t in range(3))
        return u, v

    # ---------------------------------------------------------------- primitives
    def coord(self, span=None):
        span = span or self.span
        if self.tiny:
            return F(self.R.choice([-2, -1, -1, 0, 1]))
        if self.axis:
            return F(self.R.randint(-min(span, 3), min(span, 3)))
        den = self.R.choice([1, 1, 1, 2, 4])
        return F(self.R.randint(-span * den, span * den), den)

    def pt(self, span=None):
        return (self.coord(span), self.coord(span), self.coord(span))

    def ipt(self, lo=-3, hi=3):
        if self.tiny:
            lo, hi = max(lo, -2), min(hi, 1)
        return V(self.R.randint(lo, hi), self.R.randint(lo, hi), self.R.randint(lo, hi))

    def dirv(self, m=3):
        if self.tiny:
            m = 1
        while True:
            v = V(self.R.randint(-m, m), self.R.randint(-m, m), self.R.randint(-m, m))
            if not is0(v):
                if self.R.random() < 0.25:
                    v = mul(self.R.choice([F(1, 2), F(2), F(-1), F(1, 4)]), v)
                return v

    def scale(self):
        return self.R.choice([F(1), F(1), F(-1), F(2), F(-2), F(1, 2), F(-1, 2), F(3)])

    def frame(self):
        """o, d, n with n ⟂ d, w = n × d : the line (o,d) lies in the plane (o,n)"""
        while True:
            o = self.pt(3)
            d = self.dirv(2)
            e = self.dirv(2)
            if self.axis:
                d, e = self._axis_vecs()
            n = cross(d, e)
            if is0(n):
                continue
            w = cross(n, d)
            if max(abs(c) for c in n) > 8:
                continue
            return dict(o=o, d=d, n=n, w=w)

    def poly_frame(self):
        """small lattice frame for coplanar polygons: o, d, v span the plane"""
        while True:
            o, u, v = self.ipt(-2, 2), self.ipt(-2, 2), self.ipt(-2, 2)
            if self.axis:
                u, v = self._axis_vecs()
            n = cross(u, v)
            if not is0(n):
                return dict(o=o, d=u, v=v, n=n, w=cross(n, u))

    def on_line(self, fr):
        return add(fr['o'], mul(self.R.choice(TS), fr['d']))

    def in_plane(self, fr):
        # keep coordinates small: use d and a second in-plane lattice vector e' = w reduced
        w = fr['w']
        g = max(abs(c) for c in w)
        w = mul(F(1, int(g)) if g > 2 and g == int(g) else F(1), w)
        return add(fr['o'], add(mul(self.R.choice(TS), fr['d']), mul(self.R.choice([F(-1), F(-1, 2), F(0), F(0), F(1, 2), F(1)]), w)))

    def dir_in_plane(self, fr):
        while True:
            a, b = self.R.randint(-2, 2), self.R.randint(-2, 2)
            v = add(mul(F(a), fr['d']), mul(F(b, 1), self._wred(fr)))
            if not is0(v):
                return v

    def _wred(self, fr):
        w = fr['w']
        nz = [abs(c) for c in w if c != 0]
        g = min(nz)
        ww = mul(1 / g, w)
        if all(c.denominator in (1, 2, 4) for c in ww) and max(abs(c) for c in ww) <= 4:
            return ww
        return w

    # ---------------------------------------------------------------- flats in a mode relative to a frame
    MODES = ['free', 'on_line', 'in_plane', 'through_o', 'parallel', 'at_o', 'near_parallel']
    WEIGHTS = [10, 28, 22, 18, 12, 10, 6]

    def flat(self, kind, fr, mode):
        R = self.R
        if mode == 'free':
            p = self.pt()
            d = self.dirv()
            q = self.pt()
        elif mode == 'on_line':
            p = self.on_line(fr)
            d = mul(self.scale(), fr['d'])
            q = self.on_line(fr)
        elif mode == 'in_plane':
            p = self.in_plane(fr)
            d = self.dir_in_plane(fr)
            q = self.in_plane(fr)
        elif mode == 'through_o':
            d = self.dirv()
            if R.random() < 0.5:
                p = fr['o']
            else:
                p = add(fr['o'], mul(R.choice([F(-1), F(-2), F(-1, 2), F(1)]), d))
            q = add(fr['o'], mul(R.choice([F(0), F(0), F(1), F(2)]), d)) if R.random() < 0.7 else self.pt()
        elif mode == 'parallel':
            p = self.pt()
            d = mul(self.scale(), fr['d'])
            q = add(p, mul(R.choice([F(1), F(2), F(-1), F(1, 2)]), fr['d']))
        elif mode == 'at_o':      # starts / ends exactly at the frame point, along the frame line (back-to-back, end-to-end)
            p = fr['o']
            d = mul(self.scale(), fr['d'])
            q = add(p, mul(R.choice([F(1), F(2), F(-1), F(-1, 2), F(3)]), fr['d']))
        elif mode == 'near_parallel':
            # within a few degrees of the frame line (resp. of the frame normal, for planes) but clearly not parallel
            # (relative margin > 1e-3): 4 d + e with e a quarter / half axis step -- small-angle shortcuts, ill-conditioned solves
            base = fr['n'] if kind == 'PL' else fr['d']
            while True:
                e = [F(0)] * 3
                e[R.randrange(3)] = R.choice([F(1, 4), F(1, 2), F(-1, 4), F(-1, 2), F(1)])
                d = add(mul(F(4), base), tuple(e))
                if not is0(cross(d, base)):
                    break
            p = self.on_line(fr) if R.random() < 0.5 else self.pt()
            q = add(p, mul(R.choice([F(1, 4), F(1, 2), F(-1, 4)]), d))
        else:
            raise ValueError(mode)
        if kind == 'P':
            return ('P', p)
        if kind == 'L':
            return ('L', p, d)
        if kind == 'H':
            return ('H', p, d)
        if kind == 'S':
            if q == p:
                q = add(p, d)
            if mode in ('on_line', 'parallel', 'at_o', 'near_parallel') or (mode == 'through_o' and par(sub(q, p), d)) or mode == 'in_plane' or mode == 'free':
                return ('S', p, q)
            return ('S', p, add(p, d))
        if kind == 'PL':
            if mode == 'free':
                return ('PL', p, d)
            if mode == 'on_line':     # plane containing the frame line
                while True:
                    n = cross(fr['d'], self.dirv(2))
                    if not is0(n):
                        return ('PL', p, n)
            if mode == 'in_plane':    # the frame plane itself (other point, rescaled normal)
                return ('PL', p, mul(self.scale(), fr['n']))
            if mode == 'through_o':
                return ('PL', fr['o'], d)
            if mode == 'at_o':        # plane through the frame point, normal along the frame line (perpendicular to it)
                return ('PL', fr['o'], d)
            if mode == 'near_parallel':
                return ('PL', p, d)
            if mode == 'parallel':    # parallel to the frame plane, or to the frame line
                if R.random() < 0.5:
                    return ('PL', p, mul(self.scale(), fr['n']))
                while True:
                    n = cross(fr['d'], self.dirv(2))
                    if not is0(n):
                        return ('PL', p, n)
        raise ValueError(kind)

    def flat_pair(self, ka, kb):
        fr = self.frame()
        ma = self.R.choices(self.MODES, self.WEIGHTS)[0]
        mb = self.R.choices(self.MODES, self.WEIGHTS)[0]
        A, B = self.flat(ka, fr, ma), self.flat(kb, fr, mb)
        cls = ma + '/' + mb
        pc = 0.15
        if A[0] == 'PL' and B[0] == 'PL' and par(A[2], B[2]):
            pc = 0.6          # parallel planes: mirror images through the origin are a classic special case
        if self.R.random() < pc:
            A, B = self.centre(A, B)
            cls += '+centred'
        return A, B, cls

    def collinear_catalogue(self, fr=None):
        """bounded-exhaustive catalogue of 1-D objects on one oblique lattice line: every interval relation of
        Line / HalfLine / Segment pairs (disjoint, touching end to end, back to back, overlapping, nested, equal,
        same / opposite directions).  Returns a list of (A, B, cls)."""
        fr = fr or self.frame()
        o, d = fr['o'], fr['d']
        pt = lambda t: add(o, mul(F(t), d))
        objs = [('L', pt(0), d), ('L', pt(1), mul(F(-2), d))]
        for t in (0, 1, 2):
            objs.append(('H', pt(t), d))
            objs.append(('H', pt(t), mul(F(-1, 2), d)))
        for a, b in ((0, 1), (1, 2), (0, 2), (1, 3), (2, 3), (0, 3), (2, 1)):
            objs.append(('S', pt(a), pt(b)))
        objs.append(('P', pt(1)))
        objs.append(('P', pt(5)))
        out = []
        for A in objs:
            for B in objs:
                out.append((A, B, 'catalogue-collinear'))
        return out

    def centre(self, A, B):
        """translate both operands so that the origin is the midpoint of their base points (origin-symmetric
        configurations: mirror-image parallel planes, offsets d and -d, ...); keeps denominators <= 4 when possible"""
        pa, pb = A[1], B[1]
        m = tuple((x + y) / 2 for x, y in zip(pa, pb))
        if any(c.denominator > 8 for c in m):
            m = pa
        t = neg(m)
        return translate_obj(A, t), translate_obj(B, t)

    # ---------------------------------------------------------------- bodies
    def polygon(self, nmin=3, nmax=6, fr=None):
        """convex lattice polygon (vertex cycle, CCW about cross(u,v)) on a random lattice plane"""
        R = self.R
        if fr is None and R.random() < 0.05:
            tw = self.twin_polygon(nmin, nmax)
            if tw is not None:
                return tw
        if fr is None and self.tiny and nmin <= 4 and R.random() < 0.12:
            # a polygon in a coordinate plane at -1 / -2 whose other coordinates are 0 or 1: translating it by one unit along the
            # axis gives a different polygon with the SAME library hash
            ax = R.randrange(3)
            cv = R.choice([-1, -2])
            sq = [(0, 0), (1, 0), (1, 1), (0, 1)]
            if nmin <= 3 and R.random() < 0.4:
                del sq[R.randrange(4)]
            pts = []
            for u_, w_ in sq:
                q = [F(u_), F(w_)]
                q.insert(ax, F(cv))
                pts.append(tuple(q))
            return pts
        for _ in range(1000):
            if fr is None:
                o = self.ipt(-3, 3)
                if self.axis or R.random() < 0.25:      # axis-aligned carrier plane (x, y or z constant): axis-specific code paths
                    ax = R.sample(range(3), 2)
                    u = tuple(F(R.choice([1, 2, -1])) if t == ax[0] else F(0) for t in range(3))
                    v = tuple(F(R.choice([1, 2, -1])) if t == ax[1] else F(0) for t in range(3))
                else:
                    u = self.ipt(-2, 2)
                    v = self.ipt(-2, 2)
            else:
                o, u, v = fr['o'], fr['d'], fr.get('v') or self._wred(fr)
            if is0(cross(u, v)):
                continue
            k = R.randint(nmin, nmax + 2)
            ab = list({(R.randint(-2, 1), R.randint(-2, 1)) for _ in range(k)}) if self.tiny else list({(R.randint(-3, 3), R.randint(-3, 3)) for _ in range(k)})
            h = E._hull2(ab)
            if len(h) < max(3, nmin) or len(h) > nmax:
                continue
            den = R.choice([1, 1, 2])
            pts = [add(o, add(mul(F(a, den), u), mul(F(b, den), v))) for a, b in h]
            if max(abs(c) for p in pts for c in p) > 9:
                continue
            return pts
        raise RuntimeError('polygon generation failed')

    def twin_polygon(self, nmin=3, nmax=6):
        """a polygon in a coordinate plane two of whose vertices differ only by -1 <-> -2 in one coordinate, the other
        coordinates being 0 or 1: CPython hashes them alike (hash(-1) == hash(-2)); anything keyed by hashes merges them"""
        R = self.R
        ax, b = R.sample(range(3), 2)
        c = 3 - ax - b
        u, cv = R.randint(0, 1), R.randint(0, 1)
        tpls = [[(-2, u), (-1, u), (-2 + R.choice([0, 1, 2]), u + R.choice([1, 2, 3]))],
                [(-2, u), (-1, u), (0, u + 2), (-3, u + 2)],
                [(-2, u), (-1, u), (0, u + 1), (-1, u + 3), (-3, u + 1)],
                [(-2, u), (-1, u), (1, u + 1), (1, u + 2), (-1, u + 3), (-3, u + 2)]]
        tpls = [t for t in tpls if nmin <= len(t) <= nmax]
        if not tpls:
            return None
        t = R.choice(tpls)
        h = E._hull2(t)
        if len(h) != len(t):
            return None
        pts = []
        for a_, b_ in h:
            p = [F(0)] * 3
            p[ax], p[b], p[c] = F(a_), F(b_), F(cv)
            pts.append(tuple(p))
        return pts

    def hull_body(self, nmin=4, nmax=8, lo=-3, hi=3, den=1):
        R = self.R
        while True:
            if self.tiny:
                lo, hi, den = -2, 1, 1
            pts = [tuple(F(R.randint(lo * den, hi * den), den) for _ in range(3)) for _ in range(R.randint(nmin, nmax))]
            fs = E.hull_faces(pts)
            if fs is None:
                continue
            nv = len({p for f in fs for p in f})
            if nv < nmin or nv > 10 or max(len(f) for f in fs) > 6:
                continue
            return fs

    def special_body(self):
        """affine lattice image of a box / prism / pyramid / octahedron / tetrahedron"""
        R = self.R
        kind = R.choice(['box', 'prism', 'pyramid', 'octa', 'tetra'])
        if R.random() < (0.25 if self.tiny else 0.08):
            # the unit cube [-2,-1] x [0,1]^2 (up to the axis): its opposite faces, and four pairs of its vertices, hash alike
            ax = R.randrange(3)
            vs = []
            for c in (-2, -1):
                for u in (0, 1):
                    for w in (0, 1):
                        p = [F(u), F(w)]
                        p.insert(ax, F(c))
                        vs.append(tuple(p))
            fs = E.hull_faces(vs)
            if fs is not None:
                return fs, 'twin-cube'
        if kind == 'box':
            base = [V(x, y, z) for x in (0, 1) for y in (0, 1) for z in (0, 1)]
        elif kind == 'prism':
            base = [V(0, 0, 0), V(2, 0, 0), V(0, 2, 0), V(0, 0, 1), V(2, 0, 1), V(0, 2, 1)]
        elif kind == 'pyramid':
            base = [V(0, 0, 0), V(2, 0, 0), V(2, 2, 0), V(0, 2, 0), V(1, 1, 2)]
        elif kind == 'octa':
            base = [V(1, 0, 0), V(-1, 0, 0), V(0, 1, 0), V(0, -1, 0), V(0, 0, 1), V(0, 0, -1)]
        else:
            base = [V(0, 0, 0), V(2, 0, 0), V(0, 2, 0), V(0, 0, 2)]
        while True:
            M = [self.ipt(-2, 2) for _ in range(3)]
            if self.axis:
                perm = R.sample(range(3), 3)
                M = [tuple(F(R.choice([1, 1, 2, -1])) if t == perm[j] else F(0) for t in range(3)) for j in range(3)]
            elif R.random() < 0.15:
                # diagonal frame: face normals such as (1,-1,0), (1,1,0) -- two components of EQUAL magnitude (ties in anything that
                # picks a dominant / first significant component), opposite or equal sign
                perm = R.sample(range(3), 3)
                rows = [(1, 1, 0), (1, -1, 0), (0, 0, R.choice([1, 2]))]
                sg = R.choice([1, -1])
                M = [tuple(F(sg * rows[j][perm.index(t)]) for t in range(3)) for j in range(3)]
            if E.det3(*M) == 0:
                continue
            t = self.ipt(-2, 2)
            k = F(1) if self.tiny else R.choice([F(1), F(1), F(1, 2), F(2)])
            pts = [add(t, mul(k, add(add(mul(p[0], M[0]), mul(p[1], M[1])), mul(p[2], M[2])))) for p in base]
            if max(abs(c) for p in pts for c in p) > 9:
                continue
            fs = E.hull_faces(pts)
            if fs is None or max(len(f) for f in fs) > 6:
                continue
            return fs, kind

    def body(self):
        if self.R.random() < 0.5:
            return self.hull_body(), 'hull'
        return self.special_body()

    def shuffled_polygon(self, cyc):
        pts = list(cyc)
        self.R.shuffle(pts)
        if self.R.random() < 0.3:
            pts.insert(self.R.randrange(len(pts) + 1), self.R.choice(pts))
        return ('G', pts)

    def shuffled_body(self, faces):
        fs = []
        for f in faces:
            g = list(f)
            self.R.shuffle(g)
            fs.append(g)
        self.R.shuffle(fs)
        return ('B', fs)

    # ---------------------------------------------------------------- points relative to a body
    def comb(self, pts, interior=True):
        """rational convex combination; interior=True gives strictly positive weights"""
        R = self.R
        ws = [R.randint(1 if interior else 0, 3) for _ in pts]
        if sum(ws) == 0:
            ws[0] = 1
        s = sum(ws)
        x = E.ZERO3
        for w, p in zip(ws, pts):
            x = add(x, mul(F(w, s), p))
        return x

    def body_feature_point(self, K):
        """(point, class) on/in/around the bounded object K"""
        R = self.R
        vs = E.vertices_of(K)
        if K[0] == 'B':
            faces = E.hull_faces(vs)
        else:
            faces = [vs]
        c = R.random()
        if c < 0.2:
            return R.choice(vs), 'vertex'
        if c < 0.4:
            f = R.choice(faces)
            i = R.randrange(len(f))
            a, b = f[i], f[(i + 1) % len(f)]
            t = R.choice([F(1, 2), F(1, 4), F(3, 4), F(1, 3)])
            return add(a, mul(t, sub(b, a))), 'edge'
        if c < 0.6:
            f = R.choice(faces)
            return self.comb(f), 'face'
        if c < 0.8:
            return self.comb(vs), 'interior'
        # outside: beyond a face / beside the polygon
        f = R.choice(faces)
        n = E.polygon_normal(f)
        if K[0] == 'B':
            cen = E.mean(vs)
            if dot(n, sub(cen, f[0])) > 0:
                n = neg(n)
            g = max(abs(x) for x in n)
            return add(self.comb(f), mul(R.choice([F(1, 2), F(1), F(1, 4)]) / g, n)), 'outside'
        if R.random() < 0.5:    # off the plane
            g = max(abs(x) for x in n)
            return add(self.comb(f), mul(R.choice([F(1, 2), F(-1), F(1, 4)]) / g, n)), 'outside-offplane'
        cen = E.mean(f)
        v = R.choice(f)
        return add(cen, mul(R.choice([F(2), F(3), F(3, 2)]), sub(v, cen))), 'outside-inplane'

    def flat_vs_body(self, kind, K):
        """a flat of type `kind` in a constructed position relative to the bounded object K"""
        R = self.R
        p, c1 = self.body_feature_point(K)
        q, c2 = self.body_feature_point(K)
        tries = 0
        while q == p and tries < 20:
            q, c2 = self.body_feature_point(K)
            tries += 1
        if q == p:
            q = add(p, self.dirv())
        cls = c1 + '-' + c2
        if kind == 'P':
            return ('P', p), c1
        if kind == 'L':
            return ('L', p, mul(self.scale(), sub(q, p))), cls
        if kind == 'S':
            return ('S', p, q), cls
        if kind == 'H':
            d = sub(q, p)
            if R.random() < 0.3:
                d = neg(d)
                cls += '-away'
            return ('H', p, d), cls
        if kind == 'PL':
            vs = E.vertices_of(K)
            faces = E.hull_faces(vs) if K[0] == 'B' else [vs]
            c = R.random()
            if c < 0.25:       # face plane
                f = R.choice(faces)
                return ('PL', R.choice(f), mul(self.scale(), E.polygon_normal(f))), 'faceplane'
            if c < 0.45:       # supporting plane in a random direction (touches vertex / edge / face)
                n = self.dirv(2)
                v = max(vs, key=lambda x: dot(n, x))
                return ('PL', v, n), 'support'
            if c < 0.65:       # through an edge
                f = R.choice(faces)
                i = R.randrange(len(f))
                a, b = f[i], f[(i + 1) % len(f)]
                while True:
                    n = cross(sub(b, a), self.dirv(2))
                    if not is0(n):
                        return ('PL', a, n), 'through-edge'
            return ('PL', p, self.dirv(2)), 'through-' + c1
        raise ValueError(kind)


def par(u, v):
    return is0(cross(u, v))


def _twin_ok(p, ax):
    return p[ax] in (-1, -2) and all(p[j] in (0, 1) for j in range(3) if j != ax)


def _twin_pt(p, ax):
    q = list(p)
    q[ax] = F(-3) - p[ax]         # -1 <-> -2
    return tuple(q)


def hash_twin(o):
    """a DIFFERENT object with the same library hash, when the -1 <-> -2 rule gives one (CPython: hash(-1) == hash(-2), also for
    floats, and so for products with 0 / 1): a Point / Vector with one coordinate in {-1, -2} and the others in {0, 1}; a Segment
    with such an end point; an axis-aligned Plane at offset -1 / -2; a ConvexPolygon lying in such a plane with all other
    coordinates in {0, 1} (translated as a whole).  None when the rule does not apply."""
    k = o[0]
    if k in ('P', 'V'):
        for ax in range(3):
            if _twin_ok(o[1], ax):
                return (k, _twin_pt(o[1], ax))
        return None
    if k == 'S':
        for i in (1, 2):
            for ax in range(3):
                if _twin_ok(o[i], ax) and _twin_pt(o[i], ax) != o[3 - i]:
                    q = list(o)
                    q[i] = _twin_pt(o[i], ax)
                    return tuple(q)
        return None
    if k == 'PL':
        n = o[2]
        nz = [j for j in range(3) if n[j] != 0]
        if len(nz) != 1:
            return None
        ax = nz[0]
        off = o[1][ax]            # the plane is  x_ax = off ; its canonical normal is +e_ax and its canonical offset is off
        if off not in (-1, -2):
            return None
        q = list(o[1])
        q[ax] = F(-3) - off
        return ('PL', tuple(q), n)
    if k == 'G':
        pts = list(o[1])
        # one vertex moved within the carrier plane (the plane, and so its hash, stays the same; the vertex hashes collide)
        if len(set(pts)) == len(pts) >= 3:
            n = E.polygon_normal(pts) if len(pts) >= 3 else None
            if n is not None and not is0(n):
                drop = max(range(3), key=lambda j: abs(n[j]))
                keep = [j for j in range(3) if j != drop]
                for i, p in enumerate(pts):
                    for ax in range(3):
                        if n[ax] == 0 and _twin_ok(p, ax) and _twin_pt(p, ax) not in pts:
                            q = pts[:i] + [_twin_pt(p, ax)] + pts[i + 1:]
                            pr = [(x[keep[0]], x[keep[1]]) for x in q]
                            if len(set(pr)) == len(pr) and len(E._hull2(pr)) == len(pr):
                                return ('G', q)
        for ax in range(3):
            c = pts[0][ax]
            if c in (-1, -2) and all(p[ax] == c and all(p[j] in (0, 1) for j in range(3) if j != ax) for p in pts):
                return ('G', [_twin_pt(p, ax) for p in pts])
        return None
    return None


def translation_twin(o):
    """translation t such that o - t is a hash twin of o (so that the object can ARRIVE at o by an in-place move that leaves
    its hash unchanged); None when there is none"""
    tw = hash_twin(o)
    if tw is None or o[0] not in ('P', 'PL', 'G'):
        return None
    t = sub(o[1][0], tw[1][0]) if o[0] == 'G' else sub(o[1], tw[1])
    return t if translate_obj(tw, t) == o or (o[0] == 'G' and [add(p, t) for p in tw[1]] == list(o[1])) else None


def translate_obj(o, t):
    k = o[0]
    if k == 'P':
        return ('P', add(o[1], t))
    if k in ('L', 'PL', 'H'):
        return (k, add(o[1], t), o[2])
    if k == 'S':
        return ('S', add(o[1], t), add(o[2], t))
    if k == 'G':
        return ('G', [add(p, t) for p in o[1]])
    if k == 'B':
        return ('B', [[add(p, t) for p in f] for f in o[1]])
    return o


# -------------------------------------------------------------------- protocol rendering
def fr(x):
    x = F(x)
    return str(x.numerator) if x.denominator == 1 else '%d/%d' % (x.numerator, x.denominator)


def tv(p):
    return ' '.join(fr(c) for c in p)


def tok(o):
    k = o[0]
    if k == 'P':
        return 'P ' + tv(o[1])
    if k in ('L', 'PL', 'S', 'H'):
        return '%s %s %s' % (k, tv(o[1]), tv(o[2]))
    if k == 'G':
        return 'G %d %s' % (len(o[1]), ' '.join(tv(p) for p in o[1]))
    if k == 'B':
        return 'B %d %s' % (len(o[1]), ' '.join('%d %s' % (len(f), ' '.join(tv(p) for p in f)) for f in o[1]))
    raise ValueError(k)


def jsonable(o):
    """descriptor -> nested lists of 'n/d' strings (for replay files)"""
    if isinstance(o, F):
        return fr(o)
    if isinstance(o, (tuple, list)):
        return [jsonable(x) for x in o]
    return o


def from_jsonable(j):
    if isinstance(j, str):
        try:
            return F(j)
        except (ValueError, ZeroDivisionError):
            return j
    if isinstance(j, list):
        if j and isinstance(j[0], str) and j[0] in ('P', 'L', 'PL', 'S', 'H', 'G', 'B') :
            k = j[0]
            if k == 'G':
                return ('G', [tuple(F(c) for c in p) for p in j[1]])
            if k == 'B':
                return ('B', [[tuple(F(c) for c in p) for p in f] for f in j[1]])
            return (k,) + tuple(tuple(F(c) for c in p) for p in j[1:])
        return [from_jsonable(x) for x in j]
    return j
