"""The real library, in process.  /repo (or $G3D_SRC) is put first on sys.path,
so the checks exercise the CURRENT working tree; no bytecode is written."""
import os, sys, logging
sys.dont_write_bytecode = True
SRC = os.environ.get('G3D_SRC', '/repo')
if SRC not in sys.path:
    sys.path.insert(0, SRC)
from fractions import Fraction as F
import Geometry3D as G
from Geometry3D import (Point, Vector, Line, Plane, Segment, HalfLine, ConvexPolygon, ConvexPolyhedron,
                        intersection, distance, angle, parallel, orthogonal, volume, origin)
logging.disable(logging.CRITICAL)
assert os.path.realpath(G.__file__).startswith(os.path.realpath(SRC)), (G.__file__, SRC)

KIND = {Point: 'P', Line: 'L', Plane: 'PL', Segment: 'S', HalfLine: 'H', ConvexPolygon: 'G', ConvexPolyhedron: 'B'}


def fl(p):
    return tuple(float(c) for c in p)


def Pt(p): return Point(*fl(p))
def Vc(p): return Vector(*fl(p))


def _alt_form(o):
    """one object in five is built through an ALTERNATIVE constructor form (deterministic in the descriptor): Plane(a, b, c, d),
    Line(p, q), Segment(p, vector), HalfLine(p, q) -- the same object by the property's own definition of the forms (C17)"""
    import hashlib
    return int(hashlib.blake2b(repr(o).encode(), digest_size=2).hexdigest(), 16) % 5 == 0


def build(o):
    k = o[0]
    if k == 'P':
        return Pt(o[1])
    if k in ('L', 'PL', 'S', 'H') and _alt_form(o):
        a, b = tuple(F(c) for c in o[1]), tuple(F(c) for c in o[2])
        if k == 'PL':
            d = sum(x * y for x, y in zip(a, b))
            return Plane(float(b[0]), float(b[1]), float(b[2]), float(d))
        if k == 'L':
            return Line(Pt(a), Pt(tuple(x + y for x, y in zip(a, b))))
        if k == 'H':
            return HalfLine(Pt(a), Pt(tuple(x + y for x, y in zip(a, b))))
        return Segment(Pt(a), Vc(tuple(y - x for x, y in zip(a, b))))
    if k == 'L':
        return Line(Pt(o[1]), Vc(o[2]))
    if k == 'PL':
        return Plane(Pt(o[1]), Vc(o[2]))
    if k == 'S':
        return Segment(Pt(o[1]), Pt(o[2]))
    if k == 'H':
        return HalfLine(Pt(o[1]), Vc(o[2]))
    if k == 'G':
        return ConvexPolygon(tuple(Pt(p) for p in o[1]))
    if k == 'B':
        return ConvexPolyhedron(tuple(ConvexPolygon(tuple(Pt(p) for p in f)) for f in o[1]))
    if k == 'V':
        return Vc(o[1])
    if k == 'N':
        return None
    raise ValueError(k)


def prime(x, partner=None):
    """queries that make the library compute (and possibly cache) derived state of x: hash, ==, edges, measures; with a partner,
    also every binary query of the pair in both orders and both call forms"""
    probe = Line(Point(0.25, -0.5, 0.75), Vector(1.0, 2.0, 3.0))
    if partner is not None:
        for f in (lambda: intersection(x, partner), lambda: intersection(partner, x), lambda: x.intersection(partner), lambda: partner.intersection(x),
                  lambda: distance(x, partner), lambda: distance(partner, x), lambda: x.distance(partner), lambda: x in partner, lambda: partner in x,
                  lambda: x == partner, lambda: partner == x, lambda: angle(x, partner), lambda: parallel(x, partner), lambda: orthogonal(partner, x)):
            try:
                f()
            except Exception:
                pass
    for f in (lambda: hash(x), lambda: x == x, lambda: x.segments(), lambda: x.length(), lambda: x.area(), lambda: x.volume(),
              lambda: x.points[0] in x, lambda: repr(x), lambda: x.general_form(), lambda: x.parametric(), lambda: x.point_normal(),
              lambda: intersection(probe, x), lambda: intersection(x, Plane(Point(0.5, 0.25, -1.0), Vector(2.0, -1.0, 1.0))),
              lambda: distance(Point(0.5, 1.5, -2.5), x), lambda: Point(0.5, 1.5, -2.5) in x):
        try:
            f()
        except Exception:
            pass


def build_via_move(o, t, primed=True, partner=None):
    """the same object, arrived at by an in-place move: built at o - t, queried once (so that any derived state is
    populated), then moved by t in place; the RECEIVER is returned.  Lattice t: the translated coordinates are exact floats."""
    from . import gen
    x = build(gen.translate_obj(o, tuple(-c for c in t)))
    if primed:
        prime(x, partner)
    x.move(Vc(t))
    return x


def build_with_decoy(o, t):
    """the same object, built from Point instances that ALSO serve to build unrelated objects (decoys) which are then
    moved in place: a constructor that keeps references to its arguments instead of copying them lets the decoy drag the
    object along (or lets the object's construction corrupt the caller's Points)."""
    k = o[0]
    far = Pt((41.0, -37.0, 29.0))
    decoys = []
    if k == 'P':
        x = Pt(o[1])
        decoys += _try(lambda: Segment(x, far))
    elif k == 'S':
        p, q = Pt(o[1]), Pt(o[2])
        x = Segment(p, q)
        decoys += _try(lambda: Segment(p, far)) + _try(lambda: HalfLine(q, far))
    elif k in ('L', 'H', 'PL'):
        p = Pt(o[1])
        x = {'L': Line, 'H': HalfLine, 'PL': Plane}[k](p, Vc(o[2]))
        decoys += _try(lambda: Segment(p, far))
    elif k == 'G':
        pts = [Pt(q) for q in o[1]]
        x = ConvexPolygon(tuple(pts))
        decoys += _try(lambda: Segment(pts[0], far))
        if len(pts) > 2:
            decoys += _try(lambda: Segment(pts[-1], pts[1]))
    elif k == 'B':
        polys = [ConvexPolygon(tuple(Pt(q) for q in f)) for f in o[1]]
        x = ConvexPolyhedron(tuple(polys))
        decoys.append(polys[0])
        decoys.append(polys[-1])
    else:
        return build(o)
    for d in decoys:
        d.move(Vc(t))
    return x


def _try(f):
    try:
        return [f()]
    except Exception:
        return []


def ex(x):
    """exact value of a float / int / Fraction"""
    if isinstance(x, F):
        return x
    if isinstance(x, int):
        return F(x)
    return F(*float(x).as_integer_ratio())


def pex(p):
    return (ex(p.x), ex(p.y), ex(p.z))


def vex(v):
    return (ex(v[0]), ex(v[1]), ex(v[2]))


def describe(r):
    """library object -> descriptor carrying the exact values of its floats"""
    if r is None:
        return ('none',)
    if isinstance(r, ConvexPolyhedron):
        return ('B', [[pex(p) for p in f.points] for f in r.convex_polygons])
    if isinstance(r, ConvexPolygon):
        return ('G', [pex(p) for p in r.points])
    if isinstance(r, Segment):
        return ('S', pex(r.start_point), pex(r.end_point))
    if isinstance(r, HalfLine):
        return ('H', pex(r.point), vex(r.vector))
    if isinstance(r, Line):
        return ('L', vex(r.sv), vex(r.dv))
    if isinstance(r, Plane):
        return ('PL', pex(r.p), vex(r.n))
    if isinstance(r, Point):
        return ('P', pex(r))
    if isinstance(r, Vector):
        return ('V', vex(r))
    return ('other', type(r).__name__, repr(r)[:80])


def call(f, *a):
    """-> ('ok', value) | ('exc', ExceptionClassName, message)"""
    try:
        return ('ok', f(*a))
    except RecursionError as e:
        return ('exc', 'RecursionError', '')
    except Exception as e:
        return ('exc', type(e).__name__, str(e)[:100])


def snapshot(o, depth=0):
    """full attribute snapshot of a library object (for purity checks)"""
    if isinstance(o, (int, float, str, bool, type(None), F)):
        return o
    if isinstance(o, (list, tuple)):
        return tuple(snapshot(x, depth + 1) for x in o)
    if isinstance(o, (set, frozenset)):
        return ('set',) + tuple(sorted((snapshot(x, depth + 1) for x in o), key=repr))
    if isinstance(o, Vector):
        return ('Vector', tuple(o._v))
    if hasattr(o, '__dict__'):
        return (type(o).__name__,) + tuple((k, snapshot(v, depth + 1)) for k, v in sorted(vars(o).items()))
    return repr(o)
