#!/usr/bin/env python3
"""Confirms a seeded change and records which checks detect it.

usage: eval_seed.py <seeded dir> [check ids ...]      (default: the property of meta.json plus all other checks)

1. in a throw-away worktree of /repo: apply patch.diff, run the pinned test suite (must pass) and demo.py (must exit 1);
   without the patch demo.py must exit 0;
2. apply the patch to /repo itself, run the requested checks at the quick tier, undo the patch (git checkout -- .);
3. write the outcome into meta.json (`confirmed`, `detected_by`, `missed_by`, per-check first VIOLATION line)."""
import json, os, subprocess, sys, shutil, tempfile, time

V = os.path.dirname(os.path.dirname(os.path.abspath(__file__)))
REPO = '/repo'


def sh(cmd, cwd=None, timeout=3600):
    p = subprocess.run(cmd, shell=True, cwd=cwd, capture_output=True, text=True, timeout=timeout)
    return p.returncode, p.stdout + p.stderr


def main():
    d = os.path.abspath(sys.argv[1])
    meta_p = os.path.join(d, 'meta.json')
    meta = json.load(open(meta_p))
    patch = os.path.join(d, 'patch.diff')
    demo = os.path.join(d, 'demo.py')
    wt = tempfile.mkdtemp(prefix='ev_', dir='/tmp')
    os.rmdir(wt)
    rc, out = sh('git -C %s worktree add -q --detach %s HEAD' % (REPO, wt))
    assert rc == 0, out
    try:
        shutil.copy(demo, os.path.join(wt, 'demo.py'))
        rc0, out0 = sh('/venv/bin/python -B demo.py', cwd=wt, timeout=600)
        rc, out = sh('git apply %s' % patch, cwd=wt)
        assert rc == 0, 'patch does not apply: ' + out
        rct, outt = sh('/venv/bin/python -B -m pytest -q -p no:cacheprovider 2>&1 | tail -1', cwd=wt, timeout=900)
        rc1, out1 = sh('/venv/bin/python -B demo.py', cwd=wt, timeout=600)
        where = sh('/venv/bin/python -B -c "import Geometry3D; print(Geometry3D.__file__)"', cwd=wt)[1].strip()
    finally:
        sh('git -C %s worktree remove --force %s' % (REPO, wt))
    confirmed = (rc0 == 0 and rc1 != 0 and '87 passed' in outt and where.startswith(wt))
    meta['confirmed'] = dict(ok=confirmed, tests_with_change=outt.strip(), demo_with_change='exit %d: %s' % (rc1, out1.strip().split('\n')[-1][:200] if out1.strip() else ''),
                             demo_without_change='exit %d' % rc0, imported_from_worktree=where.startswith(wt))
    print('confirmed:', confirmed, '|', outt.strip(), '| demo with change exit', rc1, '| without', rc0)
    if not confirmed:
        json.dump(meta, open(meta_p, 'w'), indent=1)
        return 1
    allc = [c['property_id'] for c in json.load(open(os.path.join(V, 'MANIFEST.json')))['checks']]
    checks = sys.argv[2:] or ([meta['property']] + [c for c in allc if c != meta['property']])
    rc, out = sh('git -C %s status --porcelain' % REPO)
    assert out.strip() == '', '/repo is not clean: ' + out
    rc, out = sh('git -C %s apply %s' % (REPO, patch))
    assert rc == 0, out
    res = {}
    try:
        for c in checks:
            t0 = time.time()
            rc, out = sh('./check %s quick' % c, cwd=V, timeout=3600)
            viol = [l for l in out.split('\n') if l.startswith('VIOLATION')]
            detail = ''
            lines = out.split('\n')
            for i, l in enumerate(lines):
                if l.startswith('VIOLATION') and i + 1 < len(lines):
                    detail = lines[i + 1].strip()[:300]
                    break
            res[c] = dict(exit=rc, violations=len(viol), first=(viol[0] if viol else ''), detail=detail, no_failing_input=any('no-failing-input-found' in v for v in viol), wall_s=round(time.time() - t0, 1))
            print('  %s exit %d  %s' % (c, rc, (viol[0][:80] + ' … ' + detail[:120]) if viol else ''))
    finally:
        sh('git -C %s checkout -- .' % REPO)
        sh('tools/restore_extracted.sh', cwd=V)      # the extracted Lean files must describe the clean tree again
    meta['ran'] = 'applied to /repo with `git -C /repo apply`, ran `./check <id> quick` for %s, then `git -C /repo checkout -- .`' % ', '.join(checks)
    if sys.argv[2:] and isinstance(meta.get('check_results'), dict):
        # a partial re-evaluation (e.g. after a check was strengthened): keep the earlier results of the other checks
        prev = {c: r for c, r in meta['check_results'].items() if c in checks}
        if prev:
            meta.setdefault('earlier_results', {}).update({c: dict(exit=r.get('exit'), note='before the check was strengthened') for c, r in prev.items() if r.get('exit') != res[c]['exit']})
        merged = dict(meta['check_results'])
        merged.update(res)
        res = merged
    meta['detected_by'] = [c for c, r in res.items() if r['exit'] == 1]
    meta['missed_by'] = [c for c, r in res.items() if r['exit'] == 0]
    meta['infra'] = [c for c, r in res.items() if r['exit'] not in (0, 1)]
    meta['check_results'] = res
    json.dump(meta, open(meta_p, 'w'), indent=1)
    print('detected by', meta['detected_by'], '| own property detected:', meta['property'] in meta['detected_by'])
    return 0


if __name__ == '__main__':
    sys.exit(main())
