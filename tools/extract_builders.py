#!/venv/bin/python
"""Translator T6 `builders`: the shape builders of Geometry3D/geometry/polygon.py and polyhedron.py
        get_circle_point_list, Circle, Parallelogram            (polygon.py)
        Parallelepiped, Sphere, Cylinder, Cone                  (polyhedron.py, classmethods of ConvexPolyhedron)
->  lean/G3D/Extracted/Builders.lean
usage: extract_builders.py <repo>       (Lean source on stdout)

Every Python function becomes ONE typed Lean definition `b_<python name>`, translated statement by statement from the
Python AST.  The value of a builder is the LIST OF POINT TUPLES it passes to the constructors, BEFORE any constructor
runs: `ConvexPolygon(t)` / `cls(t)` (polygon.py) is read as the tuple `t : List R3` itself, `cls(tuple(cpg_list))`
(polyhedron.py) as the list of those tuples `List (List R3)`, in the order appended.  What the constructors then do
(duplicate removal, angular sort of a polygon's points, the orientation flips of ConvexPolyhedron.__init__, the
Euler / normal checks) is NOT part of this translation: it stays in the hand model (G3D/Model/Builders.lean:
`flipCycle`, `…Flips`, `…Oriented`, `parallelogramPts`).  G3D/Proofs/BuildersTie.lean proves the definitions below
equal to the hand-transcribed skeletons `circleFaces / cylinderFaces / coneFaces / sphereFaces / parallelepiped…`
placed on the real vertices.

Typing (Python is untyped; the table PARAMS fixes the reading of the parameters, everything else is inferred):
    N natural (sizes, indices)   R real (floats)   P Point, V Vector (both `R3`)   L t list / tuple of t

  statement                                 Lean (`do` in PyE = Except String; a loop whose body cannot raise is a pure `foldl`)
  ----------------------------------------  ----------------------------------------------------------------------
  x = e                                     let x := ⟦e⟧          (a later assignment shadows)
  xs.append(e)        (xs a local list)     let xs := xs ++ [⟦e⟧]
  if c: A [elif/else: B]  (+ rest)          if ⟦c⟧ then ⟦A⟧ else ⟦B⟧   when no branch falls through / nothing follows;
                                            `if c: <raise>` + rest  →  if ⟦c⟧ then throw .. else ⟦rest⟧;
                                            otherwise  let (x, ..) ← if ⟦c⟧ then do ⟦A⟧; pure (x, ..) else ..   where x, .. are
                                            the variables assigned in every falling-through branch (or declared before)
  for i in range(a[, b]): A                 let s ← (List.range ⟦a⟧ | List.range' ⟦a⟧ (⟦b⟧ - ⟦a⟧)).foldlM (fun s i => do ⟦A⟧; pure s') s
                                            s = the tuple of the variables declared before the loop and assigned in it;
                                            variables first assigned inside the loop are local to one iteration
  return e                                  pure ⟦e⟧
  raise ValueError(..) / TypeError(..)      throw "ValueError" / throw "TypeError"
  import .. / docstring                     dropped

  expression                                Lean
  ----------------------------------------  ----------------------------------------------------------------------
  3 (N context) / 2 (R context)             3 / (2 : ℝ)               N used as R: ((e : ℕ) : ℝ)
  math.pi, math.cos(e), math.sin(e)         Real.pi, Real.cos ⟦e⟧, Real.sin ⟦e⟧
  a + b, a - b, a * b, a % b  (N)           the same on ℕ (truncated subtraction: see the header of the generated file)
  a / b                                     real division (true division of Python 3)
  V * R, R * V, V * N                       R3.smul ⟦R⟧ ⟦V⟧          -V : R3.smul (-1) ⟦V⟧   (`Vector.__neg__` = self * -1)
  V + V, V - V, V * V, a.cross(b)           R3.add, R3.sub, R3.dot, R3.cross
  v.length(), v.normalized(), a.angle(b)    vLength, vNormalized, vAngle     (G3D/Model/BuildersRt.lean)
  a.parallel(b)                             vParallel eps ⟦a⟧ ⟦b⟧     (the global get_eps() is the explicit first parameter `eps`)
  v.length == 0   (method NOT called)       False    (a bound method never equals an int)
  x_unit_vector() / y_.. / z_..             xUnit / yUnit / zUnit        SMALL_ANGLE : smallAngleR
  copy.deepcopy(p).move(v)[.move(w)]        R3.add (R3.add ⟦p⟧ ⟦v⟧) ⟦w⟧   (`.move` only on a fresh copy: on anything else it would
                                            mutate a shared Point — rejected)
  isinstance(x, Point|Vector)               True / False from the static type of x
  len(xs), xs[i]                            xs.length, xs.getD ⟦i⟧ default       (default: R3.zero / [])
  (a, b, c), [a, b]                         [⟦a⟧, ⟦b⟧, ⟦c⟧]           tuple(xs), list(xs): xs
  ConvexPolygon(t), cls(t)                  ⟦t⟧   (see above)
  a < b, <=, >, >=, ==, !=; and, or, not    <, ≤, >, ≥, =, ≠; ∧, ∨, ¬
  get_circle_point_list(..), Circle(..), Parallelogram(..)      (← b_<name> ..)   (keywords / defaults resolved by the callee's signature)

Anything else is an error for THAT function: instead of `b_<name>` the file contains
    def b_<name>_EXTRACTION_FAILED : String := "<function>: <what>"
(and likewise for every function that calls it); message on stderr, exit status 0.  Exit 1 only when a source file
cannot be read / parsed.  No line numbers in the output; the output depends on the two source files only."""
import ast, sys, os

POLYGON = 'Geometry3D/geometry/polygon.py'
POLYHEDRON = 'Geometry3D/geometry/polyhedron.py'
# (file, class or None, function, parameter types in order (after cls), result type)
LP = ('L', 'P')
LLP = ('L', LP)
FUNCS = [
    (POLYGON, None, 'get_circle_point_list', [('center', 'P'), ('normal', 'V'), ('radius', 'R'), ('n', 'N')], LP),
    (POLYGON, 'ConvexPolygon', 'Circle', [('center', 'P'), ('normal', 'V'), ('radius', 'R'), ('n', 'N')], LP),
    (POLYGON, 'ConvexPolygon', 'Parallelogram', [('base_point', 'P'), ('v1', 'V'), ('v2', 'V')], LP),
    (POLYHEDRON, 'ConvexPolyhedron', 'Parallelepiped', [('base_point', 'P'), ('v1', 'V'), ('v2', 'V'), ('v3', 'V')], LLP),
    (POLYHEDRON, 'ConvexPolyhedron', 'Sphere', [('center', 'P'), ('radius', 'R'), ('n1', 'N'), ('n2', 'N')], LLP),
    (POLYHEDRON, 'ConvexPolyhedron', 'Cylinder', [('circle_center', 'P'), ('radius', 'R'), ('height_vector', 'V'), ('n', 'N')], LLP),
    (POLYHEDRON, 'ConvexPolyhedron', 'Cone', [('circle_center', 'P'), ('radius', 'R'), ('height_vector', 'V'), ('n', 'N')], LLP),
]
SPEC = {f[2]: f for f in FUNCS}
CTOR_ARG = {'ConvexPolygon': LP, 'ConvexPolyhedron': LLP}
RESERVED = set('''at end from in then do open instance local show have fun let match with if else for return by where
    def theorem lemma example namespace section variable universe import export structure class inductive deriving
    extends mutual private protected partial unsafe noncomputable macro syntax notation infix infixl infixr prefix
    postfix attribute set_option using obtain calc suffices unless try catch finally throw break continue mut true
    false Type Prop Sort forall exists nomatch nofun this pure bind eps st
    R3 Real List Nat Except PyE True False xUnit yUnit zUnit smallAngleR vLength vNormalized vAngle vParallel vEq'''.split())


class Fail(Exception):
    pass


def lean_type(t):
    if t == 'N':
        return 'ℕ'
    if t == 'R':
        return 'ℝ'
    if t in ('P', 'V'):
        return 'R3'
    if isinstance(t, tuple) and t[0] == 'L':
        return 'List %s' % (lean_type(t[1]) if not isinstance(t[1], tuple) else '(%s)' % lean_type(t[1]))
    raise Fail('no Lean type for %r' % (t,))


def same(t, u):
    """P and V are both R3 but are kept apart for `isinstance`; lists compare structurally"""
    return t == u


def default_of(t):
    if t in ('P', 'V'):
        return 'R3.zero'
    if isinstance(t, tuple):
        return '[]'
    if t == 'N':
        return '0'
    if t == 'R':
        return '(0 : ℝ)'
    raise Fail('no default for %r' % (t,))


def mangle(n):
    if n in RESERVED or n.startswith('b_'):
        return n + "'"
    return n


def tuple_expr(names):
    names = [mangle(n) for n in names]
    return names[0] if len(names) == 1 else '(' + ', '.join(names) + ')'


def tuple_type(types):
    ts = [lean_type(t) for t in types]
    return ts[0] if len(ts) == 1 else ' × '.join('(%s)' % t if ' ' in t else t for t in ts)


def proj(k, n):
    """projection k of an n-tuple (right-nested pairs)"""
    if n == 1:
        return ''
    return '.2' * k + ('.1' if k < n - 1 else '')


class Fn:
    def __init__(self, eng, spec, node):
        self.eng, self.spec, self.node = eng, spec, node
        self.path, self.cls, self.name, self.params, self.ret = spec
        self.calls = []
        self.uses_eps = False
        self.loops = 0
        self.local_imports = {a.asname or a.name for n in ast.walk(node) if isinstance(n, ast.Import) for a in n.names}

    def fail(self, msg):
        raise Fail('%s: %s' % (self.name, msg))

    # ------------------------------------------------------------------ globals
    ORIGIN = {'x_unit_vector': 'utils.vector:x_unit_vector', 'y_unit_vector': 'utils.vector:y_unit_vector',
              'z_unit_vector': 'utils.vector:z_unit_vector', 'Point': 'point:Point', 'Vector': 'utils.vector:Vector'}

    def need_global(self, name):
        """`name` must be bound at module level of this function's file to the object the translation assumes"""
        b = self.eng.bound[self.path].get(name)
        if name in ('math', 'copy'):
            if b == 'import:' + name or name in self.local_imports:
                return
            self.fail('module `%s` is not imported' % name)
        if name == 'SMALL_ANGLE':
            if b is None and 'utils.constant' in self.eng.star[self.path]:
                return
            self.fail('SMALL_ANGLE is not the constant of utils/constant.py here')
        if name in self.ORIGIN:
            want = self.ORIGIN[name]
        elif name == 'ConvexPolygon' or name in SPEC:
            home = POLYGON if name == 'ConvexPolygon' else SPEC[name][0]
            if home == self.path:
                ok = b in ('def', 'class') or (b == 'assign' and name in SPEC and SPEC[name][1])
                if ok:
                    return
                self.fail('`%s` is not defined at module level of %s' % (name, self.path))
            want = os.path.basename(home)[:-3] + ':' + name
        else:
            self.fail('unknown global `%s`' % name)
        if b != want:
            self.fail('global `%s` is %s here, expected an import `%s`' % (name, b or 'unbound', want))

    # ------------------------------------------------------------------ analysis helpers
    def callee_name(self, c):
        """name of an extracted function called by `c`, or None"""
        if isinstance(c.func, ast.Name) and c.func.id in SPEC:
            return c.func.id
        if (isinstance(c.func, ast.Attribute) and isinstance(c.func.value, ast.Name) and c.func.value.id == 'cls'
                and self.cls and c.func.attr in SPEC and SPEC[c.func.attr][1] == self.cls):
            return c.func.attr
        return None

    def may_raise(self, stmts):
        for s in stmts:
            for n in ast.walk(s):
                if isinstance(n, ast.Raise):
                    return True
                if isinstance(n, ast.Call) and self.callee_name(n):
                    return True
        return False

    @staticmethod
    def falls_through(stmts):
        for s in stmts:
            if isinstance(s, (ast.Return, ast.Raise)):
                return False
            if isinstance(s, ast.If) and s.orelse and not Fn.falls_through(s.body) and not Fn.falls_through(s.orelse):
                return False
        return True

    def assigned(self, stmts):
        """variables assigned at this level or below, in first-occurrence order (appends count as assignments)"""
        out = []

        def add(n):
            if n not in out:
                out.append(n)
        for s in stmts:
            if isinstance(s, ast.Assign):
                for t in s.targets:
                    if isinstance(t, ast.Name):
                        add(t.id)
            elif isinstance(s, ast.Expr) and isinstance(s.value, ast.Call) and isinstance(s.value.func, ast.Attribute) \
                    and s.value.func.attr == 'append' and isinstance(s.value.func.value, ast.Name):
                add(s.value.func.value.id)
            elif isinstance(s, ast.If):
                for n in self.assigned(s.body) + self.assigned(s.orelse):
                    add(n)
            elif isinstance(s, ast.For):
                if isinstance(s.target, ast.Name):
                    add(s.target.id)
                for n in self.assigned(s.body):
                    add(n)
        return out

    def definitely_assigned(self, stmts):
        """variables assigned on every path that falls through `stmts`"""
        out = set()
        for s in stmts:
            if isinstance(s, ast.Assign):
                out |= {t.id for t in s.targets if isinstance(t, ast.Name)}
            elif isinstance(s, ast.If):
                a, b = self.falls_through(s.body), self.falls_through(s.orelse) if s.orelse else True
                da, db = self.definitely_assigned(s.body), self.definitely_assigned(s.orelse)
                if a and b:
                    out |= (da & db)
                elif a:
                    out |= da
                elif b:
                    out |= db
        return out

    # ------------------------------------------------------------------ expressions: (code, type, fresh)
    def to_real(self, code, t, node=None):
        if t == 'R':
            return code
        if t == 'N':
            if isinstance(node, ast.Constant):
                return '(%s : ℝ)' % code
            return '((%s : ℕ) : ℝ)' % code
        self.fail('a number was expected, found type %r' % (t,))

    def ex(self, e, env):
        code, t, fresh = self.ex3(e, env)
        return code, t

    def ex3(self, e, env):
        if isinstance(e, ast.Name):
            if e.id in env:
                return mangle(e.id), env[e.id], False
            if e.id == 'SMALL_ANGLE':
                self.need_global('SMALL_ANGLE')
                return 'smallAngleR', 'R', False
            self.fail('name `%s` is not bound here (possibly unbound in Python, or unknown global)' % e.id)
        if isinstance(e, ast.Constant):
            if isinstance(e.value, bool) or not isinstance(e.value, int) or e.value < 0:
                self.fail('unsupported constant %r' % (e.value,))
            return str(e.value), 'N', False
        if isinstance(e, ast.Attribute):
            if isinstance(e.value, ast.Name) and e.value.id == 'math' and e.attr == 'pi' and 'math' not in env:
                self.need_global('math')
                return 'Real.pi', 'R', False
            c, t = self.ex(e.value, env)
            if t == 'V' and e.attr in ('length', 'normalized', 'angle', 'parallel', 'cross'):
                return c, ('Method', e.attr), False
            self.fail('unsupported attribute .%s' % e.attr)
        if isinstance(e, (ast.Tuple, ast.List)):
            if not e.elts:
                self.fail('empty literal needs a type (only as the initial value of an appended list)')
            parts = [self.ex(x, env) for x in e.elts]
            t0 = parts[0][1]
            for _, t in parts:
                if not same(t, t0):
                    self.fail('heterogeneous tuple / list literal')
            return '[' + ', '.join(c for c, _ in parts) + ']', ('L', t0), True
        if isinstance(e, ast.UnaryOp):
            c, t = self.ex(e.operand, env)
            if isinstance(e.op, ast.USub):
                if t == 'R':
                    return '(-%s)' % c, 'R', False
                if t == 'V':
                    return '(R3.smul (-1) %s)' % c, 'V', True
                self.fail('unary minus on type %r' % (t,))
            if isinstance(e.op, ast.Not) and t == 'B':
                return '(¬ %s)' % c, 'B', False
            self.fail('unsupported unary operator')
        if isinstance(e, ast.BoolOp):
            parts = [self.ex(x, env) for x in e.values]
            for _, t in parts:
                if t != 'B':
                    self.fail('`and` / `or` on a non-boolean')
            op = ' ∧ ' if isinstance(e.op, ast.And) else ' ∨ '
            return '(' + op.join(c for c, _ in parts) + ')', 'B', False
        if isinstance(e, ast.Compare):
            if len(e.ops) != 1:
                self.fail('chained comparison')
            a, ta = self.ex(e.left, env)
            b, tb = self.ex(e.comparators[0], env)
            op = e.ops[0]
            if isinstance(ta, tuple) and ta[0] == 'Method' and isinstance(op, (ast.Eq, ast.NotEq)) and tb in ('N', 'R'):
                # a bound method compared with a number
                return ('False' if isinstance(op, ast.Eq) else 'True'), 'B', False
            sym = {ast.Lt: '<', ast.LtE: '≤', ast.Gt: '>', ast.GtE: '≥', ast.Eq: '=', ast.NotEq: '≠'}.get(type(op))
            if sym is None:
                self.fail('unsupported comparison')
            if ta == 'N' and tb == 'N':
                return '(%s %s %s)' % (a, sym, b), 'B', False
            if ta in ('N', 'R') and tb in ('N', 'R'):
                return '(%s %s %s)' % (self.to_real(a, ta, e.left), sym, self.to_real(b, tb, e.comparators[0])), 'B', False
            self.fail('comparison of types %r and %r' % (ta, tb))
        if isinstance(e, ast.BinOp):
            a, ta = self.ex(e.left, env)
            b, tb = self.ex(e.right, env)
            op = type(e.op)
            num = ('N', 'R')
            if op is ast.Mult:
                if ta == 'V' and tb in num:
                    return '(R3.smul %s %s)' % (self.to_real(b, tb, e.right), a), 'V', True
                if ta in num and tb == 'V':
                    return '(R3.smul %s %s)' % (self.to_real(a, ta, e.left), b), 'V', True
                if ta == 'V' and tb == 'V':
                    return '(R3.dot %s %s)' % (a, b), 'R', False
            if op is ast.Add and ta == 'V' and tb == 'V':
                return '(R3.add %s %s)' % (a, b), 'V', True
            if op is ast.Sub and ta == 'V' and tb == 'V':
                return '(R3.sub %s %s)' % (a, b), 'V', True
            if ta in num and tb in num:
                if op is ast.Div:
                    return '(%s / %s)' % (self.to_real(a, ta, e.left), self.to_real(b, tb, e.right)), 'R', False
                sym = {ast.Add: '+', ast.Sub: '-', ast.Mult: '*'}.get(op)
                if sym:
                    if ta == 'N' and tb == 'N':
                        return '(%s %s %s)' % (a, sym, b), 'N', False
                    return '(%s %s %s)' % (self.to_real(a, ta, e.left), sym, self.to_real(b, tb, e.right)), 'R', False
                if op is ast.Mod and ta == 'N' and tb == 'N':
                    return '(%s %% %s)' % (a, b), 'N', False
            self.fail('unsupported operator %s on types %r, %r' % (op.__name__, ta, tb))
        if isinstance(e, ast.Subscript):
            xs, t = self.ex(e.value, env)
            if not (isinstance(t, tuple) and t[0] == 'L'):
                self.fail('indexing a non-list')
            if isinstance(e.slice, ast.Slice):
                self.fail('slices are not supported')
            i, ti = self.ex(e.slice, env)
            if ti != 'N':
                self.fail('index of type %r (negative / non-integer indices are not supported)' % (ti,))
            return '(%s.getD %s %s)' % (xs, i, default_of(t[1])), t[1], False
        if isinstance(e, ast.Call):
            return self.call(e, env)
        self.fail('unsupported expression %s' % type(e).__name__)

    def call(self, e, env):
        f = e.func
        cn = self.callee_name(e)
        if cn:
            if isinstance(f, ast.Name):
                if cn in env:
                    self.fail('call of a local variable')
                self.need_global(cn)
            spec = SPEC[cn]
            r = self.eng.result(cn)
            if not r.ok:
                self.fail('calls `%s`, which could not be translated' % cn)
            names = [p for p, _ in spec[3]]
            given = {}
            if len(e.args) > len(names):
                self.fail('too many arguments for %s' % cn)
            for p, a in zip(names, e.args):
                given[p] = a
            for k in e.keywords:
                if k.arg is None or k.arg not in names or k.arg in given:
                    self.fail('bad keyword argument for %s' % cn)
                given[k.arg] = k.value
            args = []
            for p, t in spec[3]:
                if p in given:
                    c, ta = self.ex(given[p], env)
                    if t == 'R' and ta == 'N':
                        c, ta = self.to_real(c, ta, given[p]), 'R'
                    if not same(ta, t):
                        self.fail('argument `%s` of %s has type %r, expected %r' % (p, cn, ta, t))
                elif p in r.fn.defaults:
                    c = r.fn.defaults[p]
                else:
                    self.fail('missing argument `%s` of %s' % (p, cn))
                args.append(c)
            if r.fn.uses_eps:
                self.uses_eps = True
                args = ['eps'] + args
            if cn not in self.calls:
                self.calls.append(cn)
            return '(← b_%s %s)' % (cn, ' '.join(args)), spec[4], True
        if e.keywords:
            self.fail('keyword arguments in a call that is not a builder')
        if isinstance(f, ast.Name):
            n, args = f.id, e.args
            if n in env:
                self.fail('call of a local variable')
            if n in ('x_unit_vector', 'y_unit_vector', 'z_unit_vector') and not args:
                self.need_global(n)
                return n[0] + 'Unit', 'V', True
            if n == 'len' and len(args) == 1:
                c, t = self.ex(args[0], env)
                if isinstance(t, tuple) and t[0] == 'L':
                    return '%s.length' % c, 'N', False
                self.fail('len of a non-list')
            if n in ('tuple', 'list') and len(args) == 1:
                c, t = self.ex(args[0], env)
                if isinstance(t, tuple) and t[0] == 'L':
                    return c, t, True
                self.fail('%s(..) of a non-list' % n)
            if n == 'isinstance' and len(args) == 2 and isinstance(args[1], ast.Name) and args[1].id in ('Point', 'Vector'):
                self.need_global(args[1].id)
                c, t = self.ex(args[0], env)
                return ('True' if t == {'Point': 'P', 'Vector': 'V'}[args[1].id] else 'False'), 'B', False
            if n in CTOR_ARG or (n == 'cls' and self.cls):
                if n == 'ConvexPolygon':
                    self.need_global(n)
                elif n != 'cls':
                    self.fail('direct call of the %s constructor' % n)
                want = CTOR_ARG[n if n != 'cls' else self.cls]
                if len(args) != 1:
                    self.fail('constructor call with %d arguments' % len(args))
                c, t = self.ex(args[0], env)
                if not same(t, want):
                    self.fail('%s(..) applied to type %r, expected %r' % (n, t, want))
                return c, t, True
            self.fail('unknown function `%s`' % n)
        if isinstance(f, ast.Attribute):
            if isinstance(f.value, ast.Name) and f.value.id == 'math' and 'math' not in env and f.attr in ('cos', 'sin') \
                    and len(e.args) == 1:
                self.need_global('math')
                c, t = self.ex(e.args[0], env)
                return '(Real.%s %s)' % (f.attr, self.to_real(c, t, e.args[0])), 'R', False
            if isinstance(f.value, ast.Name) and f.value.id == 'copy' and 'copy' not in env and f.attr == 'deepcopy' \
                    and len(e.args) == 1:
                self.need_global('copy')
                c, t = self.ex(e.args[0], env)
                return c, t, True
            recv, t, fresh = self.ex3(f.value, env)
            args = [self.ex(a, env) for a in e.args]
            if f.attr == 'move' and t == 'P' and len(args) == 1 and args[0][1] == 'V':
                if not fresh:
                    self.fail('`.move(..)` on a Point that is not a fresh copy (it would be mutated in place)')
                return '(R3.add %s %s)' % (recv, args[0][0]), 'P', True
            if t == 'V':
                if f.attr == 'length' and not args:
                    return '(vLength %s)' % recv, 'R', False
                if f.attr == 'normalized' and not args:
                    return '(vNormalized %s)' % recv, 'V', True
                if f.attr == 'cross' and len(args) == 1 and args[0][1] == 'V':
                    return '(R3.cross %s %s)' % (recv, args[0][0]), 'V', True
                if f.attr == 'angle' and len(args) == 1 and args[0][1] == 'V':
                    return '(vAngle %s %s)' % (recv, args[0][0]), 'R', False
                if f.attr == 'parallel' and len(args) == 1 and args[0][1] == 'V':
                    self.uses_eps = True
                    return '(vParallel eps %s %s)' % (recv, args[0][0]), 'B', False
            self.fail('unsupported method .%s on type %r' % (f.attr, t))
        self.fail('unsupported call')

    # ------------------------------------------------------------------ statements
    # `block` returns the lines of a do-sequence (monadic=True) or of a term (monadic=False) at indentation `ind`;
    # `tail(env)` gives the final line(s) when control falls off the end of `stmts`.
    def block(self, stmts, env, ind, monadic, tail):
        if not stmts:
            return tail(env, ind)
        s, rest = stmts[0], stmts[1:]
        if isinstance(s, (ast.Import, ast.ImportFrom)):
            for a in s.names:
                if (a.asname or a.name) not in ('math', 'copy') or isinstance(s, ast.ImportFrom):
                    self.fail('unsupported import')
            return self.block(rest, env, ind, monadic, tail)
        if isinstance(s, ast.Expr) and isinstance(s.value, ast.Constant) and isinstance(s.value.value, str):
            return self.block(rest, env, ind, monadic, tail)
        if isinstance(s, ast.Pass):
            return self.block(rest, env, ind, monadic, tail)
        if isinstance(s, ast.Assign):
            if len(s.targets) != 1 or not isinstance(s.targets[0], ast.Name):
                self.fail('unsupported assignment target')
            x = s.targets[0].id
            if x in ('math', 'copy', 'cls'):
                self.fail('assignment to `%s`' % x)
            if isinstance(s.value, (ast.List, ast.Tuple)) and not s.value.elts:
                # the element type of an empty list is fixed by its first append
                t = self.empty_list_type(x, rest)
                line = 'let %s : %s := []' % (mangle(x), lean_type(t))
            else:
                if isinstance(s.value, ast.Name) and isinstance(env.get(s.value.id), tuple):
                    self.fail('aliasing assignment of a list')
                c, t = self.ex(s.value, env)
                if isinstance(t, tuple) and t[0] == 'Method' or t == 'B':
                    self.fail('assignment of a non-value')
                line = 'let %s : %s := %s' % (mangle(x), lean_type(t), c)
            env2 = dict(env)
            env2[x] = t
            return [ind + line] + self.block(rest, env2, ind, monadic, tail)
        if isinstance(s, ast.Expr) and isinstance(s.value, ast.Call) and isinstance(s.value.func, ast.Attribute) \
                and s.value.func.attr == 'append' and isinstance(s.value.func.value, ast.Name):
            x = s.value.func.value.id
            t = env.get(x)
            if not (isinstance(t, tuple) and t[0] == 'L') or len(s.value.args) != 1 or s.value.keywords:
                self.fail('unsupported .append')
            c, te = self.ex(s.value.args[0], env)
            if not same(te, t[1]):
                self.fail('append of type %r to a list of %r' % (te, t[1]))
            return [ind + 'let %s : %s := %s ++ [%s]' % (mangle(x), lean_type(t), mangle(x), c)] + \
                self.block(rest, env, ind, monadic, tail)
        if isinstance(s, ast.Return):
            if not monadic or self.loops:
                self.fail('return inside a loop')
            if s.value is None:
                self.fail('return without value')
            c, t = self.ex(s.value, env)
            if not same(t, self.ret):
                self.fail('returns type %r, expected %r' % (t, self.ret))
            return [ind + 'pure %s' % c]
        if isinstance(s, ast.Raise):
            if not monadic:
                self.fail('raise in a pure context')
            x = s.exc
            if isinstance(x, ast.Call):
                x = x.func
            if not (isinstance(x, ast.Name) and x.id in ('ValueError', 'TypeError')):
                self.fail('unsupported exception')
            return [ind + 'throw "%s"' % x.id]
        if isinstance(s, ast.If):
            c, t = self.ex(s.test, env)
            if t != 'B':
                self.fail('condition is not a comparison')
            if not monadic:
                self.fail('`if` inside a loop that cannot raise is not supported')
            ft_a = self.falls_through(s.body)
            ft_b = self.falls_through(s.orelse) if s.orelse else True
            if not rest or (not ft_a and not ft_b):
                # nothing follows on any path through the branches
                if rest:
                    self.fail('unreachable statements after an `if`')
                return ([ind + 'if %s then' % c] + self.block(s.body, env, ind + '  ', True, tail) +
                        [ind + 'else'] + self.block(s.orelse, env, ind + '  ', True, tail))
            if not ft_a and not s.orelse:
                return ([ind + 'if %s then' % c] + self.block(s.body, env, ind + '  ', True, tail) +
                        [ind + 'else'] + self.block(rest, env, ind + '  ', True, tail))
            # general case: export the variables assigned in the branches
            da = self.definitely_assigned(s.body) if ft_a else None
            db = self.definitely_assigned(s.orelse) if ft_b else None
            both = da & db if (da is not None and db is not None) else (da if da is not None else db)
            cand = [v for v in self.assigned(s.body) + self.assigned(s.orelse)]
            exported = []
            for v in cand:
                if v not in exported and (v in both or v in env):
                    exported.append(v)
            types = {}

            def branch_tail(env_b, ind_b):
                for v in exported:
                    if v not in env_b:
                        self.fail('`%s` may be unbound after the `if`' % v)
                    if v in types and not same(types[v], env_b[v]):
                        self.fail('`%s` has different types in the branches' % v)
                    types[v] = env_b[v]
                return [ind_b + ('pure %s' % tuple_expr(exported) if exported else 'pure ()')]
            la = self.block(s.body, env, ind + '    ', True, branch_tail)
            lb = self.block(s.orelse, env, ind + '    ', True, branch_tail)
            env2 = dict(env)
            for v in exported:
                env2[v] = types[v]
            n = len(exported)
            if n == 0:
                head = ind + 'let _ ←'
                after = []
            elif n == 1:
                head = ind + 'let %s : %s ←' % (mangle(exported[0]), lean_type(types[exported[0]]))
                after = []
            else:
                head = ind + 'let st : %s ←' % tuple_type([types[v] for v in exported])
                after = [ind + 'let %s : %s := st%s' % (mangle(v), lean_type(types[v]), proj(k, n))
                         for k, v in enumerate(exported)]
            return ([head, ind + '  if %s then do' % c] + la + [ind + '  else do'] + lb + after +
                    self.block(rest, env2, ind, True, tail))
        if isinstance(s, ast.For):
            if s.orelse or not isinstance(s.target, ast.Name):
                self.fail('unsupported for loop')
            it = s.iter
            if not (isinstance(it, ast.Call) and isinstance(it.func, ast.Name) and it.func.id == 'range'
                    and 'range' not in env and not it.keywords and len(it.args) in (1, 2)):
                self.fail('only `for .. in range(a[, b])` is supported')
            bounds = [self.ex(a, env) for a in it.args]
            for _, t in bounds:
                if t != 'N':
                    self.fail('range bound is not an integer')
            if len(bounds) == 1:
                lst = '(List.range %s)' % bounds[0][0]
            else:
                lst = "(List.range' %s (%s - %s))" % (bounds[0][0], bounds[1][0], bounds[0][0])
            i = s.target.id
            if i in env:
                self.fail('loop variable shadows an outer variable')
            state = [v for v in self.assigned(s.body) if v in env]
            if not state:
                self.fail('loop without effect on outer variables')
            for v in state:
                if not (isinstance(env[v], tuple) and env[v][0] == 'L'):
                    self.fail('loop-carried variable `%s` is not a list' % v)
            n = len(state)
            body_monadic = self.may_raise(s.body)
            if body_monadic and not monadic:
                self.fail('raising loop inside a pure loop')
            sname = mangle(state[0]) if n == 1 else 'st'
            stype = tuple_type([env[v] for v in state])
            ind2 = ind + '    '
            unpack = [] if n == 1 else [ind2 + 'let %s : %s := st%s' % (mangle(v), lean_type(env[v]), proj(k, n))
                                        for k, v in enumerate(state)]
            env_b = dict(env)
            env_b[i] = 'N'

            def loop_tail(env_l, ind_l):
                return [ind_l + ('pure ' if body_monadic else '') + tuple_expr(state)]
            self.loops += 1
            inner = self.block(s.body, env_b, ind2, body_monadic, loop_tail)
            self.loops -= 1
            init = tuple_expr(state)
            if body_monadic:
                head = ind + 'let %s : %s ← %s.foldlM (fun (%s : %s) (%s : ℕ) => do' % (
                    sname, stype, lst, sname, stype, mangle(i))
            else:
                head = ind + 'let %s : %s := %s.foldl (fun (%s : %s) (%s : ℕ) =>' % (
                    sname, stype, lst, sname, stype, mangle(i))
            lines = [head] + unpack + inner
            lines[-1] = lines[-1] + ') ' + init
            after = [] if n == 1 else [ind + 'let %s : %s := st%s' % (mangle(v), lean_type(env[v]), proj(k, n))
                                       for k, v in enumerate(state)]
            # variables first assigned inside the loop are NOT visible afterwards
            return lines + after + self.block(rest, env, ind, monadic, tail)
        self.fail('unsupported statement %s' % type(s).__name__)

    def empty_list_type(self, x, rest):
        """type of `x = []` from its first `x.append(e)`: a list of point lists when the appended value is a builder
        result / tuple of points; decided by a dry translation later, so only the shapes that occur are accepted"""
        for n in ast.walk(ast.Module(body=rest, type_ignores=[])):
            if isinstance(n, ast.Call) and isinstance(n.func, ast.Attribute) and n.func.attr == 'append' \
                    and isinstance(n.func.value, ast.Name) and n.func.value.id == x and len(n.args) == 1:
                a = n.args[0]
                if isinstance(a, ast.Call) and isinstance(a.func, ast.Name) and a.func.id == 'ConvexPolygon':
                    return LLP
                cn = isinstance(a, ast.Call) and self.callee_name(a)
                if cn:
                    return ('L', SPEC[cn][4])
                if isinstance(a, ast.Call) and isinstance(a.func, ast.Attribute) and a.func.attr == 'move':
                    return LP
                self.fail('cannot type the empty list `%s` from its first append' % x)
        self.fail('empty list `%s` is never appended to' % x)

    def translate(self):
        a = self.node.args
        if a.vararg or a.kwarg or a.kwonlyargs or a.kw_defaults or a.posonlyargs:
            self.fail('unsupported signature')
        decos = self.node.decorator_list
        names = [x.arg for x in a.args]
        if self.cls:
            if not (len(decos) == 1 and isinstance(decos[0], ast.Name) and decos[0].id == 'classmethod'):
                self.fail('expected exactly the decorator @classmethod')
            if not names or names[0] != 'cls':
                self.fail('first parameter is not `cls`')
            names = names[1:]
        elif decos:
            self.fail('unexpected decorator')
        if names != [p for p, _ in self.params]:
            self.fail('parameters are (%s), expected (%s)' % (', '.join(names), ', '.join(p for p, _ in self.params)))
        self.defaults = {}
        for p, d in zip(reversed(self.params), reversed(a.defaults)):
            if not (p[1] == 'N' and isinstance(d, ast.Constant) and isinstance(d.value, int)
                    and not isinstance(d.value, bool) and d.value >= 0):
                self.fail('unsupported default value of `%s`' % p[0])
            self.defaults[p[0]] = str(d.value)
        if len(a.defaults) > len(self.params):
            self.fail('default value for `cls`')
        env = {p: t for p, t in self.params}

        def end_tail(env_e, ind_e):
            self.fail('control may reach the end of the function (returns None)')
        lines = self.block(self.node.body, env, '  ', True, end_tail)
        sig = ''.join(' (%s : %s)' % (mangle(p), lean_type(t)) for p, t in self.params)
        if self.uses_eps:
            sig = ' (eps : ℝ)' + sig
        where = self.path + (' `%s.%s' % (self.cls, self.name) if self.cls else ' `%s' % self.name)
        head = '/-- %s(%s)`%s -/\nnoncomputable def b_%s%s : PyE (%s) := do' % (
            where, ', '.join(p + ('=' + self.defaults[p] if p in self.defaults else '') for p, _ in self.params),
            '; `eps` = get_eps()' if self.uses_eps else '', self.name, sig, lean_type(self.ret))
        return head + '\n' + '\n'.join(lines) + '\n'


class Result:
    def __init__(self, name, fn=None, text=None, error=None):
        self.name, self.fn, self.text, self.error, self.ok = name, fn, text, error, error is None


class Engine:
    def __init__(self, repo):
        self.results, self.busy, self.order, self.mods = {}, set(), [], {}
        for path in (POLYGON, POLYHEDRON):
            try:
                self.mods[path] = ast.parse(open(os.path.join(repo, path)).read())
            except (OSError, SyntaxError, ValueError) as ex:
                sys.stderr.write('extract_builders: cannot parse %s: %s\n' % (path, ex))
                sys.exit(1)
        # module-level bindings: name -> origin ('def' / 'class' / 'assign' / 'import' / imported-from module), and the
        # modules imported with `*`
        self.bound, self.star = {}, {}
        for path, mod in self.mods.items():
            b, st = {}, set()
            for n in mod.body:
                if isinstance(n, ast.ImportFrom):
                    for a in n.names:
                        if a.name == '*':
                            st.add(n.module or '')
                        else:
                            b[a.asname or a.name] = (n.module or '') + ':' + a.name
                elif isinstance(n, ast.Import):
                    for a in n.names:
                        b[a.asname or a.name] = 'import:' + a.name
                elif isinstance(n, ast.FunctionDef):
                    b[n.name] = 'def'
                elif isinstance(n, ast.ClassDef):
                    b[n.name] = 'class'
                elif isinstance(n, ast.Assign):
                    for t in n.targets:
                        if isinstance(t, ast.Name):
                            b[t.id] = 'assign'
            self.bound[path], self.star[path] = b, st

    def find(self, spec):
        path, cls, name = spec[0], spec[1], spec[2]
        body = self.mods[path].body
        if cls:
            cs = [n for n in body if isinstance(n, ast.ClassDef) and n.name == cls]
            if len(cs) != 1:
                return None, 'expected exactly one class %s in %s, found %d' % (cls, path, len(cs))
            body = cs[0].body
            # the module-level alias `Name = Class.Name` must exist: callers use the bare name
            al = [n for n in self.mods[path].body if isinstance(n, ast.Assign) and len(n.targets) == 1
                  and isinstance(n.targets[0], ast.Name) and n.targets[0].id == name]
            if not (len(al) == 1 and isinstance(al[0].value, ast.Attribute) and al[0].value.attr == name
                    and isinstance(al[0].value.value, ast.Name) and al[0].value.value.id == cls):
                return None, 'module-level alias `%s = %s.%s` not found in %s' % (name, cls, name, path)
        defs = [n for n in body if isinstance(n, ast.FunctionDef) and n.name == name]
        if len(defs) != 1:
            return None, 'expected exactly one definition in %s, found %d' % (path, len(defs))
        return defs[0], None

    def result(self, name):
        if name in self.results:
            return self.results[name]
        if name in self.busy:
            return Result(name, error='%s: recursion between builders' % name)
        self.busy.add(name)
        node, err = self.find(SPEC[name])
        if err:
            r = Result(name, error='%s: %s' % (name, err))
        else:
            fn = Fn(self, SPEC[name], node)
            try:
                r = Result(name, fn=fn, text=fn.translate())
            except Fail as ex:
                r = Result(name, fn=fn, error=str(ex))
        self.busy.discard(name)
        self.results[name] = r
        self.order.append(name)
        return r

    def run(self):
        for f in FUNCS:
            self.result(f[2])
        out = ['import G3D.Model.BuildersRt',
               '/-! GENERATED by tools/extract_builders.py from %s and %s — do not edit' % (POLYGON, POLYHEDRON),
               '',
               '    One definition `b_<python name>` per shape builder, translated statement by statement from the Python AST',
               '    (table in the docstring of tools/extract_builders.py; vocabulary: G3D/Model/BuildersRt.lean).  The value is the',
               '    list of point tuples handed to `ConvexPolygon(..)` / `cls(..)`, in the order appended, BEFORE the constructors run',
               '    (their sort / flips stay in the hand model).  A builder that could not be translated appears as',
               '    `b_<name>_EXTRACTION_FAILED : String` instead.',
               '    Trusted reading: floats are reals; sizes and indices are naturals (truncated `-`), `xs[i]` is `getD`, `x / 0 = 0`:',
               '    Python raises IndexError / ZeroDivisionError there, which the hypotheses of the tie theorems exclude',
               '    (3 ≤ n, 2 ≤ n2, normal ≠ 0).  G3D/Proofs/BuildersTie.lean proves every definition below equal to the',
               '    hand-written skeleton (G3D/Model/Builders.lean) placed on the real vertices (G3D/Proofs/BuildersReal.lean). -/',
               'set_option linter.unusedVariables false',
               'namespace G3D.Extracted',
               'open G3D G3D.BuildersReal G3D.BuildersRt',
               '']
        failed = []
        for n in self.order:
            r = self.results[n]
            if r.ok:
                out.append(r.text)
            else:
                failed.append(n)
                sys.stderr.write('extract_builders: %s\n' % r.error)
                out.append('/-- `%s` could NOT be translated -/' % n)
                out.append('def b_%s_EXTRACTION_FAILED : String := "%s"\n'
                           % (n, r.error.replace('\\', '\\\\').replace('"', '\\"')))
        out.append('/-- the builders, in emission order -/')
        out.append('def buildersNames : List String := [%s]' % ', '.join('"%s"' % n for n in self.order))
        out.append('/-- those that could not be translated -/')
        out.append('def buildersFailed : List String := [%s]' % ', '.join('"%s"' % n for n in failed))
        out.append('end G3D.Extracted')
        sys.stdout.write('\n'.join(out) + '\n')


if __name__ == '__main__':
    sys.dont_write_bytecode = True
    if len(sys.argv) != 2:
        sys.stderr.write('usage: extract_builders.py <repo>\n')
        sys.exit(1)
    Engine(sys.argv[1]).run()
