#!/venv/bin/python
"""Self-test of the method-body translator (tools/mextract.py via extract_m{flat,polygon,polyhedron,calc}.py) and of the ROLE
modules G3D/Proofs/MethodsTie<Group>{Ctor,Member,Eq,Move,Effects,Complete,..}.lean: small mutations of the class methods on a COPY
of the library.  For every mutation the table says which generated files change, the exit status of the extractors, which role
modules stop building (`failed`: own errors; `blocked`: only because an imported role module failed — the real call couplings)
and which theorems fail.  A behaviour-changing mutation must change exactly the generated file of the group of the mutated
class and break exactly the role module(s) of the changed method (+ `..Effects` when stored references change, `..Complete`
when the method cannot be translated); semantics-preserving edits (and edits that are equivalent under the exact reading of
the tolerance) must leave everything green.
usage: selftest_methods.py [ids..]   (writes only to /tmp/vm_repo and lean/G3D/Extracted/M*.lean, which are regenerated from
the working tree of ${G3D_SRC:-/repo} at the end; /tmp/vm_repo is deleted)"""
import subprocess, shutil, os, sys, re, json
VERIF = os.path.dirname(os.path.dirname(os.path.abspath(__file__)))
REPO = os.environ.get('G3D_SRC', '/repo')
WORK = '/tmp/vm_repo'
BASE = WORK + '/base'; SRC = os.path.join(BASE, 'Geometry3D'); DST = WORK + '/Geometry3D'
shutil.rmtree(WORK, ignore_errors=True); os.makedirs(BASE)
_ar = subprocess.run('git -C %s archive HEAD Geometry3D | tar -x -C %s' % (REPO, BASE), shell=True, capture_output=True)
if _ar.returncode != 0 or not os.path.isdir(SRC):
    shutil.rmtree(SRC, ignore_errors=True); shutil.copytree(os.path.join(REPO, 'Geometry3D'), SRC)
shutil.copytree(SRC, DST)
L = 'geometry/line.py'; P = 'geometry/plane.py'; S = 'geometry/segment.py'; H = 'geometry/halfline.py'
G = 'geometry/polygon.py'; B = 'geometry/polyhedron.py'; Y = 'geometry/pyramid.py'; A = 'calc/angle.py'
GROUPS = ['mflat', 'mpolygon', 'mpolyhedron', 'mcalc']
PROOFS = os.path.join(VERIF, 'lean', 'G3D', 'Proofs')
ROLE_MODULES = sorted(f[:-5] for f in os.listdir(PROOFS) if re.match(r'MethodsTie(Flat|Polygon|Polyhedron)[A-Z]\w*\.lean$|MethodsTieCalc\.lean$', f)
                      and not f.endswith('Shared.lean'))
IMPORTS = {m: set(re.findall(r'^import G3D\.Proofs\.(MethodsTie\w+)', open(os.path.join(PROOFS, m + '.lean')).read(), re.M)) for m in ROLE_MODULES}
X = lambda *names: sorted('MethodsTie' + n for n in names)
# expected broken role modules (failed + blocked) per mutation
EXPECT = {
 'M0': X(), 'M1': X('FlatMove', 'FlatEffects'), 'M2': X('FlatMove', 'FlatEffects'), 'M3': X('FlatMember'), 'M4': X(),
 'M5': X('FlatMember'), 'M6': X('FlatEq'), 'M7': X('FlatEffects'), 'M8': X('FlatCtor'), 'M9': X('FlatMove', 'FlatEffects'),
 'M10': X('PolygonCtor', 'PolygonEffects'), 'M11': X('PolygonCtor'), 'M12': X('PolygonMember'), 'M13': X('PolygonCtor'),
 'M14': X('PolygonMove', 'PolygonEffects', 'PolygonComplete'), 'M28': X('PolygonMove', 'PolygonEffects', 'PolygonComplete'),
 'M15': X('PolygonEffects'), 'M16': X('PolyhedronCtor', 'PolyhedronEffects'),
 'M17': X('PolyhedronHelpers', 'PolyhedronCtor', 'PolyhedronMove'),      # __init__ and move both call _euler_check
 'M18': X('PolyhedronEffects'), 'M19': X('PolyhedronMember'), 'M20': X('PolyhedronCtor'),
 'M21': X('FlatMove', 'FlatEffects', 'FlatComplete'), 'M22': X('FlatMember', 'FlatEffects', 'FlatComplete'),
 'M23': X('PolyhedronHelpers', 'PolyhedronCtor', 'PolyhedronMove', 'PolyhedronEffects', 'PolyhedronComplete'),
 'M26': X('Calc'), 'M27': X('Calc'), 'M24': X(), 'M25': X(),
}
# (id + description, file, old, new, expected broken groups, expected changed groups (None = same as broken))
MUTS = [
 ('M0 control: no change', L, None, None, [], []),
 ('M1 Segment.move: the refresh `self.line = Line(..)` dropped (the pinned defect)', S,
  "            self.end_point.move(v)\n            self.line = Line(self.start_point, self.end_point)\n",
  "            self.end_point.move(v)\n", ['mflat'], None),
 ('M2 HalfLine.move: the refresh `self.line = Line(..)` dropped', H,
  "            self.point.move(v)\n            self.line = Line(self.point, self.vector)\n",
  "            self.point.move(v)\n", ['mflat'], None),
 ('M3 HalfLine.__contains__: `> -get_eps()` -> `> get_eps()` (closed end becomes open)', H,
  "return v1 * self.vector > -get_eps()", "return v1 * self.vector > get_eps()", ['mflat'], None),
 ('M4 Segment.__contains__: `> -get_eps()` -> `>= -get_eps()` (same under the exact reading of eps)', S,
  "(reletive_length > -get_eps())", "(reletive_length >= -get_eps())", [], ['mflat']),
 ('M5 Segment.__contains__: swapped operands Vector(other, self.start_point)', S,
  "v1 = Vector(self.start_point, other)", "v1 = Vector(other, self.start_point)", ['mflat'], None),
 ('M6 Plane.__eq__: swapped operands `other.p in self`', P,
  "return self.p in other and self.n.parallel(other.n)", "return other.p in self and self.n.parallel(other.n)", ['mflat'], None),
 ('M7 Segment.__init__: a missing deepcopy (`a = copy.deepcopy(a)` removed)', S,
  "        a = copy.deepcopy(a)\n        b = copy.deepcopy(b)\n        if isinstance(a, Point) and isinstance(b, Point):\n            if a == b:\n                raise ValueError(\n                    \"Cannot initialize a Segment",
  "        b = copy.deepcopy(b)\n        if isinstance(a, Point) and isinstance(b, Point):\n            if a == b:\n                raise ValueError(\n                    \"Cannot initialize a Segment",
  ['mflat'], None),
 ('M8 Segment.__init__: the rejection of identical points removed', S,
  "            if a == b:\n                raise ValueError(\n                    \"Cannot initialize a Segment with two identical Points\"\n                )\n",
  "", ['mflat'], None),
 ('M9 Line.move: `return Line(self.sv, self.dv)` -> `return self`', L,
  "            return Line(self.sv, self.dv)", "            return self", ['mflat'], None),
 ('M10 ConvexPolygon.__init__: duplicate removal removed', G,
  "self.points = sorted(set(points), key=points.index)", "self.points = list(points)", ['mpolygon'], None),
 ('M11 ConvexPolygon.__init__: `len(points) < 3` -> `<= 3`', G,
  "        if len(points) < 3:", "        if len(points) <= 3:", ['mpolygon'], None),
 ('M12 ConvexPolygon.__contains__: `r1 and r2` -> `r1 or r2`', G,
  "            return r1 and r2", "            return r1 or r2", ['mpolygon'], None),
 ('M13 ConvexPolygon._check_and_sort_points: swapped atan2 operands', G,
  "math.atan2(z_coordinate, y_coordinate)", "math.atan2(y_coordinate, z_coordinate)", ['mpolygon'], None),
 ('M14 ConvexPolygon.move: `self.center_point = ..` refresh dropped (the dropped in-place effect is no longer dead)', G,
  "            self.plane = Plane(self.points[0], self.points[1], self.points[2])\n            self.center_point = self._get_center_point()\n            return ConvexPolygon(self.points)",
  "            self.plane = Plane(self.points[0], self.points[1], self.points[2])\n            return ConvexPolygon(self.points)",
  ['mpolygon'], None),
 ('M28 ConvexPolygon.move: the plane rebuilt BEFORE `self.points = ..` (reads the points that were moved in place: the value reading would be wrong, the translator must refuse)', G,
  "            self.points = tuple(point_list)\n            self.plane = Plane(self.points[0], self.points[1], self.points[2])\n            self.center_point = self._get_center_point()\n            return ConvexPolygon(self.points)",
  "            self.plane = Plane(self.points[0], self.points[1], self.points[2])\n            self.points = tuple(point_list)\n            self.center_point = self._get_center_point()\n            return ConvexPolygon(self.points)",
  ['mpolygon'], None),
 ('M15 ConvexPolygon.__init__: a missing deepcopy (`points = pts`)', G,
  "        points = copy.deepcopy(pts)", "        points = tuple(pts)", ['mpolygon'], None),
 ('M16 ConvexPolyhedron.__init__: orientation flip removed', B,
  "                self.convex_polygons[i] = -convex_polygon\n            self.pyramid_set.add(\n                Pyramid(convex_polygon, self.center_point, direct_call=False)\n            )\n        if not self._check_normal():\n            raise ValueError(\"Check Normal Fails For The Convex Polyhedron\")\n        if not self._euler_check():\n            get_main_logger().critical(\n                \"V:{} E:{} F:{}\"",
  "                pass\n            self.pyramid_set.add(\n                Pyramid(convex_polygon, self.center_point, direct_call=False)\n            )\n        if not self._check_normal():\n            raise ValueError(\"Check Normal Fails For The Convex Polyhedron\")\n        if not self._euler_check():\n            get_main_logger().critical(\n                \"V:{} E:{} F:{}\"",
  ['mpolyhedron'], None),
 ('M17 ConvexPolyhedron._euler_check: wrong constant (== 1)', B,
  "return number_points - number_segments + number_polygons == 2", "return number_points - number_segments + number_polygons == 1",
  ['mpolyhedron'], None),
 ('M18 ConvexPolyhedron.__init__: a missing deepcopy (`list(convex_polygons)`)', B,
  "self.convex_polygons = list(copy.deepcopy(convex_polygons))", "self.convex_polygons = list(convex_polygons)",
  ['mpolyhedron'], None),
 ('M19 ConvexPolyhedron.__contains__: `> get_eps()` -> `< -get_eps()`', B,
  "                if direction_vector * polygon.plane.n > get_eps():", "                if direction_vector * polygon.plane.n < -get_eps():",
  ['mpolyhedron'], None),
 ('M20 Pyramid.__init__: the rejection of a point in the base plane removed', Y,
  "            if self.point in self.convex_polygon.plane:\n                raise ValueError(\n                    \"Cannot create Pyramid with point on the polygon plane\"\n                )\n",
  "", ['mpolyhedron'], None),
 ('M21 isolation: unknown construct (`while`) in Plane.move', P,
  "            self.p.move(v)\n            return Plane(self.p, self.n)", "            while False:\n                pass\n            self.p.move(v)\n            return Plane(self.p, self.n)",
  ['mflat'], None),
 ('M22 isolation: Segment.in_ missing (renamed)', S, "    def in_(self, other):", "    def in_renamed(self, other):", ['mflat'], None),
 ('M23 isolation: get_eps() outside a comparison in ConvexPolyhedron._check_normal (callers fail likewise)', B,
  "                < -get_eps()\n            ):\n                return False", "                < -2 * get_eps()\n            ):\n                return False",
  ['mpolyhedron'], None),
 ('M26 calc.angle.parallel: Line/Plane uses `parallel` instead of `orthogonal`', A,
  "        return a.dv.orthogonal(b.n)\n    elif isinstance(a, Plane) and isinstance(b, Line):\n        return parallel(b, a)",
  "        return a.dv.parallel(b.n)\n    elif isinstance(a, Plane) and isinstance(b, Line):\n        return parallel(b, a)", ['mcalc'], None),
 ('M27 calc.angle.orthogonal: the swapped recursive call drops the swap `orthogonal(a, b)`', A,
  "        return orthogonal(b, a)", "        return orthogonal(a, b)", ['mcalc'], None),
 ('M24 semantics-preserving: rename local the_normal -> nrm (ConvexPolygon.__contains__)', G, 'RENAME', None, [], ['mpolygon']),
 ('M25 semantics-preserving: an extra logging statement in Line.__eq__', L,
  "        if isinstance(other, Line):\n            return Point(other.sv) in self", "        if isinstance(other, Line):\n            get_main_logger().debug(\"eq\")\n            return Point(other.sv) in self",
  [], ['mflat']),
]


def run(cmd, **kw):
    return subprocess.run(cmd, capture_output=True, text=True, **kw)


def gen_path(g):
    return os.path.join(VERIF, 'lean', 'G3D', 'Extracted', g.capitalize() + '.lean')


def extract(repo):
    return {g: run(['/venv/bin/python', '-B', os.path.join(VERIF, 'tools', 'extract_%s.py' % g), repo]) for g in GROUPS}


def thm_of(module, ln):
    src = open(os.path.join(VERIF, 'lean', 'G3D', 'Proofs', module + '.lean')).read().split('\n')
    for i in range(int(ln) - 1, -1, -1):
        m = re.match(r'(?:@\[[^\]]*\] )?(?:theorem|def) (\S+)', src[i])
        if m:
            return m.group(1)
    return '?'


only = set(sys.argv[1:])
ORIG = {g: ex.stdout for g, ex in extract(BASE).items()}
rows = []; bad = []
for name, f, old, new, exp_broken, exp_changed in MUTS:
    mid = name.split()[0]
    if only and mid not in only:
        continue
    if exp_changed is None:
        exp_changed = exp_broken
    shutil.rmtree(DST); shutil.copytree(SRC, DST)
    if old is not None:
        p = os.path.join(DST, f); s = open(p).read()
        if old == 'RENAME':
            a = s.index('    def __contains__(self, other):'); b = s.index('    def in_(self, other):')
            s2 = s[:a] + s[a:b].replace('the_normal', 'nrm') + s[b:]
        else:
            assert s.count(old) >= 1, name
            s2 = s.replace(old, new, 1)
        assert s2 != s, name
        open(p, 'w').write(s2)
        r = run(['/venv/bin/python', '-c', 'import ast,sys;ast.parse(open(sys.argv[1]).read())', p]); assert r.returncode == 0, (name, r.stderr)
    exs = extract(WORK)
    changed = []; exits = {}; msgs = []
    for g in GROUPS:
        exits[g] = exs[g].returncode
        if exs[g].stderr.strip():
            msgs += [x for x in exs[g].stderr.strip().split('\n')]
        text = exs[g].stdout if exs[g].returncode == 0 else '-- extraction failed\n#exit_extraction_failed\n'
        if text != ORIG[g]:
            changed.append(g)
        if open(gen_path(g)).read() != text:
            open(gen_path(g), 'w').write(text)
    b = run(['lake', 'build'] + ['G3D.Proofs.' + m for m in ROLE_MODULES], cwd=os.path.join(VERIF, 'lean'))
    outp = b.stdout + b.stderr
    errs = re.findall(r'^error: G3D/Proofs/(\w+)\.lean:(\d+):\d+:', outp, re.M)
    failed = sorted({m for m, _ in errs if m in ROLE_MODULES} | {m for m in re.findall(r'✖ \[\d+/\d+\] (?:Building|Built) G3D\.Proofs\.(\w+)', outp) if m in ROLE_MODULES})
    blocked = set(); grew = True
    while grew:
        grew = False
        for m in ROLE_MODULES:
            if m not in failed and m not in blocked and IMPORTS[m] & (set(failed) | blocked):
                blocked.add(m); grew = True
    if b.returncode != 0 and not failed:
        failed = ['(build failed outside the role modules)']
    failed_thms = sorted({thm_of(m, ln) for m, ln in errs if m in ROLE_MODULES})
    broken = sorted(set(failed) | blocked)
    row = dict(mutation=name, extractor_exit=exits, stderr=msgs, changed_files=[g.capitalize() + '.lean' for g in changed],
               failed_modules=failed, blocked_modules=sorted(blocked), failing_theorems=failed_thms)
    rows.append(row); print(json.dumps(row), flush=True)
    if broken != EXPECT[mid]:
        bad.append((mid, 'broken', broken, EXPECT[mid]))
    if changed != exp_changed:
        bad.append((mid, 'changed', changed, exp_changed))
# restore
exs = extract(REPO)
for g in GROUPS:
    if exs[g].returncode == 0 and open(gen_path(g)).read() != exs[g].stdout:
        open(gen_path(g), 'w').write(exs[g].stdout)
b = run(['lake', 'build', 'G3D.Proofs.MethodsTie'], cwd=os.path.join(VERIF, 'lean'))
print('regenerated from', REPO, '- build rc', b.returncode)
shutil.rmtree(WORK, ignore_errors=True)
json.dump(rows, open('/tmp/vm_selftest_rows.json', 'w'), indent=1)
print('SELFTEST', 'FAILED' if bad or b.returncode else 'ok', bad)
sys.exit(1 if bad or b.returncode else 0)
