#!/venv/bin/python
"""Translator T3: symbolic execution of the ARITHMETIC KERNELS of the predicates and constructions.

A symbolic number type `K` (expression trees with + - * / neg abs sqrt pow, the tolerance as the
distinguished leaf `eps`) is pushed through the REAL methods of <repo>.  Every comparison the code
performs on a `K` is RECORDED (both operands as trees) and answered from the list of branch choices
scripted for the path to be walked; a comparison that was not scripted, a scripted answer that was
not consumed, a conversion to float/int/bool, an `==` on a symbolic number: all raise (the harness
reads a non-zero exit as "obligation broken").  The library source is not edited: `get_eps` is
replaced in the module globals by a function returning the leaf `eps`, and the modules that call
`float(x)` / `math.sqrt` / `math.acos` on numbers get the shims `float = identity`, `math = shim`
in their globals (process-local: the extractor process ends after printing).

Two outputs (two entry points, same engine):
    extract_kernels.py  <repo>  ->  lean/G3D/Extracted/Kernels.lean   sqrt-free terms over Rat, Mathlib-free
    extract_kernelsr.py <repo>  ->  lean/G3D/Extracted/Kernelsr.lean  terms with sqrt / |.| over the reals

Plane normals.  `Plane(p, n)` stores `n.normalized()`.  In the rational file the planes are built by
the real constructor and then `pl.n` is overwritten by the raw `Vector(n)` (the model keeps the
normal unnormalised; every predicate extracted there is homogeneous in n).  In the real file the
planes are used exactly as constructed: the factor `1/sqrt(n.n)` stays in the terms and the Lean
side cancels it.

For every kernel the generated file has
    impl_<kernel>_<piece>   one definition per maximal tolerance-free operand of a comparison / result component
    impl_<kernel>_path      List (String × Bool): the shape of EVERY comparison met on the path, in order, with the
                            scripted answer (shape = the operand trees with the tolerance-free parts replaced by R, S, ..)
    impl_<kernel>_shape     the shape of the deciding comparison (when there is one)
usage: extract_kernels.py <repo>      (Lean source on stdout; any exception = extraction failure)"""
import sys, os, logging, importlib

sys.dont_write_bytecode = True


# ------------------------------------------------------------------------------------------------ symbolic numbers
class Unscripted(Exception):
    pass


class Recorder:
    """answers the comparisons from a script and keeps what was asked"""
    def __init__(self):
        self.script = None
        self.asked = []

    def start(self, script):
        if self.script is not None:
            raise Unscripted('nested walk')
        self.script = list(script)
        self.asked = []

    def stop(self):
        if self.script is None:
            raise Unscripted('stop without start')
        left, self.script = self.script, None
        if left:
            raise Unscripted('the code asked fewer comparisons than scripted: %d answers left (asked %r)'
                             % (len(left), [shape(c)[0] for c in self.asked]))
        asked, self.asked = self.asked, []
        return asked

    def ask(self, op, l, r):
        if self.script is None:
            raise Unscripted('comparison outside a scripted walk: %s' % shape((op, l, r, None))[0])
        if not self.script:
            raise Unscripted('the code asked more comparisons than scripted: %s (after %r)'
                             % (shape((op, l, r, None))[0], [shape(c)[0] for c in self.asked]))
        ans = self.script.pop(0)
        self.asked.append((op, l, r, ans))
        return ans


REC = Recorder()
EPS = ('eps',)


def embed(o):
    """tree of a python number that may meet a symbolic number"""
    if isinstance(o, K):
        return o.e
    if isinstance(o, bool):
        raise TypeError('bool met a symbolic number')
    if isinstance(o, int):
        return ('c', o, str(o))
    if isinstance(o, float):
        if o != o or o in (float('inf'), float('-inf')) or o != int(o):
            raise TypeError('non-integral float constant %r met a symbolic number' % (o,))
        return ('c', int(o), repr(o))
    raise TypeError('cannot embed %r' % (o,))


def ok(o):
    return isinstance(o, (K, int, float)) and not isinstance(o, bool)


class K:
    """expression tree; refuses conversion to float / int / bool and refuses `==`"""
    __slots__ = ('e',)

    def __init__(self, e):
        if not isinstance(e, tuple):
            e = embed(e)
        self.e = e

    def _bin(op):
        def f(self, o):
            if not ok(o):
                return NotImplemented
            return K((op, self.e, embed(o)))

        def r(self, o):
            if not ok(o):
                return NotImplemented
            return K((op, embed(o), self.e))
        return f, r
    __add__, __radd__ = _bin('+')
    __sub__, __rsub__ = _bin('-')
    __mul__, __rmul__ = _bin('*')
    __truediv__, __rtruediv__ = _bin('/')

    def __neg__(self):
        return K(('neg', self.e))

    def __pos__(self):
        return self

    def __abs__(self):
        return K(('abs', self.e))

    def __pow__(self, o):
        if isinstance(o, float) and o == 0.5:
            return K(('sqrt', self.e))
        if isinstance(o, int) and not isinstance(o, bool) and o >= 0:
            return K(('pow', self.e, o))
        raise TypeError('unsupported exponent %r' % (o,))

    def _cmp(op):
        def f(self, o):
            if not ok(o):
                return NotImplemented
            return REC.ask(op, self.e, embed(o))
        return f
    __lt__ = _cmp('<')
    __le__ = _cmp('<=')
    __gt__ = _cmp('>')
    __ge__ = _cmp('>=')

    def __eq__(self, o):
        raise TypeError('== on a symbolic number')

    def __ne__(self, o):
        raise TypeError('!= on a symbolic number')
    __hash__ = None

    def __bool__(self):
        raise TypeError('truth value of a symbolic number')

    def __float__(self):
        raise TypeError('float() of a symbolic number')

    def __int__(self):
        raise TypeError('int() of a symbolic number')

    def __index__(self):
        raise TypeError('index from a symbolic number')

    def __round__(self, n=None):
        raise TypeError('round() of a symbolic number')

    def __format__(self, spec):
        return 'sym'

    def __repr__(self):
        return 'K'

    def __deepcopy__(self, memo):
        return self

    def __copy__(self):
        return self


class MathShim:
    """stands in for the `math` module inside the library modules that apply it to numbers"""
    pi = K(('pi',))

    @staticmethod
    def sqrt(x):
        if not isinstance(x, K):
            raise TypeError('math.sqrt of a non-symbolic %r' % (x,))
        return K(('sqrt', x.e))

    @staticmethod
    def acos(x):
        if not isinstance(x, K):
            raise TypeError('math.acos of a non-symbolic %r' % (x,))
        return K(('acos', x.e))

    def __getattr__(self, name):
        raise TypeError('math.%s is not modelled' % name)


def ident_float(x):
    if not isinstance(x, K):
        raise TypeError('float() of a non-symbolic %r' % (x,))
    return x


# ------------------------------------------------------------------------------------------------ trees -> text
def has(e, tag):
    return e[0] == tag or any(isinstance(s, tuple) and has(s, tag) for s in e[1:])


def shape(cmp_):
    """-> (shape string, [tolerance-free operand trees in order of appearance]).
    The tolerance-free maximal subtrees become R, S, T, ..; abs / unary minus / constants / eps stay visible."""
    op, l, r, _ = cmp_
    names = 'RSTUVW'
    holes = []

    def go(e):
        if e[0] == 'eps':
            return 'eps'
        if e[0] == 'c':
            return e[2]
        if e[0] == 'abs':
            return 'abs(%s)' % go(e[1])
        if e[0] == 'neg':
            return '-%s' % go(e[1])
        if not has(e, 'eps'):
            if e in holes:
                return names[holes.index(e)]
            holes.append(e)
            return names[len(holes) - 1]
        if e[0] in '+-*/':
            return '(%s %s %s)' % (go(e[1]), e[0], go(e[2]))
        raise TypeError('tolerance inside %s' % e[0])
    ls = go(l)
    rs = go(r)
    return '%s %s %s' % (ls, op, rs), holes


class Emit:
    """Lean text of a tree over Rat (sqrt-free) or over the reals"""
    def __init__(self, real):
        self.real = real
        self.ty = 'ℝ' if real else 'Rat'
        self.shared = {}     # sqrt tree -> text of the call of its auxiliary definition

    def term(self, e):
        t = e[0]
        if e in self.shared:
            return self.shared[e]
        if t == 'c':
            return '(%d : %s)' % (e[1], self.ty)
        if t == 'v':
            return e[1]
        if t in '+-*/' and len(e) == 3:
            return '(%s %s %s)' % (self.term(e[1]), t, self.term(e[2]))
        if t == 'neg':
            return '(-%s)' % self.term(e[1])
        if t == 'pow':
            return '(%s ^ %d)' % (self.term(e[1]), e[2])
        if not self.real:
            raise TypeError('%s node in a term meant for the rational file' % t)
        if t == 'abs':
            return '(abs %s)' % self.term(e[1])
        if t == 'sqrt':
            return '(Real.sqrt %s)' % self.term(e[1])
        raise TypeError('cannot emit node %s' % t)


def variables(e, acc=None):
    acc = [] if acc is None else acc
    if e[0] == 'v':
        if e[1] not in acc:
            acc.append(e[1])
    else:
        for s in e[1:]:
            if isinstance(s, tuple):
                variables(s, acc)
    return acc


# ------------------------------------------------------------------------------------------------ the walks
class Walker:
    def __init__(self, repo, real):
        self.real = real
        self.em = Emit(real)
        self.vt = 'RVec' if real else 'V3'
        self.out = []
        self.names = set()
        sys.path.insert(0, repo)
        logging.disable(logging.CRITICAL)
        import Geometry3D  # noqa
        g = importlib.import_module
        self.m = dict(vector=g('Geometry3D.utils.vector'), solver=g('Geometry3D.utils.solver'),
                      point=g('Geometry3D.geometry.point'), line=g('Geometry3D.geometry.line'),
                      plane=g('Geometry3D.geometry.plane'), segment=g('Geometry3D.geometry.segment'),
                      halfline=g('Geometry3D.geometry.halfline'), polygon=g('Geometry3D.geometry.polygon'),
                      intersection=g('Geometry3D.calc.intersection'), distance=g('Geometry3D.calc.distance'),
                      angle=g('Geometry3D.calc.angle'), acute=g('Geometry3D.calc.acute'),
                      aux=g('Geometry3D.calc.aux_calc'), constant=g('Geometry3D.utils.constant'))
        for k, mod in self.m.items():
            if k == 'constant':
                continue
            if hasattr(mod, 'get_eps'):
                mod.get_eps = lambda: K(EPS)
            # modules applying float()/math to numbers
            if hasattr(mod, 'math'):
                mod.math = MathShim()
            mod.float = ident_float
        self.Vector, self.Point = self.m['vector'].Vector, self.m['point'].Point
        self.Line, self.Plane = self.m['line'].Line, self.m['plane'].Plane
        self.Segment, self.HalfLine = self.m['segment'].Segment, self.m['halfline'].HalfLine

    # -- symbolic inputs
    def V(self, n):
        return self.Vector(K(('v', n + '.x')), K(('v', n + '.y')), K(('v', n + '.z')))

    def P(self, n):
        return self.Point(K(('v', n + '.x')), K(('v', n + '.y')), K(('v', n + '.z')))

    def walk(self, script, f):
        REC.start(script)
        try:
            res = f()
        except BaseException:
            REC.script = None
            raise
        return res, REC.stop()

    # -- emission
    def binder(self, trees, order):
        vs = []
        for t in trees:
            variables(t, vs)
        objs = []
        for v in vs:
            o = v.split('.')[0]
            if '.' not in v:
                raise TypeError('scalar variable %s' % v)
            if o not in objs:
                objs.append(o)
        for o in objs:
            if o not in order:
                raise TypeError('term mentions %s, not among the declared arguments %s' % (o, order))
        return '(%s : %s)' % (' '.join(order), self.vt)

    def share_sqrts(self, base, order, trees):
        """big terms: every distinct sqrt node of `trees` (inner ones first, in order of first appearance) becomes an
        auxiliary definition impl_<base>_sqrt<k>, and the terms emitted from now on mention it by name"""
        found = []

        def go(e):
            for s_ in e[1:]:
                if isinstance(s_, tuple):
                    go(s_)
            if e[0] == 'sqrt' and e not in found:
                found.append(e)
        for t in trees:
            go(t)
        k = sum(1 for v in self.em.shared.values() if v.startswith('(impl_%s_sqrt' % base))
        for e in found:
            if e in self.em.shared:
                continue
            nm = '%s_sqrt%d' % (base, k)
            k += 1
            self.names.add(nm)
            b = self.binder([e], order)
            self.out.append('noncomputable def impl_%s %s : %s := (Real.sqrt %s)' % (nm, b, self.em.ty, self.em.term(e[1])))
            self.em.shared[e] = '(impl_%s %s)' % (nm, ' '.join(order))

    def unshare(self):
        self.em.shared = {}

    def define(self, name, order, tree):
        """scalar definition impl_<name> (<order> : V3) : Rat := tree"""
        if name in self.names:
            raise TypeError('duplicate definition %s' % name)
        self.names.add(name)
        if not isinstance(tree, tuple):
            raise TypeError('%s: not a symbolic number: %r' % (name, tree))
        b = self.binder([tree], order)
        pre = 'noncomputable def' if self.real else 'def'
        self.out.append('%s impl_%s %s : %s := %s' % (pre, name, b, self.em.ty, self.em.term(tree)))

    def define_vec(self, name, order, comps):
        if name in self.names:
            raise TypeError('duplicate definition %s' % name)
        self.names.add(name)
        trees = []
        for c in comps:
            if not isinstance(c, K):
                raise TypeError('%s: a component left the symbolic type: %r' % (name, c))
            trees.append(c.e)
        b = self.binder(trees, order)
        pre = 'noncomputable def' if self.real else 'def'
        self.out.append('%s impl_%s %s : %s := ⟨%s⟩' % (pre, name, b, self.vt, ', '.join(self.em.term(t) for t in trees)))

    def define_path(self, name, asked, deciding=None):
        if name + '_path' in self.names:
            raise TypeError('duplicate path %s' % name)
        self.names.add(name + '_path')
        items = ', '.join('("%s", %s)' % (shape(c)[0], 'true' if c[3] else 'false') for c in asked)
        self.out.append('def impl_%s_path : List (String × Bool) := [%s]' % (name, items))
        if deciding is not None:
            self.out.append('def impl_%s_shape : String := "%s"' % (name, shape(asked[deciding])[0]))

    def holes(self, cmp_, n):
        hs = shape(cmp_)[1]
        if len(hs) != n:
            raise TypeError('comparison %s: expected %d tolerance-free operands, found %d' % (shape(cmp_)[0], n, len(hs)))
        return hs

    def comment(self, s):
        self.out.append('-- %s' % s)

    def num(self, x, what):
        if not isinstance(x, K):
            raise TypeError('%s left the symbolic type: %r' % (what, x))
        return x.e

    # -- constructions used by several kernels (their own comparisons are scripted here)
    def mk_line(self, p, v):
        """Line(Point, Vector): the zero-direction test asks `abs(dv[0] - 0) < eps` first; answered False"""
        l, asked = self.walk([False], lambda: self.Line(p, v))
        return l, asked

    def mk_plane(self, p, n, raw):
        pl, asked = self.walk([], lambda: self.Plane(p, n))
        if raw:
            pl.n = self.Vector(*[c for c in n])
        return pl, asked


def header(real):
    if real:
        return ['import G3D.Model.VecR', 'import Mathlib.Analysis.Real.Sqrt',
                '/-! GENERATED by tools/extract_kernelsr.py: the arithmetic kernels of the REAL predicates / constructions run on',
                '    symbolic numbers, terms with sqrt and |.| over the reals — do not edit -/',
                'set_option linter.unusedVariables false', 'namespace G3D.Extracted', 'open G3D', '']
    return ['import G3D.Model.Vec',
            '/-! GENERATED by tools/extract_kernels.py: the arithmetic kernels of the REAL predicates / constructions run on',
            '    symbolic numbers, sqrt-free terms over Rat — do not edit -/',
            'set_option linter.unusedVariables false', 'namespace G3D.Extracted', 'open G3D', '']


def same(t1, t2, what):
    if t1 != t2:
        raise TypeError('%s: two places that should hold the same expression differ' % what)


def main(repo, real):
    w = Walker(repo, real)
    V, P = w.V, w.P
    inter, dist = w.m['intersection'], w.m['distance']

    def residuals(name, order, asked, idxs, label='residual'):
        """one definition per listed comparison: its single tolerance-free operand"""
        for k, i in enumerate(idxs):
            w.define('%s_%s%d' % (name, label, k), order, w.holes(asked[i], 1)[0])

    def expect_true(r, what):
        if r is not True:
            raise TypeError('%s: expected the python value True, got %r' % (what, r))

    if not real:
        # ---------------------------------------------------------------- A  Plane.__contains__(Point)
        w.comment('`Plane.__contains__(Point)`: `abs(other.pv() * self.n - self.p.pv() * self.n) < get_eps()`')
        pl, asked = w.mk_plane(P('p'), V('n'), raw=True)
        w.define_path('planeCtor', asked)
        x = P('x')
        r, asked = w.walk([True], lambda: x in pl)
        expect_true(r, 'Plane.__contains__')
        w.define('planeContains_residual', ['p', 'n', 'x'], w.holes(asked[0], 1)[0])
        w.define_path('planeContains', asked, 0)
        # Plane.__contains__(Line): Point(l.sv) in self and self.parallel(l)
        w.comment('`Plane.__contains__(Line)`: `Point(other.sv) in self and self.parallel(other)` (parallel(Plane, Line) = `l.dv.orthogonal(n)`)')
        l, asked = w.mk_line(P('sv'), V('dv'))
        r, asked = w.walk([True, True], lambda: l in pl)
        expect_true(r, 'Plane.__contains__(Line)')
        residuals('planeContainsLine', ['p', 'n', 'sv', 'dv'], asked, [0, 1])
        w.define_path('planeContainsLine', asked)
        # ---------------------------------------------------------------- A  Vector.orthogonal
        w.comment('`Vector.orthogonal`: `abs(self * other) < get_eps()`')
        a, b = V('a'), V('b')
        r, asked = w.walk([True], lambda: a.orthogonal(b))
        expect_true(r, 'Vector.orthogonal')
        w.define('orthogonal_residual', ['a', 'b'], w.holes(asked[0], 1)[0])
        w.define_path('orthogonal', asked, 0)
        # ---------------------------------------------------------------- A  Vector.__eq__ / Point.__eq__
        w.comment('`Vector.__eq__`: `abs(a[i] - b[i]) < get_eps()` for i = 0, 1, 2 (conjunction, all three asked on the True path)')
        r, asked = w.walk([True, True, True], lambda: a == b)
        expect_true(r, 'Vector.__eq__')
        residuals('vectorEq', ['a', 'b'], asked, [0, 1, 2])
        w.define_path('vectorEq', asked)
        w.comment('`Point.__eq__`')
        p, q = P('p'), P('q')
        r, asked = w.walk([True, True, True], lambda: p == q)
        expect_true(r, 'Point.__eq__')
        residuals('pointEq', ['p', 'q'], asked, [0, 1, 2])
        w.define_path('pointEq', asked)
        # ---------------------------------------------------------------- A  forms
        w.comment('`Plane.general_form()` -> (a, b, c, d); `Plane.point_normal()` -> (p, n)   (normal kept raw)')
        gf, asked = w.walk([], lambda: pl.general_form())
        if len(gf) != 4:
            raise TypeError('general_form returned %d values' % len(gf))
        for nm, val in zip('abcd', gf):
            w.define('generalForm_' + nm, ['p', 'n'], w.num(val, 'general_form'))
        pn, asked = w.walk([], lambda: pl.point_normal())
        if len(pn) != 2:
            raise TypeError('point_normal returned %d values' % len(pn))
        w.define_vec('pointNormal_p', ['p', 'n'], list(pn[0]))
        w.define_vec('pointNormal_n', ['p', 'n'], list(pn[1]))
        w.comment('`Line(Point, Vector)` / `Line(Point, Point)` and `Line.parametric()` -> (sv, dv); the constructor rejects `dv == Vector.zero()`')
        pp, vv = P('p'), V('v')
        l2, asked = w.walk([False], lambda: w.Line(pp, vv))
        residuals('lineCtor', ['p', 'v'], asked, [0])
        w.define_path('lineCtor', asked)
        par, asked0 = w.walk([], lambda: l2.parametric())
        w.define_vec('lineParametric_sv', ['p', 'v'], list(par[0]))
        w.define_vec('lineParametric_dv', ['p', 'v'], list(par[1]))
        try:
            w.walk([True, True, True], lambda: w.Line(pp, vv))
            raise TypeError('Line with zero direction was accepted')
        except ValueError:
            asked = REC.asked
            REC.asked = []
        residuals('lineCtorReject', ['p', 'v'], asked, [0, 1, 2])
        w.define_path('lineCtorReject', asked)
        l3, asked = w.walk([False], lambda: w.Line(P('p'), P('q')))
        par, asked0 = w.walk([], lambda: l3.parametric())
        w.define_vec('linePP_sv', ['p', 'q'], list(par[0]))
        w.define_vec('linePP_dv', ['p', 'q'], list(par[1]))
        # ---------------------------------------------------------------- B  inter_line_plane
        w.comment('`inter_line_plane(l, p)` on the path "not contained, not parallel": `mu = (n*p - n*sv) / (n*dv)`, `Point(sv + mu*dv)`')
        r, asked = w.walk([False, False], lambda: inter.inter_line_plane(l, pl))
        if not isinstance(r, w.Point):
            raise TypeError('inter_line_plane: expected a Point')
        residuals('interLinePlane', ['sv', 'dv', 'p', 'n'], asked, [0], 'containsResidual')
        residuals('interLinePlane', ['sv', 'dv', 'p', 'n'], asked, [1], 'parallelResidual')
        w.define_path('interLinePlane', asked)
        comps = [w.num(c, 'inter_line_plane point') for c in (r.x, r.y, r.z)]
        mus = []
        for c, nm in zip(comps, 'xyz'):
            # sv.i + dv.i * mu
            if not (c[0] == '+' and c[1] == ('v', 'sv.' + nm) and c[2][0] == '*' and c[2][1] == ('v', 'dv.' + nm)):
                raise TypeError('inter_line_plane: result component is not sv + dv*mu')
            mus.append(c[2][2])
        same(mus[0], mus[1], 'mu'), same(mus[0], mus[2], 'mu')
        w.define('interLinePlane_mu', ['sv', 'dv', 'p', 'n'], mus[0])
        w.define_vec('interLinePlane_point', ['sv', 'dv', 'p', 'n'], [r.x, r.y, r.z])
        r, asked = w.walk([True, True], lambda: inter.inter_line_plane(l, pl))
        if r is not l:
            raise TypeError('inter_line_plane: contained line is not returned as is')
        w.define_path('interLinePlaneContained', asked)
        r, asked = w.walk([False, True], lambda: inter.inter_line_plane(l, pl))
        if r is not None:
            raise TypeError('inter_line_plane: parallel case does not return None')
        w.define_path('interLinePlaneParallel', asked)
        r, asked = w.walk([True, False, False], lambda: inter.inter_line_plane(l, pl))
        if not isinstance(r, w.Point):
            raise TypeError('inter_line_plane: expected a Point')
        w.define_path('interLinePlaneSvInPlane', asked)
        # ---------------------------------------------------------------- C  HalfLine.__contains__(Point)
        w.comment('`HalfLine.__contains__(Point)`: `r1 = other in self.line; if r1: v1 * self.vector > -get_eps()`')
        h, asked = w.walk([False, False], lambda: w.HalfLine(P('p'), V('v')))
        w.define_path('halfLineCtor', asked)
        r, asked = w.walk([False, False, False, True, True], lambda: x in h)
        expect_true(r, 'HalfLine.__contains__')
        w.define('halfLineContains_proj', ['p', 'v', 'x'], w.holes(asked[4], 1)[0])
        w.define_path('halfLineContains', asked, 4)
        r, asked = w.walk([False, False, False, False], lambda: x in h)
        if r is not False:
            raise TypeError('HalfLine.__contains__: off the line must be False')
        w.define_path('halfLineContainsOffLine', asked)
    else:
        a, b = V('a'), V('b')
        # ---------------------------------------------------------------- D  length / normalized
        w.comment('`Vector.length`: `(self * self) ** 0.5`')
        r, asked = w.walk([], lambda: a.length())
        w.define('length', ['a'], w.num(r, 'length'))
        w.comment('`Vector.normalized`: `float(1 / self.length()) * self`')
        r, asked = w.walk([], lambda: a.normalized())
        w.define_vec('normalized', ['a'], list(r))
        # ---------------------------------------------------------------- D  parallel
        w.comment('`Vector.parallel`: zero / equal shortcuts, then `abs(abs(a*b) - |a|*|b|) < get_eps() * |a|`')
        r, asked = w.walk([False, False, False, True], lambda: a.parallel(b))
        expect_true(r, 'Vector.parallel')
        hs = w.holes(asked[3], 2)
        w.define('parallel_residual', ['a', 'b'], hs[0])
        w.define('parallel_scale', ['a', 'b'], hs[1])
        residuals('parallel', ['a', 'b'], asked, [0, 1, 2], 'pre')
        w.define_path('parallel', asked, 3)
        for nm, script in (('parallelSelfZero', [True, True, True]), ('parallelOtherZero', [False, True, True, True]),
                           ('parallelEqual', [False, False, True, True, True])):
            r, asked = w.walk(script, lambda: a.parallel(b))
            expect_true(r, nm)
            residuals(nm, ['a', 'b'], asked, [len(script) - 3, len(script) - 2, len(script) - 1])
            w.define_path(nm, asked)
        # ---------------------------------------------------------------- D  Line.__contains__(Point)
        w.comment('`Line.__contains__(Point)`: `(other.pv() - self.sv).parallel(self.dv)`')
        l, asked = w.mk_line(P('sv'), V('dv'))
        x = P('x')
        r, asked = w.walk([False, False, False, True], lambda: x in l)
        expect_true(r, 'Line.__contains__')
        hs = w.holes(asked[3], 2)
        w.define('lineContains_residual', ['sv', 'dv', 'x'], hs[0])
        w.define('lineContains_scale', ['sv', 'dv', 'x'], hs[1])
        w.define_path('lineContains', asked, 3)
        # ---------------------------------------------------------------- D  angle
        w.comment('`Vector.angle`: `cosine = a*b / (|a|*|b|)`, clamped by `max(-1.0, min(1.0, cosine))`, `math.acos`')
        r, asked = w.walk([True, True], lambda: a.angle(b))
        t = w.num(r, 'angle')
        if t[0] != 'acos':
            raise TypeError('Vector.angle is not an acos')
        same(t[1], w.holes(asked[0], 1)[0], 'cosine'), same(t[1], w.holes(asked[1], 1)[0], 'cosine')
        w.define('angle_cosine', ['a', 'b'], t[1])
        w.define_path('angle', asked)
        # ---------------------------------------------------------------- D  Point.distance
        w.comment('`Point.distance`: `math.sqrt((x-x\')**2 + (y-y\')**2 + (z-z\')**2)`')
        p, q = P('p'), P('q')
        r, asked = w.walk([], lambda: p.distance(q))
        w.define('pointDistance', ['p', 'q'], w.num(r, 'Point.distance'))
        # ---------------------------------------------------------------- C  Segment.__contains__(Point)
        w.comment('`Segment.__contains__(Point)`: `r1 = other in self.line`; `|v1| < eps` -> True; else `rel = v1*v / |v| / |v|`, `r1 and rel > -eps and rel < 1 + eps`')
        s, asked = w.walk([False, False], lambda: w.Segment(P('a'), P('b')))
        w.define_path('segCtor', asked)
        r, asked = w.walk([False, False, False, True, False, True, True], lambda: x in s)
        expect_true(r, 'Segment.__contains__')
        hs = w.holes(asked[3], 2)
        w.define('segContains_lineResidual', ['a', 'b', 'x'], hs[0])
        w.define('segContains_lineScale', ['a', 'b', 'x'], hs[1])
        w.define('segContains_startDist', ['a', 'b', 'x'], w.holes(asked[4], 1)[0])
        rel = w.holes(asked[5], 1)[0]
        same(rel, w.holes(asked[6], 1)[0], 'relative length')
        w.define('segContains_rel', ['a', 'b', 'x'], rel)
        w.define_path('segContains', asked)
        r, asked = w.walk([False, False, False, False, True], lambda: x in s)
        expect_true(r, 'Segment.__contains__ at the start point')
        w.define_path('segContainsStart', asked)
        r, asked = w.walk([False, False, False, False, False], lambda: x in s)
        if r is not False:
            raise TypeError('Segment.__contains__: off the line must be False')
        w.define_path('segContainsOffLine', asked)
        w.comment('`HalfLine.__contains__(Point)`: the carrier-line test (the projection test is in Kernels.lean)')
        h, asked = w.walk([False, False], lambda: w.HalfLine(P('p'), V('v')))
        hs = w.holes(asked[0], 1)
        w.define('halfLineCtor_length', ['p', 'v'], hs[0])
        r, asked = w.walk([False, False, False, True, True], lambda: x in h)
        hs = w.holes(asked[3], 2)
        w.define('halfLineContains_lineResidual', ['p', 'v', 'x'], hs[0])
        # ---------------------------------------------------------------- A'  Plane.__contains__ with the stored unit normal
        w.comment('`Plane.__contains__(Point)` on a plane exactly as constructed (`self.n = normale.normalized()`)')
        pl, asked = w.mk_plane(P('p'), V('n'), raw=False)
        w.define_vec('planeCtor_n', ['p', 'n'], list(pl.n))
        r, asked = w.walk([True], lambda: x in pl)
        w.define('planeContainsN_residual', ['p', 'n', 'x'], w.holes(asked[0], 1)[0])
        w.define_path('planeContainsN', asked, 0)
        # ---------------------------------------------------------------- D  calc/distance.py
        d = dist.distance
        w.comment('`distance(Point, Point)`: `Vector(a, b).length()`')
        r, asked = w.walk([], lambda: d(p, q))
        w.define('distPointPoint', ['p', 'q'], w.num(r, 'distance'))
        w.comment('`distance(Point, Line)`: `aux = Plane(a, l.dv); foot = intersection(aux, l); distance(a, foot)`')
        r, asked = w.walk([False, False], lambda: d(x, l))
        w.define('distPointLine', ['x', 'sv', 'dv'], w.num(r, 'distance'))
        w.define_path('distPointLine', asked)
        w.comment('`distance(Point, Plane)`: `aux = Line(a, pl.n); foot = intersection(aux, pl); distance(a, foot)`  (unit normal as stored)')
        r, asked = w.walk([False, False, False], lambda: d(x, pl))
        w.define('distPointPlane', ['x', 'p', 'n'], w.num(r, 'distance'))
        w.define_path('distPointPlane', asked)
        w.comment('`distance(Line, Line)`, not parallel: `abs((b.sv - a.sv) * a.dv.cross(b.dv).normalized())`')
        l1, asked = w.mk_line(P('s1'), V('d1'))
        l2, asked = w.mk_line(P('s2'), V('d2'))
        r, asked = w.walk([False, False, False, False], lambda: d(l1, l2))
        w.define('distLineLineSkew', ['s1', 'd1', 's2', 'd2'], w.num(r, 'distance'))
        w.define_path('distLineLineSkew', asked)
        w.comment('`distance(Line, Line)`, parallel: `distance(Point(a.sv), b)`')
        r, asked = w.walk([False, False, False, True, False, False], lambda: d(l1, l2))
        w.define('distLineLinePar', ['s1', 'd1', 's2', 'd2'], w.num(r, 'distance'))
        w.define_path('distLineLinePar', asked)
        w.comment('`distance(Line, Plane)`: parallel (`dv.orthogonal(n)`) -> `distance(Point(l.sv), pl)`; else the float 0.0')
        r, asked = w.walk([True, False, False, False], lambda: d(l, pl))
        w.define('distLinePlanePar', ['sv', 'dv', 'p', 'n'], w.num(r, 'distance'))
        w.define_path('distLinePlanePar', asked)
        r, asked = w.walk([False], lambda: d(l, pl))
        if not (isinstance(r, float) and r == 0.0):
            raise TypeError('distance(Line, Plane) of a crossing pair is not the float 0.0')
        w.out.append('def impl_distLinePlaneCross_value : String := "%r"' % r)
        w.define_path('distLinePlaneCross', asked)
        # ---------------------------------------------------------------- B  inter_plane_plane
        w.comment('`inter_plane_plane(a, b)` on the path "different, not parallel": `line_v = a.n.cross(b.n).normalized()`, '
                  '`aux = Line(a.p, line_v.cross(a.n).normalized())`, `Line(inter_line_plane(aux, b), line_v)`   (unit normals as stored)')
        pa, asked = w.mk_plane(P('p1'), V('n1'), raw=False)
        pb, asked = w.mk_plane(P('p2'), V('n2'), raw=False)
        r, asked = w.walk([False, False, False, False, False, False, False, False, False], lambda: inter.inter_plane_plane(pa, pb))
        if not isinstance(r, w.Line):
            raise TypeError('inter_plane_plane: expected a Line')
        o4 = ['p1', 'n1', 'p2', 'n2']
        w.share_sqrts('interPlanePlane', o4, [w.num(c, 'inter_plane_plane') for c in list(r.dv) + list(r.sv)])
        w.define_vec('interPlanePlane_dv', o4, list(r.dv))
        w.define_vec('interPlanePlane_sv', o4, list(r.sv))
        w.unshare()
        w.define_path('interPlanePlane', asked)
        # ---------------------------------------------------------------- C  aux_calc projections
        w.comment('`get_projection_length(v1, v2)`: `v1*v2 / |v2|`; `get_relative_projection_length`: that `/ |v2|` (calc/aux_calc.py)')
        r, asked = w.walk([], lambda: w.m['aux'].get_projection_length(a, b))
        w.define('projectionLength', ['a', 'b'], w.num(r, 'get_projection_length'))
        r, asked = w.walk([], lambda: w.m['aux'].get_relative_projection_length(a, b))
        w.define('relativeProjectionLength', ['a', 'b'], w.num(r, 'get_relative_projection_length'))
        # ---------------------------------------------------------------- E  Heron
        w.comment('`get_triangle_area(pa, pb, pc)` (geometry/polygon.py): Heron with `a = |pa pb|`, `b = |pb pc|`, `c = |pc pa|`')
        A, B, C = P('pa'), P('pb'), P('pc')
        r, asked = w.walk([], lambda: w.m['polygon'].get_triangle_area(A, B, C))
        w.define('triangleArea', ['pa', 'pb', 'pc'], w.num(r, 'get_triangle_area'))
    out = header(real) + w.out + ['', 'end G3D.Extracted', '']
    sys.stdout.write('\n'.join(out))


if __name__ == '__main__':
    main(sys.argv[1], False)
