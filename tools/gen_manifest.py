#!/usr/bin/env python3
"""Regenerates /verif/MANIFEST.json from the table below (kept in one place so the manifest stays valid)."""
import json, os
V = os.path.dirname(os.path.dirname(os.path.abspath(__file__)))

COMMON_NOTE = ("Trusted: Lean 4.33 kernel + Mathlib tactics; axioms propext/Classical.choice/Quot.sound only (audited by #print axioms on every run); "
               "the hand-written exact-arithmetic Lean model (tolerance tests read as exact tests on the property's exact-or-margin inputs; unit normals kept unnormalised; "
               "squared/rational measures) — tied to /repo on every run by the correspondence (real code in-process vs the compiled model driver, same cases, compared by denotation) "
               "and, where named, by translators that regenerate Lean tables/terms from the source; Python harness (generators, admission filter, float->exact conversion). "
               "Not modelled: IEEE rounding, libm, CPython hash/set internals.")

P = {
 'C01': dict(tech='Lean 4 theorem inter_flat_exact (all 25 pairs, all rational inputs) over the dispatcher generated from the source + differential correspondence',
             text='PROOF (full): for all well-formed rational flats the model of intersection — whose dispatcher is regenerated from calc/intersection.py on every run — returns a well-formed flat denoting exactly the common point set (None iff disjoint, touching gives a Point, no internal error). The model is tied to the code by the extracted dispatch table and by a seeded differential run over all 25 ordered type pairs in constructed collinear/coplanar/touching/nested positions.',
             ref='DESIGN.md §5 C01'),
 'C02': dict(tech='Lean 4 theorems (K0, K1, K3, K5: all ten flat × polygon/polyhedron pairs exact in both orders) + Lean judge of the hypotheses on every body + three-way correspondence incl. exact vertex-enumeration oracle',
             text='PROOF (full under the stated hypotheses): all five flat × ConvexPolygon pairs (every Valid polygon; kernels K0, K1) and all five flat × ConvexPolyhedron pairs (kernels K3, K5; every polyhedron meeting ExactHyp: Valid faces, closed surface, vertices on the inner side of every face, no two neighbouring faces coplanar, edge list = face edges) are proved EXACT in both argument orders: the call returns without error an object denoting exactly f ∩ hull(vertices), None iff empty, a returned Segment proper. The constructor output meets ExactHyp for the faces of any Valid body without coplanar neighbours, in any order / start vertex / orientation (bridge theorem), and exactHypB (soundness proved) judges every body of the run. The hypothesis on coplanar neighbours cannot be dropped (counterexample proved in Lean, reproduced on the implementation; outside the property, whose faces are the maximal faces). Correspondence: implementation vs model vs independent exact vertex enumeration on constructed degenerate positions.',
             ref='DESIGN.md §5 C02'),
 'C03': dict(tech='Lean 4 theorems (kernels K0–K6: polygon × polygon, polygon × polyhedron exact; polyhedron × polyhedron exact whenever it returns) + three-way correspondence against exact vertex enumeration',
             text='PROOF (partial): SOUNDNESS is proved for every polygon/polyhedron pair, including the coplanar polygon case and polyhedron × polyhedron (every point of the result lies in both operands); polygon × polygon is proved EXACT in every relative position, coplanar overlaps / nesting / touching included (kernels K0, K1, K2, K6), never raising; polygon × polyhedron is proved EXACT in both orders for every Valid polygon and every polyhedron meeting ExactHyp (K3 plane section composed with K0/K1/K2), never raising; polyhedron × polyhedron (K4): whatever is returned — None, Point, proper Segment, polygon or polyhedron — denotes exactly A ∩ B, touching and disjoint bodies are returned without error, no "Bug detected" branch is reachable, and the only possible exception is the check inside ConvexPolyhedron(collected faces) when the bodies overlap. Not proved: that this final constructor call succeeds (Euler) and stores a Valid body; decided per run by comparing implementation, executable model and exact vertex enumeration (dimension and vertex set, hence measures) on 9 templates. Rational poses only.',
             ref='DESIGN.md §5 C03'),
 'C04': dict(tech='translator (isinstance chain + documentation table -> Lean) + decide over the finite tables + correspondence over all 49 pairs × 3 call forms',
             text='PROOF (full for the dispatch logic): the 49-cell table, None guard and fall-through are extracted from the current source and Lean decides totality, symmetry (same handler, swapped arguments), foreign-type rejection, coverage of the documentation table, and that the table-driven dispatcher equals the reference dispatcher. That the call never raises (no "Bug detected") is proved for every ordered type pair except polyhedron × polyhedron (flats: C01; polygons / polyhedra: kernels K0–K3, K6, for Valid polygons and polyhedra meeting ExactHyp); for polyhedron × polyhedron no "Bug detected" branch is reachable and only the final ConvexPolyhedron(collected faces) check can raise (K4), and whenever a call returns its result type is in the documented list (all 49 pairs, all operands). Polyhedron × polyhedron and the implementation side are decided per run by the correspondence (function form, swapped operands, method form, None).',
             ref='DESIGN.md §5 C04'),
 'C05': dict(tech='Lean 4 iff-theorems per container/candidate type + three-way correspondence against exact containment',
             text='PROOF (full under the stated validity hypotheses): membership ⇔ containment for Point in Line/HalfLine/Segment/Plane/ConvexPolygon (hull, boundary included), Point and Segment in ConvexPolyhedron (kernel K5: face tests of a Valid closed convex polyhedron = convex hull of its vertices, both directions), Segment in Line/HalfLine/Segment/Plane/ConvexPolygon, HalfLine in Line/HalfLine/Plane, Line in Plane, ConvexPolygon in Plane, ConvexPolygon in ConvexPolyhedron (both directions). That an implementation-built body is Valid is judged per run by the Lean decision procedure validB (proved sound). Correspondence: 18 (candidate, container) combinations, three-way against exact H-representation containment.',
             ref='DESIGN.md §5 C05'),
 'C06': dict(tech='Lean 4 theorems (fan area = shoelace; closed surface ⇒ reference-independent volume; invariance under vertex order, face order and face orientation; volume = surface integral) + correspondence against exact rational measures',
             text='PROOF (full relative to the shoelace / surface-integral definitions): the fan-of-triangles area of a Valid polygon equals the shoelace value for any fan centre; the squared area of a constructed polygon is |½ Σ pᵢ×pᵢ₊₁|² and — with the edge-length multiset and the centre — does not depend on the order / repetition of the input points or the reverse flag; -P has the same measures; the vector areas of a closed surface cancel, so the pyramid-sum volume of a constructed body equals ⅙ Σ (p₀−q)·A_f for every reference point, is ≥ 0, and volume, edge-length multiset, face-area multiset and centre are the same for any two constructions from the faces of one Valid body in any face order, start vertex and orientation; per-face h·A/3 is the cone term; moved bodies keep their measures. Float accuracy (1e-9), Heron and square roots are decided per run against exact rational cross-product/determinant values over all permutations / shuffles / orientations.',
             ref='DESIGN.md §5 C06'),
 'C10': dict(tech='Lean 4 theorems distance_is_minimum / symm / zero_iff_meet + extracted dispatch chain + correspondence',
             text='PROOF (full): on all documented pairs (incl. parallel, skew, intersecting lines; line parallel to / in / crossing a plane) the model of distance — through the same auxiliary constructions as the code — attains and lower-bounds the Euclidean distance, is symmetric, and is zero iff intersection is not None; the isinstance chain is extracted and decided. Float evaluation is compared with the exact value at 1e-9.',
             ref='DESIGN.md §5 C10'),
 'C11': dict(tech='Lean 4 theorems over Rat (cos² range, parallel⇔0, orthogonal⇔π/2, symmetry) and over ℝ (acute∘arccos) + extracted chains + correspondence',
             text='PROOF (partial only at float rounding): cos² ∈ [0,1]; acute(acos t) = arccos|t| ∈ [0,π/2]; parallel ⇔ angle 0 and orthogonal ⇔ angle π/2 for all type pairs; symmetry; dispatch chains extracted. "Never raises for (anti)parallel operands" depends on float rounding of the cosine and is decided by the correspondence on exactly parallel pairs of every length ratio.',
             ref='DESIGN.md §5 C11'),
 'C16': dict(tech='Lean 4 theorems for general m×n over a structural model of solver.py + exact differential run with Lean-side Sat judge',
             text='PROOF (full, any m×n): solvable ⇔ consistent; any parameter values give a complete tuple satisfying the ORIGINAL system; parameters are read back at the non-pivot columns and every solution is reached (varargs = unknowns − rank). The structural model is tied to solver.py by an exact (Fraction) differential run: same truthiness, varargs and tuple, tuples judged by the Lean `sat` decision procedure; rank/consistency cross-checked by an independent elimination.',
             ref='DESIGN.md §5 C16'),
 'C17': dict(tech='Lean 4 theorems (general form for every zero pattern through the solver model, round trip, three points, negation) + correspondence',
             text='PROOF (full): Plane(a,b,c,d) is constructed for every (a,b,c) ≠ 0 (every zero pattern, through the solver model) and contains exactly the solutions; general-form, point-normal and parametric round trips (v, w independent and parallel to P for every normal, through the two solver calls of the code); three-point plane; negation; the line forms. The correspondence replays all of it on the implementation over lattice poses with every zero pattern.',
             ref='DESIGN.md §5 C17'),
 'C18': dict(tech='symbolic-execution translator (real Vector/Point methods on polynomial indeterminates -> Lean terms) + ring proofs + type-matrix correspondence',
             text='PROOF (full for the component formulas, all inputs): the terms computed by the CURRENT Vector/Point methods are regenerated on every run and proved equal to the textbook formulas by ring, with the three identities as corollaries and the promotion table decided. Numeric-type preservation and length/normalized/angle consistency are runtime facts decided by the correspondence over int/Fraction/Decimal/float/user type.',
             ref='DESIGN.md §5 C18'),
 'C07': dict(tech='Lean 4 theorems (move = fresh object, histories by induction, polygon validity/membership/measures under move) + history correspondence against fresh objects',
             text='PROOF (partial only for non-membership queries of polyhedra): for Point, Line, Plane, Segment, HalfLine the moved receiver IS the freshly constructed object (cached carrier line rebuilt), denotes the translated set, returned = receiver, move back restores it, and after ANY list of moves it equals one move by the sum (induction). ConvexPolygon: vertices translated in order, the recomputed plane keeps validity, membership / edge lengths / area invariant, histories, and returned == receiver (kernel K6: re-sorting a counter-clockwise cycle is the identity). ConvexPolyhedron: the move of a Valid body succeeds, returned = receiver, the result is Valid, meets the hypotheses of the exactness theorems again, and its membership test is the translated one. Decided per run: histories of 1-6 moves with deepcopy interleaved, receiver and returned object against a fresh object over membership, intersection (incl. probes through the old position and coplanar probes), distance, angle, measures, ==, hash.',
             ref='DESIGN.md §5 C07'),
 'C08': dict(tech='Lean 4 iff-theorems (== ⇔ same set ⇔ same hash key) for the five flat types + extracted isinstance guards + correspondence over alternative representations',
             text='PROOF (full for the flat types; composites modulo the hash-sum idealisation): for Line, Plane, Segment, HalfLine (and Point/Vector) == holds iff the objects denote the same set iff the exact hash keys of the CURRENT __hash__ agree (so a==b ⇒ hash equal, and different sets ⇒ unequal); reflexive, symmetric; isinstance guards of __eq__ extracted and decided. ConvexPolygon/ConvexPolyhedron: == is equality of hash SUMS in the code; the model equality (same vertex set and plane / same vertex and face sets) is proved ⇔ same point set (extreme points; K5, K6), reflexive, symmetric, transitive, and equal for re-ordered / re-oriented constructions; that the hash sums agree exactly when the sets do is decided per run over shuffled/duplicated vertex and face orders and near-miss shapes against the Lean equality and the exact oracle.',
             ref='DESIGN.md §5 C08'),
 'C12': dict(tech='Lean 4 corollaries of exactness (C01, K0–K3, K6): associativity, self, subset, result = a ∩ b for all admissible operand triples without a direct polyhedron × polyhedron call + correspondence over all 343 type triples',
             text='PROOF (partial): result ⊆ a ∩ b is proved for ALL 49 type pairs (every vertex and every point of the result lies in both operands); for flats associativity (both nestings denote exactly a∩b∩c, None absorbing), intersection(a,a)=a and a⊆b ⇒ intersection=a are theorems about the table-driven dispatcher, plus: for ALL admissible operands (well-formed flats, Valid polygons, polyhedra meeting ExactHyp) the result denotes exactly a ∩ b, intersection(a,a)=a, a⊆b ⇒ intersection(a,b)=intersection(b,a)=a, and associativity with both nestings denoting exactly a∩b∩c — for every type triple in which no two polyhedra are intersected with each other directly (kernels K0–K3, K6). Triples containing polyhedron × polyhedron need K4 and are decided per run on all 343 type triples against the exact triple intersection (vertex enumeration).',
             ref='DESIGN.md §5 C12'),
 'C09': dict(tech='Lean 4 theorems on the constructors (guarantees of a successful construction, translation equivariance) + Lean validity judge on every constructed object',
             text='PROOF (full relative to a Valid reference body): kernel K6 is proved — whatever the order and repetitions of the input, distinct coplanar points in strictly convex position are accepted and yield the Valid counter-clockwise cycle on exactly those points; -p is Valid about the reversed normal with the reversed cycle and -(-p) has p\'s cycle and normal direction; constructor commutes with translations. ConvexPolyhedron: given the faces of a Valid body in ANY order, with ANY start vertex and EITHER orientation, the constructor succeeds and stores a Valid body with every face outward, the same vertices and edges, Euler, centre = vertex mean strictly inside, and the same membership test (= hull of the vertices); a permuted face list gives the same centre, vertices, membership and volume. That a given face list is that of a Valid body is judged per constructed object by the Lean decision procedure (proved sound: validB ⇒ Valid ⇒ membership = hull). Correspondence: permuted / duplicated polygons, re-oriented shuffled polyhedra, -p, -(-p), fed-back sections, compared with the model constructor and the exact hull.',
             ref='DESIGN.md §5 C09'),
 'C13': dict(tech='Lean 4 theorems (48 signed permutations: dot/cross laws, membership and flat intersection equivariance, bijectivity) + metamorphic correspondence',
             text='PROOF (partial only for polyhedron × polyhedron results and constructor commutation): for all 48 signed permutations, translations and k>0: dot/cross laws (determinant factor), membership tests of every type incl. polygons and polyhedra commute, flat intersection is equivariant, angle/parallel/orthogonal and == are invariant, squared distance scales by k^2 (all documented pairs), lengths by k, polygon area by k^2 (Valid preserved under reflections with the pseudo-vector normal), polyhedron volume and the volume of any closed surface by k^3. intersection is equivariant for flats and Valid polygons (36 pairs) and with one polyhedron operand when the transformed body meets ExactHyp (from exactness). Constructor commutation and polyhedron × polyhedron are decided per run metamorphically (49 type pairs under random symmetries/translations/scalings).',
             ref='DESIGN.md §5 C13'),
 'C14': dict(tech='Lean 4: combinatorial skeletons (general n and decide +kernel over the whole finite range), frame-selection theorem, real-analysis theorems for vertices/steps/volumes + correspondence against closed forms',
             text='PROOF (partial): face lists exactly as coded with the constructor\'s flips: V/E/F, Euler, closedness and consistent orientation for every n ≥ 3 (Circle, Cylinder, Cone) and for the whole Sphere range 3..12 × 2..5 (kernel-evaluated table); the frame selection always finds a base vector not parallel to the normal (the raise is dead; D8 is the excluded case); over ℝ every vertex lies on the circle/cylinder/cone/sphere at equal angular and latitude steps, polygons convex, Cylinder and Cone volumes equal the closed forms; Parallelogram area and Parallelepiped volume |det| exactly. Not proved: closed-form areas of the round solids, Sphere volume/convexity. Decided per run: everything above on the implementation (counts, on-surface residuals, steps, rings, closed forms at 1e-9, arguments unmodified) over the 26 lattice axes, near-axis directions straddling SMALL_ANGLE, random directions.',
             ref='DESIGN.md §5 C14'),
 'C15': dict(tech='Lean 4 theorems on Except-valued constructors + extracted dispatch fall-through and move guards + correspondence over every invalid class',
             text='PROOF (full for the modelled constructors and dispatch tables): Line/Segment/HalfLine/Plane(4 forms)/ConvexPolygon/ConvexPolyhedron constructors return only objects satisfying the invariant and reject the degenerate classes; unsupported operand pairs of intersection/distance/angle/parallel/orthogonal/volume and move(non-Vector) raise (tables extracted from the source, incl. raise-vs-return). Parallelogram/Parallelepiped/Pyramid/Circle guards, the collinear-points helper and within-tolerance instances (points 1e-12 apart) are decided per run.',
             ref='DESIGN.md §5 C15'),
 'C19': dict(tech='Lean 4 invariant by induction over setter histories + decide over the extracted table of tolerance reads + correspondence on the property catalogue',
             text='PROOF (partial): after ANY sequence of set_eps/set_sig_figures calls the two globals are consistent (sig = round(-log10 eps)), defaults and restore behave as stated, coordinate comparison accepts ≤eps/1000 and rejects >4·eps, and every tolerance read in the package is a live getter call at query time (extracted table: no value frozen at import, no literal tolerance). The consequences for the six composite types under eps/1000 and eps/100 perturbations (==, hash, containment, coincident intersection) are decided per run on the property\'s catalogue at eps 1e-12..1e-5 through either setter.',
             ref='DESIGN.md §5 C19'),
 'C20': dict(tech='Lean 4 frame theorem by induction over arbitrary operation histories on a heap model + extracted write-effect sites + history correspondence with full snapshots',
             text='PROOF (full on the heap model): an owning composite keeps its observation under any history of constructions, writes to and moves of other roots, deep copies and queries (separation invariants preserved by every disciplined operation); queries are the identity on the state; every mutation site outside the mutators acts on a deep copy or a fresh local and the four owning constructors deep-copy their arguments (extracted from the source, decided). The model\'s constructor table (deep copy vs alias) is tied to the code per run: random histories with full attribute snapshots before/after every step and final comparison of every object with the heap model.',
             ref='DESIGN.md §5 C20'),
}


def main():
    thm = json.load(open(os.path.join(V, 'theorems.json')))
    allp = ['C%02d' % i for i in range(1, 21)]
    checks = []
    for pid in allp:
        if pid not in P or pid not in thm:
            continue
        p = P[pid]
        checks.append(dict(
            property_id=pid,
            quick_cmd='./check %s quick' % pid,
            thorough_cmd='./check %s thorough' % pid,
            evidence_file='evidence/%s.json' % pid,
            replay_cmd_template='./check %s --replay {path}' % pid,
            engine='lean4-model-and-correspondence',
            level_claimed=dict(category='proof', text=p['text'], design_ref=p['ref']),
            level_note=COMMON_NOTE + ' ' + ' | '.join(thm[pid].get('assumptions', [])),
            technique=p['tech'],
        ))
    na = [dict(property_id=pid, reason=NA.get(pid, 'check not yet registered in this commit (model/theorems exist under lean/; harness module under construction)'))
          for pid in allp if pid not in P or pid not in thm]
    m = dict(
        version=1,
        setup_cmd='cd lean && lake build G3D g3dmodel',
        hooks=dict(guard='GEOMETRY3D_VERIF', enable='no hooks are needed: every check imports /repo\'s working tree directly (sys.path, no bytecode)',
                   baseline_off_cmd='cd /repo && /venv/bin/python -m pytest -q -p no:cacheprovider', source_commits=[], add_only=True),
        engines=[dict(name='lean4-model-and-correspondence', path='lean/ + harness/ + tools/', serves_properties=[c['property_id'] for c in checks],
                      kind_free_text='Lean 4 theorems over an executable exact-rational model; translators regenerate Lean tables/terms from the source; Python correspondence harness drives the real code and the compiled model over a line protocol')],
        checks=checks,
        notes='exit 0 pass / 1 violation / 2 infrastructure; VERIF_SEED seeds every random choice; see DESIGN.md',
        not_applicable=na,
    )
    json.dump(m, open(os.path.join(V, 'MANIFEST.json'), 'w'), indent=1, ensure_ascii=False)
    print('checks:', [c['property_id'] for c in checks], 'na:', [x['property_id'] for x in na])


NA = {}
if __name__ == '__main__':
    main()
