#!/venv/bin/python
"""Self-test of the handler-body translator (tools/hextract.py via extract_h{flat,polygon,polyhedron,body}.py) and of
G3D/Proofs/HandlersTie{Flat,Polygon,Polyhedron,Body}.lean: small mutations of the handler bodies on a COPY of the library.
For every mutation the table says which generated files change, the exit status of the extractors, and which tie modules
(and which theorems in them) stop building.  A behaviour-changing mutation must break exactly the tie module(s) of the
group of the mutated function; two semantics-preserving edits must leave everything green.
usage: selftest_handlers.py   (writes only to /tmp/vh_repo and lean/G3D/Extracted/H*.lean, which are regenerated from
the working tree of ${G3D_SRC:-/repo} at the end)"""
import subprocess, shutil, os, sys, re, json
VERIF = os.path.dirname(os.path.dirname(os.path.abspath(__file__)))
REPO = os.environ.get('G3D_SRC', '/repo')
# the base of all mutations is a SNAPSHOT (the committed tree of the library when it is a git checkout, else a copy of
# the working tree taken now): other processes may be editing the working tree while this runs
BASE='/tmp/vh_repo/base'; SRC=os.path.join(BASE, 'Geometry3D'); DST='/tmp/vh_repo/Geometry3D'
shutil.rmtree('/tmp/vh_repo', ignore_errors=True); os.makedirs(BASE)
_ar = subprocess.run('git -C %s archive HEAD Geometry3D | tar -x -C %s' % (REPO, BASE), shell=True, capture_output=True)
if _ar.returncode != 0 or not os.path.isdir(SRC):
    shutil.rmtree(SRC, ignore_errors=True); shutil.copytree(os.path.join(REPO, 'Geometry3D'), SRC)
shutil.copytree(SRC, DST)
I='calc/intersection.py'; A='calc/aux_calc.py'
GROUPS=['hflat','hpolygon','hpolyhedron','hbody']
MODULE={'hflat':'HandlersTieFlat','hpolygon':'HandlersTiePolygon','hpolyhedron':'HandlersTiePolyhedron','hbody':'HandlersTieBody'}
# expected broken tie modules per mutation id (None = extractor marker / build failure in that group)
EXPECT={'M0':[], 'M1':['hpolyhedron'],'M2':['hpolyhedron'],'M3':['hbody'],'M4':['hpolyhedron'],'M5':['hpolyhedron'],'M6':['hpolyhedron'],
 'M7':['hpolyhedron'],'M8':['hpolyhedron'],'M9':['hbody'],'M10':['hbody'],'M11':['hpolyhedron'],'M12':['hpolyhedron'],'M13':['hpolyhedron'],
 'M14':['hflat'],'M15':['hpolygon'],'M16':['hpolygon'],'M17':[],'M18':[],'M19':['hbody'],'M20':['hbody'],'M21':['hflat']}
MUTS=[
 ('M0 control: no change', I, None, None),
 ('M1 remove `elif isinstance(inter_cpg_l, Point)` branch (inter_line_convexpolyhedron)', I,
  "        elif isinstance(inter_cpg_l, Point):\n            set_point.add(inter_cpg_l)\n", ""),
 ('M2 `len(set_point) == 1` -> `>= 1` (inter_line_convexpolyhedron)', I,
  "    elif len(set_point) == 1:\n        return list(set_point)[0]", "    elif len(set_point) >= 1:\n        return list(set_point)[0]"),
 ('M3 swap args of direct call inter_convexpolygon_convexPolyhedron(cph2, cpg)', I,
  "inter = inter_convexpolygon_convexPolyhedron(cph2, cpg)", "inter = inter_convexpolygon_convexPolyhedron(cpg, cph2)"),
 ('M4 drop final get_segment_from_point_list (inter_line_convexpolyhedron)', I,
  "        return get_segment_from_point_list(list_point)", "        return Segment(list_point[0], list_point[1])"),
 ('M5 iterate cph.segment_set instead of cph.convex_polygons (inter_line_convexpolyhedron)', I,
  "    set_point = set()\n    for cpg in cph.convex_polygons:", "    set_point = set()\n    for cpg in cph.segment_set:"),
 ('M6 early `return None` (inter_plane_convexpolyhedron, before the edge loop)', I,
  "    point_set = set()\n    for s in b.segment_set:", "    return None\n    point_set = set()\n    for s in b.segment_set:"),
 ('M7 remove `elif isinstance(inter_s_s, Segment): continue` (get_segment_convexpolyhedron_..._point_set, edge loop)', A,
  "        inter_s_s = seg.intersection(s)\n        if inter_s_s is None:\n            continue\n        elif isinstance(inter_s_s, Segment):\n            continue\n        elif isinstance(inter_s_s, Point):\n            point_set.add(inter_s_s)\n        else:\n            raise TypeError(\"Bug detected! please contact the author\")\n    return point_set\n\n\ndef get_segment_convexpolygon",
  "        inter_s_s = seg.intersection(s)\n        if inter_s_s is None:\n            continue\n        elif isinstance(inter_s_s, Point):\n            point_set.add(inter_s_s)\n        else:\n            raise TypeError(\"Bug detected! please contact the author\")\n    return point_set\n\n\ndef get_segment_convexpolygon"),
 ('M8 `and` -> `or` in the both-endpoints-inside test (inter_segment_convexpolyhedron)', I,
  "    if (a.start_point in b) and (a.end_point in b):\n        return a", "    if (a.start_point in b) or (a.end_point in b):\n        return a"),
 ('M9 `or` -> `and` in the None test (inter_convexpolygon_convexpolygon)', I,
  "if inter_p_cph1 is None or inter_p_cph2 is None:", "if inter_p_cph1 is None and inter_p_cph2 is None:"),
 ('M10 drop the membership test `if pa in b` (inter_convexpolygon_convexpolygon)', I,
  "            if pa in b:\n                point_set.add(pa)", "            point_set.add(pa)"),
 ('M11 swap generic call intersection(s, a) -> wrong operand intersection(s, b) (inter_plane_convexpolyhedron)', I,
  "inter_s_p = intersection(s, a)", "inter_s_p = intersection(s, b)"),
 ('M12 `range(2, len(point_list))` -> `range(1, ...)` (get_segment_from_point_list)', A,
  "    for i in range(2, len(point_list)):\n        pi = point_list[i]", "    for i in range(1, len(point_list)):\n        pi = point_list[i]"),
 ('M13 min <-> max for the start point (get_segment_from_point_list)', A,
  "p_start = copy.deepcopy(p0).move(v0 * min(relative_length_list))", "p_start = copy.deepcopy(p0).move(v0 * max(relative_length_list))"),
 ('M14 collinear: drop `if b.end_point in a` (inter_segment_segment)', I,
  "        if b.end_point in a:\n            point_set.add(b.end_point)\n", ""),
 ('M15 unknown construct: try/except around the loop (inter_segment_convexpolygon)', I,
  "    inter_l_p = intersection(a.line, b.plane)\n    if inter_l_p is None:\n        return None\n    elif isinstance(inter_l_p, Point):\n        if (not inter_l_p in a)",
  "    try:\n        inter_l_p = intersection(a.line, b.plane)\n    except Exception:\n        inter_l_p = None\n    if inter_l_p is None:\n        return None\n    elif isinstance(inter_l_p, Point):\n        if (not inter_l_p in a)"),
 ('M16 unknown helper call math.isclose(...) (inter_point_convexpolygon)', I,
  "    if p in cpg:\n        return p", "    if p in cpg and math.isclose(p.x, p.x):\n        return p"),
 ('M19 isolation: `while` loop in the directly-called handler inter_convexpolygon_convexPolyhedron', I,
  "    inter_p_cph = intersection(cph, cpg.plane)\n    if inter_p_cph is None:", "    inter_p_cph = intersection(cph, cpg.plane)\n    while False:\n        pass\n    if inter_p_cph is None:"),
 ('M20 isolation: helper points_in_a_line missing (renamed)', A, "def points_in_a_line(points):", "def points_in_a_line_renamed(points):"),
 ('M21 isolation: tuple-unpacking assignment in inter_segment_segment', I,
  "    if a.line == b.line:\n        point_set = set()\n        if a.start_point in b:\n            point_set.add(a.start_point)\n        if a.end_point in b:\n            point_set.add(a.end_point)\n        if b.start_point in a:",
  "    if a.line == b.line:\n        point_set, dummy = set(), 0\n        if a.start_point in b:\n            point_set.add(a.start_point)\n        if a.end_point in b:\n            point_set.add(a.end_point)\n        if b.start_point in a:"),
 ('M17 semantics-preserving: rename local set_point -> pts (inter_line_convexpolyhedron)', I, 'RENAME', None),
 ('M18 semantics-preserving: swap args of generic intersection(l, cpg) -> intersection(cpg, l) (inter_line_convexpolyhedron)', I,
  "inter_cpg_l = intersection(l, cpg)", "inter_cpg_l = intersection(cpg, l)"),
]
def run(cmd, **kw):
    return subprocess.run(cmd, capture_output=True, text=True, **kw)
def gen_path(g): return os.path.join(VERIF,'lean','G3D','Extracted',g.capitalize()+'.lean')
def extract(repo):
    out={}
    for g in GROUPS:
        ex=run(['/venv/bin/python','-B',os.path.join(VERIF,'tools','extract_%s.py'%g),repo])
        out[g]=ex
    return out
def thm_of(module, ln):
    src=open(os.path.join(VERIF,'lean','G3D','Proofs',module+'.lean')).read().split('\n')
    for i in range(int(ln)-1,-1,-1):
        m=re.match(r'(?:@\[[^\]]*\] )?(?:theorem|def) (\S+)',src[i])
        if m: return m.group(1)
    return '?'
ORIG={g: ex.stdout for g, ex in extract(BASE).items()}
rows=[]; bad=[]
for name, f, old, new in MUTS:
    mid=name.split()[0]
    shutil.rmtree(DST); shutil.copytree(SRC, DST)
    if old is not None:
        p=os.path.join(DST,f); s=open(p).read()
        if old=='RENAME':
            a=s.index('def inter_line_convexpolyhedron'); b=s.index('def inter_line_halfline')
            s2=s[:a]+s[a:b].replace('set_point','pts')+s[b:]
        else:
            assert s.count(old)>=1, name
            s2=s.replace(old,new,1)
        assert s2!=s, name
        open(p,'w').write(s2)
        r=run(['/venv/bin/python','-c','import ast,sys;ast.parse(open(sys.argv[1]).read())',p]); assert r.returncode==0,(name,r.stderr)
    exs=extract('/tmp/vh_repo')
    changed=[]; exits={}; msgs=[]
    for g in GROUPS:
        exits[g]=exs[g].returncode
        if exs[g].stderr.strip(): msgs.append(exs[g].stderr.strip().split('\n')[-1])
        text = exs[g].stdout if exs[g].returncode==0 else '-- extraction failed\n#exit_extraction_failed\n'
        if text!=ORIG[g]: changed.append(g.capitalize()+'.lean')
        open(gen_path(g),'w').write(text)
    broken=[]; failed_thms=[]
    for g in GROUPS:
        b=run(['lake','build','G3D.Proofs.'+MODULE[g]],cwd=os.path.join(VERIF,'lean'))
        if b.returncode!=0:
            broken.append(g)
            errs=re.findall(r'^error: G3D/Proofs/(\w+)\.lean:(\d+):\d+:', b.stdout+b.stderr, re.M)
            failed_thms += sorted({thm_of(m,ln) for m,ln in errs if m==MODULE[g]}) or ['(import of generated file fails)']
    row=dict(mutation=name, extractor_exit=exits, stderr=msgs, changed_files=changed,
             broken_modules=[MODULE[g] for g in broken], failing_theorems=failed_thms)
    rows.append(row); print(json.dumps(row),flush=True)
    if broken!=EXPECT[mid]: bad.append((mid,broken,EXPECT[mid]))
    exp_changed={GROUP.capitalize()+'.lean' for GROUP in EXPECT[mid]}
    if EXPECT[mid] and set(changed)!=exp_changed: bad.append((mid,'changed',changed))
# restore
exs=extract(REPO)
for g in GROUPS: open(gen_path(g),'w').write(exs[g].stdout)
b=run(['lake','build','G3D.Proofs.HandlersTie'],cwd=os.path.join(VERIF,'lean'))
print('regenerated from', REPO, '- build rc', b.returncode)
shutil.rmtree('/tmp/vh_repo', ignore_errors=True)
json.dump(rows, open('/tmp/vh_selftest_rows.json','w'), indent=1)
print('SELFTEST', 'FAILED' if bad or b.returncode else 'ok', bad)
sys.exit(1 if bad or b.returncode else 0)
