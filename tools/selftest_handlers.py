#!/venv/bin/python
"""Self-test of the handler-body translator (tools/extract_handlers.py) and of G3D/Proofs/HandlersTie.lean:
small mutations of the handler bodies on a COPY of the library must either make the translator exit non-zero or
change the generated term so that the equivalence theorems no longer build; two semantics-preserving edits must
leave the build green.  usage: selftest_handlers.py   (writes only to /tmp/vh_repo and lean/G3D/Extracted/Handlers.lean,
which is regenerated from ${G3D_SRC:-/repo} at the end)"""
import subprocess, shutil, os, sys, re
VERIF = os.path.dirname(os.path.dirname(os.path.abspath(__file__)))
REPO = os.environ.get('G3D_SRC', '/repo')
SRC=os.path.join(REPO, 'Geometry3D'); DST='/tmp/vh_repo/Geometry3D'
os.makedirs('/tmp/vh_repo', exist_ok=True)
if not os.path.isdir(DST): shutil.copytree(SRC, DST)
I='calc/intersection.py'; A='calc/aux_calc.py'
MUTS=[
 ('M0 control: no change', I, None, None),
 ('M1 remove `elif isinstance(inter_cpg_l, Point)` branch (inter_line_convexpolyhedron)', I,
  "        elif isinstance(inter_cpg_l, Point):\n            set_point.add(inter_cpg_l)\n", ""),
 ('M2 `len(set_point) == 1` -> `>= 1` (inter_line_convexpolyhedron)', I,
  "    elif len(set_point) == 1:\n        return list(set_point)[0]", "    elif len(set_point) >= 1:\n        return list(set_point)[0]"),
 ('M3 swap args of direct call inter_convexpolygon_convexPolyhedron(cph2, cpg)', I,
  "inter = inter_convexpolygon_convexPolyhedron(cph2, cpg)", "inter = inter_convexpolygon_convexPolyhedron(cpg, cph2)"),
 ('M4 drop final get_segment_from_point_list (inter_line_convexpolyhedron)', I,
  "        return get_segment_from_point_list(list_point)", "        return Segment(list_point[0], list_point[1])"),
 ('M5 iterate cph.segment_set instead of cph.convex_polygons (inter_line_convexpolyhedron)', I,
  "    set_point = set()\n    for cpg in cph.convex_polygons:", "    set_point = set()\n    for cpg in cph.segment_set:"),
 ('M6 early `return None` (inter_plane_convexpolyhedron, before the edge loop)', I,
  "    point_set = set()\n    for s in b.segment_set:", "    return None\n    point_set = set()\n    for s in b.segment_set:"),
 ('M7 remove `elif isinstance(inter_s_s, Segment): continue` (get_segment_convexpolyhedron_..._point_set, edge loop)', A,
  "        inter_s_s = seg.intersection(s)\n        if inter_s_s is None:\n            continue\n        elif isinstance(inter_s_s, Segment):\n            continue\n        elif isinstance(inter_s_s, Point):\n            point_set.add(inter_s_s)\n        else:\n            raise TypeError(\"Bug detected! please contact the author\")\n    return point_set\n\n\ndef get_segment_convexpolygon",
  "        inter_s_s = seg.intersection(s)\n        if inter_s_s is None:\n            continue\n        elif isinstance(inter_s_s, Point):\n            point_set.add(inter_s_s)\n        else:\n            raise TypeError(\"Bug detected! please contact the author\")\n    return point_set\n\n\ndef get_segment_convexpolygon"),
 ('M8 `and` -> `or` in the both-endpoints-inside test (inter_segment_convexpolyhedron)', I,
  "    if (a.start_point in b) and (a.end_point in b):\n        return a", "    if (a.start_point in b) or (a.end_point in b):\n        return a"),
 ('M9 `or` -> `and` in the None test (inter_convexpolygon_convexpolygon)', I,
  "if inter_p_cph1 is None or inter_p_cph2 is None:", "if inter_p_cph1 is None and inter_p_cph2 is None:"),
 ('M10 drop the membership test `if pa in b` (inter_convexpolygon_convexpolygon)', I,
  "            if pa in b:\n                point_set.add(pa)", "            point_set.add(pa)"),
 ('M11 swap generic call intersection(s, a) -> wrong operand intersection(s, b) (inter_plane_convexpolyhedron)', I,
  "inter_s_p = intersection(s, a)", "inter_s_p = intersection(s, b)"),
 ('M12 `range(2, len(point_list))` -> `range(1, ...)` (get_segment_from_point_list)', A,
  "    for i in range(2, len(point_list)):\n        pi = point_list[i]", "    for i in range(1, len(point_list)):\n        pi = point_list[i]"),
 ('M13 min <-> max for the start point (get_segment_from_point_list)', A,
  "p_start = copy.deepcopy(p0).move(v0 * min(relative_length_list))", "p_start = copy.deepcopy(p0).move(v0 * max(relative_length_list))"),
 ('M14 collinear: drop `if b.end_point in a` (inter_segment_segment)', I,
  "        if b.end_point in a:\n            point_set.add(b.end_point)\n", ""),
 ('M15 unknown construct: try/except around the loop (inter_segment_convexpolygon)', I,
  "    inter_l_p = intersection(a.line, b.plane)\n    if inter_l_p is None:\n        return None\n    elif isinstance(inter_l_p, Point):\n        if (not inter_l_p in a)",
  "    try:\n        inter_l_p = intersection(a.line, b.plane)\n    except Exception:\n        inter_l_p = None\n    if inter_l_p is None:\n        return None\n    elif isinstance(inter_l_p, Point):\n        if (not inter_l_p in a)"),
 ('M16 unknown helper call math.isclose(...) (inter_point_convexpolygon)', I,
  "    if p in cpg:\n        return p", "    if p in cpg and math.isclose(p.x, p.x):\n        return p"),
 ('M17 semantics-preserving: rename local set_point -> pts (inter_line_convexpolyhedron)', I, 'RENAME', None),
 ('M18 semantics-preserving: swap args of generic intersection(l, cpg) -> intersection(cpg, l) (inter_line_convexpolyhedron)', I,
  "inter_cpg_l = intersection(l, cpg)", "inter_cpg_l = intersection(cpg, l)"),
]
def run(cmd, **kw):
    return subprocess.run(cmd, capture_output=True, text=True, **kw)
rows=[]
for name, f, old, new in MUTS:
    shutil.rmtree(DST); shutil.copytree(SRC, DST)
    if old is not None:
        p=os.path.join(DST,f); s=open(p).read()
        if old=='RENAME':
            a=s.index('def inter_line_convexpolyhedron'); b=s.index('def inter_line_halfline')
            s2=s[:a]+s[a:b].replace('set_point','pts')+s[b:]
        else:
            assert s.count(old)>=1, name
            s2=s.replace(old,new,1)
        assert s2!=s, name
        open(p,'w').write(s2)
        # the mutated library must still be importable Python
        r=run(['/venv/bin/python','-c','import ast,sys;ast.parse(open(sys.argv[1]).read())',p]); assert r.returncode==0,(name,r.stderr)
    ex=run(['/venv/bin/python','-B',os.path.join(VERIF,'tools','extract_handlers.py'),'/tmp/vh_repo'])
    if ex.returncode!=0:
        rows.append((name,'extractor exit %d'%ex.returncode, ex.stderr.strip().split('\n')[-1])); print(rows[-1],flush=True); continue
    cur=open(os.path.join(VERIF,'lean','G3D','Extracted','Handlers.lean')).read()
    changed = ex.stdout!=ORIG if 'ORIG' in globals() else None
    if old is None: ORIG=ex.stdout
    open(os.path.join(VERIF,'lean','G3D','Extracted','Handlers.lean'),'w').write(ex.stdout)
    b=run(['lake','build','G3D.Proofs.HandlersTie'],cwd=os.path.join(VERIF,'lean'))
    errs=re.findall(r'^error: (G3D/\S+?\.lean):(\d+):\d+: (.*)$', b.stdout+b.stderr, re.M)
    if b.returncode==0:
        rows.append((name,'term %s; tie theorems BUILD'%('changed' if ex.stdout!=ORIG else 'unchanged'),''))
    else:
        # which theorem fails: map line numbers to theorem names
        src=open(os.path.join(VERIF,'lean','G3D','Proofs','HandlersTie.lean')).read().split('\n')
        def thm(fn,ln):
            if not fn.endswith('HandlersTie.lean'): return fn
            for i in range(int(ln)-1,-1,-1):
                m=re.match(r'theorem (\S+)',src[i])
                if m: return m.group(1)
            return '?'
        failed=sorted({thm(fn,ln) for fn,ln,_ in errs})
        rows.append((name,'term changed; build FAILS', ', '.join(failed) if failed else (b.stdout+b.stderr)[-300:]))
    print(rows[-1],flush=True)
# restore
ex=run(['/venv/bin/python','-B',os.path.join(VERIF,'tools','extract_handlers.py'),REPO])
open(os.path.join(VERIF,'lean','G3D','Extracted','Handlers.lean'),'w').write(ex.stdout)
b=run(['lake','build','G3D.Proofs.HandlersTie'],cwd=os.path.join(VERIF,'lean'))
print('restored, build rc', b.returncode)
shutil.rmtree('/tmp/vh_repo', ignore_errors=True)
bad=[r for r in rows[1:-2] if 'BUILD' in r[1]] + [r for r in rows[-2:]+rows[:1] if 'BUILD' not in r[1]]
print('SELFTEST', 'FAILED' if bad or b.returncode else 'ok', bad)
sys.exit(1 if bad or b.returncode else 0)
