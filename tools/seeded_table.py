#!/usr/bin/env python3
"""Rewrites the seeded-changes table of DESIGN.md (between the SEEDED-TABLE markers) from seeded/*/meta.json."""
import json, glob, os, re
V = os.path.dirname(os.path.dirname(os.path.abspath(__file__)))
rows = []
for mp in sorted(glob.glob(os.path.join(V, 'seeded', '*', 'meta.json'))):
    m = json.load(open(mp))
    sid = os.path.basename(os.path.dirname(mp))
    det = m.get('detected_by', [])
    own = m['property'] in det
    res = m.get('check_results', {}).get(m['property'], {})
    how = ''
    if own:
        how = 'no concrete input' if res.get('no_failing_input') else 'concrete replay'
    rows.append('| %s | %s | %s | %s | %s | %s |' % (sid, m['property'], m.get('summary', '').replace('|', '/')[:150], m.get('needs', '').replace('|', '/')[:110],
                                                  ('**yes** (%s)' % how) if own else '**NO**', ', '.join(c for c in det if c != m['property']) or '—'))
tbl = ['| id | property | change | needs | caught by its own check | also caught by |', '|---|---|---|---|---|---|'] + rows
n = len(rows)
caught = sum(1 for r in rows if '**yes**' in r)
tbl.append('')
tbl.append('%d confirmed seeded changes; %d caught by the check of the property they break.' % (n, caught))
p = os.path.join(V, 'DESIGN.md')
s = open(p).read()
s = re.sub(r'<!-- SEEDED-TABLE-BEGIN -->.*<!-- SEEDED-TABLE-END -->', '<!-- SEEDED-TABLE-BEGIN -->\n' + '\n'.join(tbl) + '\n<!-- SEEDED-TABLE-END -->', s, flags=re.S)
open(p, 'w').write(s)
print(n, 'rows,', caught, 'caught')
