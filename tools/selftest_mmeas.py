#!/venv/bin/python
"""Self-test of the measure translator (tools/extract_mmeas.py) and of G3D/Proofs/MeasTie*.lean: small mutations of the
measure bodies on a COPY of the library under /tmp/mmeas_mut.  For every mutation the extractor is re-run on the copy,
the generated file lean/G3D/Extracted/Mmeas.lean is replaced and the tie modules are rebuilt (one `lake build` at a time).
Reported per mutation: whether the extractor failed closed (`marker`: `m_<..>_EXTRACTION_FAILED`), which tie theorems
stopped compiling (`fail`), which modules could not be built because a module they import failed (`blocked`), or that
everything still builds (`green`).  Behaviour-changing mutations are expected to give `fail` or `marker`;
semantics-preserving rewrites MAY break a tie (the ties are syntactic about the shape of the body) — they are reported
as they are, with no expectation.
usage: [ONLY=M3,H1] selftest_mmeas.py      (writes only to /tmp/mmeas_mut — removed at the end — and to
lean/G3D/Extracted/Mmeas.lean, which is regenerated from ${G3D_SRC:-/repo} at the end)"""
import subprocess, shutil, os, sys, re, json, time
VERIF = os.path.dirname(os.path.dirname(os.path.abspath(__file__)))
REPO = os.environ.get('G3D_SRC', '/repo')
ROOT = '/tmp/mmeas_mut'
BASE = ROOT + '/base'; SRC = os.path.join(BASE, 'Geometry3D'); MUT = ROOT + '/mut'; DST = os.path.join(MUT, 'Geometry3D')
LEAN = os.path.join(VERIF, 'lean')
GEN = os.path.join(LEAN, 'G3D', 'Extracted', 'Mmeas.lean')
MODULES = ['MeasTieSegment', 'MeasTiePolygon', 'MeasTiePyramidHeight', 'MeasTiePyramid', 'MeasTiePolyhedronLength',
           'MeasTiePolyhedronArea', 'MeasTiePolyhedronVolume', 'MeasTieVolume', 'MeasTieVolumeEq', 'MeasTieExamples']
SEG = 'geometry/segment.py'; PG = 'geometry/polygon.py'; PY = 'geometry/pyramid.py'; PH = 'geometry/polyhedron.py'; VO = 'calc/volume.py'

WRAP = ("            if i == len(self.points) - 1:\n                index_1 = 0\n            else:\n                index_1 = i + 1\n"
        "            area += get_triangle_area(")
AREA_BODY = ("        area = 0\n        for i in range(len(self.points)):\n            index_0 = i\n"
             "            if i == len(self.points) - 1:\n                index_1 = 0\n            else:\n                index_1 = i + 1\n"
             "            area += get_triangle_area(\n                self.center_point, self.points[index_0], self.points[index_1]\n            )\n"
             "        return area\n")
LEN_LOOP = "        l = 0\n        for segment in self.segment_set:\n            l += segment.length()\n        return l\n"

# (id + description, file, old, new, expectation: 'break' = behaviour changes, a tie or the extraction must fail;
#  'any' = semantics-preserving rewrite, whatever happens is reported)
MUTS = [
 ('M0 control: no change', PG, None, None, 'green'),
 ('M1 ConvexPolygon.area: fan from points[0] instead of the centre (same value for convex polygons, other body)', PG,
  "self.center_point, self.points[index_0], self.points[index_1]", "self.points[0], self.points[index_0], self.points[index_1]", 'any'),
 ('M2 ConvexPolygon.area: wrap-around index dropped (`index_1 = i + 1` always)', PG,
  WRAP, "            index_1 = i + 1\n            area += get_triangle_area(", 'break'),
 ('M3 ConvexPolygon.area: wrap-around test off by one (`i == len(self.points)`)', PG,
  WRAP, WRAP.replace("if i == len(self.points) - 1:", "if i == len(self.points):"), 'break'),
 ('M4 Pyramid.volume: `1 / 3` -> `1 / 2`', PY, "return 1 / 3 * h * self.convex_polygon.area()", "return 1 / 2 * h * self.convex_polygon.area()", 'break'),
 ('M5 Pyramid.height: `abs` dropped', PY, "return abs(Vector(p0, self.point) * self.convex_polygon.plane.n.normalized())",
  "return Vector(p0, self.point) * self.convex_polygon.plane.n.normalized()", 'break'),
 ('M6 Pyramid.height: normal not normalised (`plane.n` is already a unit vector: same value, other body)', PY,
  "self.convex_polygon.plane.n.normalized())", "self.convex_polygon.plane.n)", 'any'),
 ('M7 ConvexPolyhedron.area: summed over `convex_polygons[1:]`', PH, "for polygon in self.convex_polygons:\n            a += polygon.area()",
  "for polygon in self.convex_polygons[1:]:\n            a += polygon.area()", 'break'),
 ('M8 volume(): height of the wrong point (`distance(arg.convex_polygon.center_point, ..)`)', VO,
  "height = distance(arg.point, arg.convex_polygon.plane)", "height = distance(arg.convex_polygon.center_point, arg.convex_polygon.plane)", 'break'),
 ('M9 volume(): Pyramid branch uses `arg.height()` (same value, other body)', VO,
  "height = distance(arg.point, arg.convex_polygon.plane)", "height = arg.height()", 'any'),
 ('M10 volume(): polyhedron branch recurses on `arg` instead of `pyramid` (Python: RecursionError)', VO,
  "total_volume += volume(pyramid)", "total_volume += volume(arg)", 'break'),
 ('M11 ConvexPolyhedron.length: `segment_set` summed twice', PH, LEN_LOOP,
  "        l = 0\n        for segment in self.segment_set:\n            l += segment.length()\n        for segment in self.segment_set:\n            l += segment.length()\n        return l\n", 'break'),
 ('M12 volume(): `raise ValueError(..)` -> `return 0`', VO, '        raise ValueError("No attribut volume for this object")', '        return 0', 'break'),
 ('M13 Segment.length: `start_point.distance(start_point)`', SEG, "return self.start_point.distance(self.end_point)",
  "return self.start_point.distance(self.start_point)", 'break'),
 ('M14 get_triangle_area: semi-perimeter `/ 2` -> `/ 3`', PG, "p = (a + b + c) / 2", "p = (a + b + c) / 3", 'break'),
 ('M15 ConvexPolyhedron.volume: accumulator starts at 1', PH, "        v = 0\n", "        v = 1\n", 'break'),
 ('M16 ConvexPolyhedron.volume: generator expression `sum(p.volume() for p in ..)` (construct outside the table)', PH,
  "        v = 0\n        for pyramid in self.pyramid_set:\n            v += pyramid.volume()\n        return v\n",
  "        return sum(p.volume() for p in self.pyramid_set)\n", 'break'),
 ('M17 volume(): the two isinstance branches test the same class (ConvexPolyhedron never reached)', VO,
  "elif isinstance(arg, ConvexPolyhedron):", "elif isinstance(arg, Pyramid):", 'break'),
 ('M18 ConvexPolyhedron.volume: iterates `convex_polygons` and adds `polygon.area()` (wrong collection)', PH,
  "        for pyramid in self.pyramid_set:\n            v += pyramid.volume()", "        for pyramid in self.convex_polygons:\n            v += pyramid.area()", 'break'),
 ('H1 harmless: local `area` renamed to `total` (ConvexPolygon.area)', PG, AREA_BODY,
  AREA_BODY.replace('area = 0', 'total = 0').replace('area +=', 'total +=').replace('return area', 'return total'), 'any'),
 ('H2 harmless: comment added (Pyramid.height)', PY, "        p0 = self.convex_polygon.points[0]\n", "        # first vertex of the base\n        p0 = self.convex_polygon.points[0]\n", 'any'),
 ('H3 harmless: `else` branch reordered via `!=` (ConvexPolygon.area)', PG,
  WRAP, "            if i != len(self.points) - 1:\n                index_1 = i + 1\n            else:\n                index_1 = 0\n"
        "            area += get_triangle_area(", 'any'),
 ('H4 harmless: loop variable `segment` renamed to `s` (ConvexPolyhedron.length)', PH, LEN_LOOP,
  "        l = 0\n        for s in self.segment_set:\n            l += s.length()\n        return l\n", 'any'),
 ('H5 harmless: docstring changed (volume())', VO, "    Returns the object volume. This includes", "    Returns the volume of the object. This includes", 'any'),
 ('H6 harmless: `1 / 3 * h * A` -> `h * A / 3` (Pyramid.volume; other evaluation order)', PY,
  "return 1 / 3 * h * self.convex_polygon.area()", "return h * self.convex_polygon.area() / 3", 'any'),
 ('H7 harmless: `index_0` inlined (ConvexPolygon.area)', PG, "self.center_point, self.points[index_0], self.points[index_1]",
  "self.center_point, self.points[i], self.points[index_1]", 'any'),
]


def run(cmd, **kw):
    return subprocess.run(cmd, capture_output=True, text=True, **kw)


def extract(repo):
    return run(['/venv/bin/python', '-B', os.path.join(VERIF, 'tools', 'extract_mmeas.py'), repo])


def thm_of(mod, ln):
    src = open(os.path.join(LEAN, 'G3D', 'Proofs', mod + '.lean')).read().split('\n')
    m = re.match(r'#print axioms (\S+)', src[int(ln) - 1])
    if m:
        return m.group(1)
    for i in range(int(ln) - 1, -1, -1):
        m = re.match(r'(?:@\[[^\]]*\] )?(?:noncomputable )?(theorem|def|example)\b ?(\S*)', src[i])
        if m:
            return m.group(2) if m.group(1) != 'example' else 'example'
    return '?'


def deps_of(mod):
    """the tie modules that `mod` imports (read from its import lines)"""
    src = open(os.path.join(LEAN, 'G3D', 'Proofs', mod + '.lean')).read()
    return [m for m in re.findall(r'^import G3D\.Proofs\.(MeasTie\w+)', src, re.M) if m in MODULES]


def build_all():
    """one `lake build` per module, in dependency order; returns {module: 'ok' | [failing theorems] | 'blocked'};
    a module that imports a tie module which did not build is `blocked` (lake would refuse to build it)"""
    res = {}
    for mod in MODULES:
        if any(res.get(d) != 'ok' for d in deps_of(mod)):
            res[mod] = 'blocked'
            continue
        b = run(['lake', 'build', 'G3D.Proofs.' + mod], cwd=LEAN)
        out = b.stdout + b.stderr
        if b.returncode == 0:
            res[mod] = 'ok'
            continue
        errs = re.findall(r'^error: G3D/Proofs/%s\.lean:(\d+):\d+:' % mod, out, re.M)
        if errs:
            res[mod] = sorted({thm_of(mod, ln) for ln in errs} - {'example'}) or ['(examples only)']
        elif re.search(r'^error: G3D/Extracted/Mmeas\.lean', out, re.M):
            res[mod] = ['(the generated file does not compile)']
        else:
            res[mod] = 'blocked'
    return res


def main():
    shutil.rmtree(ROOT, ignore_errors=True); os.makedirs(BASE); os.makedirs(MUT)
    shutil.copytree(os.path.join(REPO, 'Geometry3D'), SRC, ignore=shutil.ignore_patterns('__pycache__', '*.pyc'))
    orig = extract(BASE)
    assert orig.returncode == 0 and not re.search(r'def m_\w+_EXTRACTION_FAILED', orig.stdout), orig.stderr
    assert extract(BASE).stdout == orig.stdout, 'extractor output is not deterministic'
    rows, bad = [], []
    only = set(os.environ.get('ONLY', '').split(',')) - {''}
    t0 = time.time()
    try:
        for name, f, old, new, expect in MUTS:
            mid = name.split()[0]
            if only and mid not in only:
                continue
            shutil.rmtree(DST, ignore_errors=True); shutil.copytree(SRC, DST)
            if old is not None:
                p = os.path.join(DST, f); s = open(p).read()
                assert s.count(old) == 1, (name, s.count(old))
                s2 = s.replace(old, new, 1)
                assert s2 != s, name
                open(p, 'w').write(s2)
                r = run(['/venv/bin/python', '-B', '-c', 'import ast,sys;ast.parse(open(sys.argv[1]).read())', p])
                assert r.returncode == 0, (name, r.stderr)
            ex = extract(MUT)
            text = ex.stdout if ex.returncode == 0 else '-- extraction failed\n#exit_extraction_failed\n'
            markers = re.findall(r'def m_(\w+)_EXTRACTION_FAILED', text)
            changed = text != orig.stdout
            open(GEN, 'w').write(text)
            res = build_all()
            failing = {m: v for m, v in res.items() if isinstance(v, list)}
            blocked = [m for m, v in res.items() if v == 'blocked']
            got = 'green' if not failing and not blocked else ('marker' if markers else 'fail')
            row = dict(mutation=name, extractor_exit=ex.returncode,
                       stderr=ex.stderr.strip().split('\n')[-1] if ex.stderr.strip() else '', term_changed=changed,
                       markers=markers, result=got, expected=expect, failing=failing, blocked=blocked)
            rows.append(row); print(json.dumps(row, ensure_ascii=False), flush=True)
            if expect == 'break' and got == 'green':
                bad.append((mid, 'behaviour-changing mutation NOT detected'))
            if expect == 'green' and (got != 'green' or changed):
                bad.append((mid, 'control run not green / output changed'))
    finally:
        # restore from the real tree
        ex = extract(REPO)
        open(GEN, 'w').write(ex.stdout)
        res = build_all()
        shutil.rmtree(ROOT, ignore_errors=True)
    ok_restore = all(v == 'ok' for v in res.values())
    print('regenerated from', REPO, '- all tie modules build:', ok_restore, '- total %.0f s' % (time.time() - t0))
    json.dump(rows, open(os.path.join(VERIF, 'out', 'mmeas_selftest_rows.json') if os.path.isdir(os.path.join(VERIF, 'out'))
                         else '/tmp/mmeas_selftest_rows.json', 'w'), indent=1, ensure_ascii=False)
    print('| mutation | extractor | term changed | result | theorems that stopped compiling | modules blocked by a failed import |')
    print('|---|---|---|---|---|---|')
    for r in rows:
        what = 'marker ' + ','.join(r['markers']) if r['markers'] else 'exit %d' % r['extractor_exit']
        fl = '; '.join('%s: %s' % (m.replace('MeasTie', ''), ', '.join(v)) for m, v in r['failing'].items()) or '—'
        print('| %s | %s | %s | %s | %s | %s |' % (r['mutation'], what, 'yes' if r['term_changed'] else 'no', r['result'], fl,
                                                  ', '.join(b.replace('MeasTie', '') for b in r['blocked']) or '—'))
    print('SELFTEST', 'FAILED' if bad or not ok_restore else 'ok', bad)
    sys.exit(1 if bad or not ok_restore else 0)


if __name__ == '__main__':
    main()
