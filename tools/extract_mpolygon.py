#!/venv/bin/python
"""Translator T6, group `mpolygon`: method bodies -> lean/G3D/Extracted/Mpolygon.lean  (engine and documentation: tools/mextract.py)
usage: extract_mpolygon.py <repo>      (Lean source on stdout)"""
import os, sys
sys.dont_write_bytecode = True
sys.path.insert(0, os.path.dirname(os.path.abspath(__file__)))
import mextract
mextract.main('mpolygon', sys.argv)
