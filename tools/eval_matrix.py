#!/usr/bin/env python3
"""Cross-detection matrix of the seeded changes, in parallel and WITHOUT touching /repo or /verif:
worker i of n takes every n-th seeded change, applies it in its own scratch worktree of /repo (/tmp/evw_i), confirms it
(pinned tests pass, demo fails with / passes without the change) and runs all 20 quick checks from its own copy of /verif
(/tmp/vf_i, copied from the committed tree incl. the Lean build) with G3D_SRC pointing at the worktree.
Results go to /tmp/vf_i/seeded/<id>/meta.json and are merged back by tools/eval_merge.py.
usage: eval_matrix.py <i> <n>"""
import json, os, subprocess, sys, shutil, time, glob

i, n = int(sys.argv[1]), int(sys.argv[2])
VF = '/tmp/vf_%d' % i
WT = '/tmp/evw_%d' % i


def sh(cmd, cwd=None, timeout=7200, env=None):
    p = subprocess.run(cmd, shell=True, cwd=cwd, capture_output=True, text=True, timeout=timeout, env=env)
    return p.returncode, p.stdout + p.stderr


seeds = sorted(glob.glob(os.path.join(VF, 'seeded', '*', 'meta.json')))
mine = [s for k, s in enumerate(seeds) if k % n == i]
sh('git -C /repo worktree remove --force %s' % WT)
rc, out = sh('git -C /repo worktree add -q --detach %s HEAD' % WT)
assert rc == 0, out
allc = [c['property_id'] for c in json.load(open(os.path.join(VF, 'MANIFEST.json')))['checks']]
env = dict(os.environ, G3D_SRC=WT)
try:
    for mp in mine:
        d = os.path.dirname(mp)
        meta = json.load(open(mp))
        sh('git checkout -- . && git clean -fdq', cwd=WT)
        shutil.copy(os.path.join(d, 'demo.py'), os.path.join(WT, 'demo.py'))
        rc0, _ = sh('/venv/bin/python -B demo.py', cwd=WT, timeout=900)
        rc, out = sh('git apply %s' % os.path.join(d, 'patch.diff'), cwd=WT)
        if rc != 0:
            meta['confirmed'] = dict(ok=False, why='patch does not apply: ' + out[:200])
            json.dump(meta, open(mp, 'w'), indent=1)
            continue
        rct, outt = sh('/venv/bin/python -B -m pytest -q -p no:cacheprovider 2>&1 | tail -1', cwd=WT, timeout=1200)
        rc1, out1 = sh('/venv/bin/python -B demo.py', cwd=WT, timeout=900)
        where = sh('/venv/bin/python -B -c "import Geometry3D; print(Geometry3D.__file__)"', cwd=WT)[1].strip()
        ok = rc0 == 0 and rc1 != 0 and '87 passed' in outt and where.startswith(WT)
        meta['confirmed'] = dict(ok=ok, tests_with_change=outt.strip(), demo_with_change='exit %d: %s' % (rc1, (out1.strip().split('\n') or [''])[-1][:200]),
                                 demo_without_change='exit %d' % rc0, imported_from_worktree=where.startswith(WT))
        os.remove(os.path.join(WT, 'demo.py'))
        res = {}
        if ok:
            for c in [meta['property']] + [c for c in allc if c != meta['property']]:
                t0 = time.time()
                rc, out = sh('./check %s quick' % c, cwd=VF, env=env)
                lines = out.split('\n')
                viol = [l for l in lines if l.startswith('VIOLATION')]
                detail = ''
                for k, l in enumerate(lines):
                    if l.startswith('VIOLATION') and k + 1 < len(lines):
                        detail = lines[k + 1].strip()[:300]
                        break
                res[c] = dict(exit=rc, violations=len(viol), first=(viol[0] if viol else ''), detail=detail,
                              no_failing_input=any('no-failing-input-found' in v for v in viol), wall_s=round(time.time() - t0, 1))
            meta['matrix_ran'] = 'patch applied in a scratch worktree; `G3D_SRC=<worktree> ./check <id> quick` for all 20 checks from a copy of /verif at the same commit'
            meta['detected_by'] = [c for c, r in res.items() if r['exit'] == 1]
            meta['missed_by'] = [c for c, r in res.items() if r['exit'] == 0]
            meta['infra'] = [c for c, r in res.items() if r['exit'] not in (0, 1)]
            meta['check_results'] = res
        json.dump(meta, open(mp, 'w'), indent=1)
        print(os.path.basename(d), 'confirmed' if ok else 'NOT CONFIRMED', 'own:', meta['property'] in meta.get('detected_by', []), meta.get('detected_by'), flush=True)
finally:
    sh('git -C /repo worktree remove --force %s' % WT)
    # restore the extracted files of the copy to the clean state
    sh('./check C04 quick', cwd=VF)
print('WORKER-DONE', i)
