#!/venv/bin/python
"""Translator T1 (angle / parallel / orthogonal): the isinstance dispatch chain(s) -> Lean table(s); engine in tools/dispatch_engine.py.
usage: extract_dispangle.py <repo>      (Lean source on stdout; fails closed on unknown syntax)"""
import os, sys
sys.path.insert(0, os.path.dirname(os.path.abspath(__file__)))
import dispatch_engine
dispatch_engine.emit('angle', sys.argv[1])
