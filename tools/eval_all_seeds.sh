#!/bin/bash
# evaluates every seeded change that has not been evaluated yet (meta.json without "detected_by")
cd "$(dirname "$0")/.."
for d in seeded/*/; do
  if ! grep -q '"detected_by"' $d/meta.json 2>/dev/null; then
    echo "=== $d"; python3 tools/eval_seed.py $d 2>&1 | tail -30
  fi
done
./check C04 quick > /dev/null 2>&1   # leaves Extracted/ and evidence in the clean-tree state
echo ALL-DONE
