#!/venv/bin/python
"""Translator T5, group `hflat`: handler bodies -> lean/G3D/Extracted/Hflat.lean  (engine and documentation: tools/hextract.py)
usage: extract_hflat.py <repo>      (Lean source on stdout)"""
import os, sys
sys.dont_write_bytecode = True
sys.path.insert(0, os.path.dirname(os.path.abspath(__file__)))
import hextract
hextract.main('hflat', sys.argv)
