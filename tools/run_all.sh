#!/bin/bash
# runs every registered check at the given tier on the current tree; prints one summary line per check
cd "$(dirname "$0")/.."
tier=${1:-quick}
rc=0
for p in $(python3 -c "import json;print(' '.join(c['property_id'] for c in json.load(open('MANIFEST.json'))['checks']))"); do
  out=$(./check $p $tier 2>&1); r=$?
  echo "$out" | grep -E "^$p $tier|VIOLATION|KNOWN-FINDING|INFRA" | head -5
  [ $r -ne 0 ] && rc=1 && echo "   exit $r for $p"
done
exit $rc
