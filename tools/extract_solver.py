#!/venv/bin/python
"""Translator T6: Geometry3D/utils/solver.py  ->  lean/G3D/Extracted/Solver.lean
usage: extract_solver.py <repo>      (Lean source on stdout)

Every function and method of utils/solver.py becomes ONE Lean definition `s_<name>` (methods `__init__`, `__bool__`,
`__nonzero__`, `__call__` of `Solution`: `s_init`, `s_bool`, `s_nonzero`, `s_call`), translated statement by statement
from the Python AST into the vocabulary of lean/G3D/Model/PyRtS.lean (numbers `Rat`, ints `Int`, `None`-or-number
`Option`, lists with FUNCTIONAL update, exceptions in `Except PyErr`).  lean/G3D/Proofs/SolverTie.lean proves every
definition equal to the hand model lean/G3D/Model/Solver2.lean (property C16; C17 uses `solve` through Plane).

Fault isolation (per function): a function that contains a construct the translator does not know, or an expected
function that is missing, appears as
    def s_<name>_EXTRACTION_FAILED : String := "<function>: <what>"
instead of `s_<name>` (message also on stderr, exit status 0).  A caller of a failed function fails likewise.
Exit status 1 only when the source cannot be read / parsed.  No line numbers in the output.

  statement                               Lean (`do`-notation in PyM = Except PyErr)
  --------------------------------------  -----------------------------------------------------------------
  x = e                                   let mut x : T := ⟦e⟧  (first binding)  /  x := ⟦e⟧  (rebinding, coerced to T)
  a, b = e                                let (a, b) := ⟦e⟧
  m[i] = e                                m := (← pySetIdx m i ⟦e⟧)                    (m a local list; parameters are
                                                                                         shadowed by `let mut m := m`)
  m[a], m[b] = x, y                       let swap_1 := ⟦x⟧; let swap_2 := ⟦y⟧; m := (← pySetIdx m a swap_1); m := ..
  vals[i] = v.pop()                       let pop_1 ← pyPop v; v := pop_1.2; vals := (← pySetIdx vals i (some pop_1.1))
  x += e                                  x := (x + ⟦e⟧)
  l.append(e)                             l := pyAppend l ⟦e⟧
  self.a = e      (in __init__)           let self_a : T := ⟦e⟧       (the fields make up `structure Solution`)
  if / elif / else                        if c then .. else if .. else ..   (lists: pyTruthy)
  for x in e / for i, x in e              for x in ⟦e⟧ do / for (i, x) in ⟦e⟧ do
  return e / raise ValueError("..")       return ⟦e⟧ / throw (PyErr.valueError "..")      (`.format(..)` dropped)
  break / continue / pass                 break / continue / pure ()

  expression                              Lean
  --------------------------------------  -----------------------------------------------------------------
  3 / -1 / None / (a, b)                  (3 : Int) or (3 : Rat) by context / (-1 : ..) / none / (a, b)
  a + b, a - b, a * b                     (a + b) ..   (an int LITERAL next to a float becomes a Rat literal)
  a / b                                   (← pyDiv a b)                 (ZeroDivisionError)
  [x] * n                                 pyRepeat [x] n
  a == b, a != b, a >= b ..               (a == b), (a != b), decide (a ≥ b) ..
  x is None / x is not None               pyIsNone x / !(pyIsNone x)
  i in s / i not in s   (s a set)         pyIn i s / !(pyIn i s)
  not e / a and b / a or b                !(e) / (← pyAnd (do return a) (do return b)) / pyOr     (short-circuit)
  l[i] / t[1] (tuple) / l[a:] / l[:b]     (← pyIdx l i) / t.2 / pySliceFrom l a / pySliceTo l b
  a None-or-number used as a number       (← pyNum x)                   (TypeError)
  len abs range reversed enumerate zip    pyLen pyAbs pyRange pyReversed pyEnumerate pyZip
  list(x) tuple(x) set(x) max(x) sum(x)   pyList pyTuple pySetOf (← pyMax x) pySum
  [e for x in xs] / (e for x in xs)       (← pyComp (fun x => do return ⟦e⟧) xs)
  (e for x in xs if c)                    (← pyCompIf (fun x => do return ⟦c⟧) (fun x => do return ⟦e⟧) xs)
  any(e for x in xs) / all(..)            (← pyAny (fun x => do return ⟦e⟧) xs) / pyAll         (lazy)
  all(map(f, xs))                         (← pyAll ⟦f⟧ xs)
  lambda i: e                             (fun i => do return ⟦e⟧)
  f(a, ..)  (function of this module)     (← s_f a ..);   Solution(x): (← s_init x);   f a local function: (← f a)
  self.a                                  self_a in __init__, else the field self.a

Trusted reading (the only one): `null(f)`, i.e. `abs(f) < get_eps()`, is read as `f = 0` (`pyNullExact`); the Python
comparison is pinned as the string constant `s_null_shape`, which the tie checks.  Typing of the parameters (Python
is untyped) is the table SIG below.  In-place mutation of a list parameter is not visible to the caller in the
translation; a call whose argument is read again afterwards is rejected."""
import ast, sys, os, re

SRC = 'Geometry3D/utils/solver.py'

LEAN_KEYWORDS = set('''at end from in then do open instance local show have fun let match with if else for return
    by where def theorem lemma example namespace section variable universe import export structure class inductive
    deriving extends mutual private protected partial unsafe noncomputable macro syntax notation infix infixl infixr
    prefix postfix attribute set_option using obtain calc suffices unless try catch finally throw break continue
    mut true false Type Prop Sort forall exists nomatch nofun this some none pure'''.split())

# ----------------------------------------------------------------------------------------------------- types
RAT, INT, BOOL = 'Rat', 'Int', 'Bool'


class TVar:
    """an element type that is fixed by a later statement (`x = []` .. `x.append(e)`)"""
    n = 0
    all = {}

    def __init__(self):
        TVar.n += 1
        self.id, self.ref = TVar.n, None
        TVar.all[self.id] = self


def L(t): return ('List', t)
def O(t): return ('Opt', t)
def T(*ts): return ('Tup',) + tuple(ts)
def F(args, ret): return ('Fun', tuple(args), ret)


ROW, MAT, VALS, SET, SOL = L(RAT), L(L(RAT)), L(O(RAT)), ('Set',), ('Solution',)


def res(t):
    while isinstance(t, TVar) and t.ref is not None:
        t = t.ref
    if isinstance(t, tuple):
        return (t[0],) + tuple(res(x) if not isinstance(x, str) else x for x in t[1:]) if t[0] != 'Fun' \
            else ('Fun', tuple(res(a) for a in t[1]), res(t[2]))
    return t


def unify(a, b):
    a, b = res(a), res(b)
    if isinstance(a, TVar):
        if a is not b:
            a.ref = b
        return True
    if isinstance(b, TVar):
        b.ref = a
        return True
    if isinstance(a, str) or isinstance(b, str):
        return a == b
    if a[0] != b[0] or len(a) != len(b):
        return False
    if a[0] == 'Fun':
        return len(a[1]) == len(b[1]) and all(unify(x, y) for x, y in zip(a[1], b[1])) and unify(a[2], b[2])
    return all(unify(x, y) for x, y in zip(a[1:], b[1:]))


def show(t, top=True):
    t = res(t)
    if isinstance(t, TVar):
        return '⟪T%d⟫' % t.id
    if isinstance(t, str):
        return t
    if t[0] == 'List':
        s = 'List %s' % show(t[1], False)
    elif t[0] == 'Opt':
        s = 'Option %s' % show(t[1], False)
    elif t[0] == 'Tup':
        s = ' × '.join(show(x, False) for x in t[1:])
    elif t[0] == 'Set':
        s = 'List Int'
    elif t[0] == 'Solution':
        return 'Solution'
    elif t[0] == 'Fun':
        s = ' → '.join([show(x, False) for x in t[1]] + ['PyM %s' % show(t[2], False)])
    else:
        raise AssertionError(t)
    return s if top else '(%s)' % s


# the typing of the parameters and results: (lean name, [(param, type)], result type, vararg?)
SIG = {
    'shape': ('s_shape', [('m', MAT)], T(INT, INT)),
    'null': ('s_null', [('f', RAT)], BOOL),
    'nullrow': ('s_nullrow', [('r', ROW)], BOOL),
    'find_pivot_row': ('s_find_pivot_row', [('m', MAT)], O(INT)),
    'gaussian_elimination': ('s_gaussian_elimination', [('m', MAT)], MAT),
    'solve': ('s_solve', [('matrix', MAT)], SOL),
    'count': ('s_count', [('f', F([RAT], BOOL)), ('l', ROW)], INT),
    'index': ('s_index', [('f', F([RAT], BOOL)), ('l', ROW)], INT),
    'first_nonzero': ('s_first_nonzero', [('r', ROW)], INT),
    'Solution.__init__': ('s_init', [('self', SOL), ('s', MAT)], SOL),
    'Solution.__bool__': ('s_bool', [('self', SOL)], BOOL),
    'Solution.__nonzero__': ('s_nonzero', [('self', SOL)], BOOL),
    'Solution.__call__': ('s_call', [('self', SOL), ('v', ROW)], VALS),
}
ORDER = ['shape', 'null', 'nullrow', 'find_pivot_row', 'gaussian_elimination', 'solve', 'count', 'index',
         'first_nonzero', 'Solution.__init__', 'Solution.__bool__', 'Solution.__nonzero__', 'Solution.__call__']
NULL_SHAPE_NOTE = 'abs(f) < get_eps()'


class Fail(Exception):
    pass


def lean_str(s):
    return '"%s"' % s.replace('\\', '\\\\').replace('"', '\\"').replace('\n', '\\n')


class Fn:
    """translation of one Python function / method"""

    def __init__(self, eng, key, node):
        self.eng, self.key, self.node = eng, key, node
        self.lean, self.sig, self.ret = SIG[key][0], SIG[key][1], SIG[key][2]
        self.scopes = []      # stack of dicts  name -> type
        self.mutparams = set()
        self.fields = None    # __init__: list of (field, type)
        self.counter = {}
        self.in_lambda = 0

    def fail(self, msg):
        raise Fail('%s: %s' % (self.key, msg))

    # ------------------------------------------------------------------ names
    def lname(self, n):
        if n in LEAN_KEYWORDS:
            return '«v_%s»' % n
        if n.startswith('py') or n.startswith('s_') or n.startswith('self_') or n.startswith('pop_') \
                or n.startswith('swap_') or n in ('PyErr', 'PyM', 'Solution'):
            return 'v_' + n
        return n

    def lookup(self, n):
        for s in reversed(self.scopes):
            if n in s:
                return s[n]
        return None

    def fresh(self, base):
        self.counter[base] = self.counter.get(base, 0) + 1
        return '%s_%d' % (base, self.counter[base])

    # ------------------------------------------------------------------ coercions
    def coerce(self, text, t, want, what):
        """text : t   ->   text' : want"""
        t, want = res(t), res(want)
        if isinstance(want, TVar) or isinstance(t, TVar):
            if unify(t, want):
                return text
        if t == want:
            return text
        if isinstance(t, tuple) and t[0] == 'IntLit':
            if want == INT:
                return '(%d : Int)' % t[1]
            if want == RAT:
                return '(%d : Rat)' % t[1]
            if isinstance(want, tuple) and want[0] == 'Opt':
                return 'some %s' % self.coerce(text, t, want[1], what)
            self.fail('%s: the integer literal %d is used as %s' % (what, t[1], show(want)))
        if t == ('NoneT',):
            if isinstance(want, tuple) and want[0] == 'Opt':
                return 'none'
            self.fail('%s: None is used as %s' % (what, show(want)))
        if isinstance(t, tuple) and t[0] == 'Opt' and not (isinstance(want, tuple) and want[0] == 'Opt'):
            # a None-or-number used as a number: TypeError on None
            return self.coerce('(← pyNum %s)' % text, t[1], want, what)
        if isinstance(want, tuple) and want[0] == 'Opt' and not (isinstance(t, tuple) and t[0] == 'Opt'):
            return 'some %s' % self.atom(self.coerce(text, t, want[1], what))
        if isinstance(t, tuple) and isinstance(want, tuple) and t[0] == want[0] and unify(t, want):
            return text
        self.fail('%s: a value of type %s is used as %s' % (what, show(t), show(want)))

    @staticmethod
    def atom(text):
        """parenthesise unless the text is a single token / a single bracketed group (optionally with projections)"""
        if ' ' not in text:
            return text
        if text[0] in '([':
            depth = 0
            for k, ch in enumerate(text):
                if ch in '([':
                    depth += 1
                elif ch in ')]':
                    depth -= 1
                    if depth == 0:
                        if ' ' not in text[k + 1:]:
                            return text
                        break
        return '(%s)' % text

    def num_pair(self, a, ta, b, tb, what):
        """two operands of an arithmetic operation / comparison -> (a', b', type)"""
        ta, tb = res(ta), res(tb)

        def base(t):
            if isinstance(t, tuple) and t[0] == 'Opt':
                return res(t[1])
            return t
        ba, bb = base(ta), base(tb)
        lit_a, lit_b = isinstance(ba, tuple) and ba[0] == 'IntLit', isinstance(bb, tuple) and bb[0] == 'IntLit'
        if lit_a and lit_b:
            want = INT
        elif lit_a:
            want = bb
        elif lit_b:
            want = ba
        else:
            want = ba
        if isinstance(want, TVar):
            self.fail('%s: operand of undetermined type' % what)
        if want not in (INT, RAT):
            self.fail('%s: arithmetic on %s' % (what, show(want)))
        return self.coerce(a, ta, want, what), self.coerce(b, tb, want, what), want

    # ------------------------------------------------------------------ expressions:  -> (lean text, type)
    def expr(self, e, want=None):
        if isinstance(e, ast.Constant):
            if e.value is None:
                return 'none', ('NoneT',)
            if e.value is True or e.value is False:
                return ('true' if e.value else 'false'), BOOL
            if isinstance(e.value, int):
                return str(e.value), ('IntLit', e.value)
            self.fail('unsupported constant %r' % (e.value,))
        if isinstance(e, ast.Name):
            if not isinstance(e.ctx, ast.Load):
                self.fail('name %s in a non-load context' % e.id)
            t = self.lookup(e.id)
            if t is not None:
                return self.lname(e.id), t
            if e.id in SIG:       # a function of this module used as a value
                c = self.eng.callee(self, e.id)
                return c.lean, F([t for _, t in c.sig], c.ret)
            self.fail('variable %s is read where it is not (definitely) bound in an enclosing block' % e.id)
        if isinstance(e, ast.Attribute):
            if isinstance(e.value, ast.Name) and e.value.id == 'self' and self.lookup('self') == SOL:
                if self.fields is not None:            # inside __init__
                    for f, t in self.fields:
                        if f == e.attr:
                            return 'self_' + f, t
                    self.fail('self.%s is read before it is assigned' % e.attr)
                init = self.eng.callee(self, 'Solution.__init__')
                for f, t in init.fields:
                    if f == e.attr:
                        return 'self.%s' % f, t
                self.fail('unknown attribute self.%s' % e.attr)
            self.fail('unsupported attribute access .%s' % e.attr)
        if isinstance(e, ast.UnaryOp):
            if isinstance(e.op, ast.Not):
                return '!(%s)' % self.truthy(e.operand), BOOL
            if isinstance(e.op, ast.USub) and isinstance(e.operand, ast.Constant) \
                    and isinstance(e.operand.value, int) and not isinstance(e.operand.value, bool):
                return str(-e.operand.value), ('IntLit', -e.operand.value)
            self.fail('unsupported unary operator %s' % type(e.op).__name__)
        if isinstance(e, ast.BoolOp):
            comb = 'pyAnd' if isinstance(e.op, ast.And) else 'pyOr'
            acts = ['(do return %s)' % self.truthy(v) for v in e.values]
            t = acts[-1]
            for a in reversed(acts[:-1]):
                t = '(%s %s %s)' % (comb, a, t)
            return '(← %s)' % t[1:-1], BOOL
        if isinstance(e, ast.BinOp):
            return self.binop(e.op, e.left, e.right)
        if isinstance(e, ast.Compare):
            return self.compare(e)
        if isinstance(e, ast.Subscript):
            return self.subscript(e)
        if isinstance(e, ast.Tuple):
            if any(isinstance(x, ast.Starred) for x in e.elts) or len(e.elts) < 2:
                self.fail('unsupported tuple display')
            parts = [self.expr(x) for x in e.elts]
            parts = [(self.coerce(t, ty, INT, 'tuple'), INT) if isinstance(res(ty), tuple) and res(ty)[0] == 'IntLit'
                     else (t, ty) for t, ty in parts]
            return '(%s)' % ', '.join(t for t, _ in parts), T(*[ty for _, ty in parts])
        if isinstance(e, ast.List):
            if any(isinstance(x, ast.Starred) for x in e.elts):
                self.fail('starred element')
            if not e.elts:
                return '[]', L(TVar())
            parts = [self.expr(x) for x in e.elts]
            if all(ty == ('NoneT',) for _, ty in parts):
                return '[%s]' % ', '.join('none' for _ in parts), L(O(TVar()))
            t0 = parts[0][1]
            if isinstance(res(t0), tuple) and res(t0)[0] == 'IntLit':
                t0 = INT
            return '[%s]' % ', '.join(self.coerce(t, ty, t0, 'list display') for t, ty in parts), L(t0)
        if isinstance(e, (ast.ListComp, ast.GeneratorExp)):
            return self.comprehension(e, 'comp')
        if isinstance(e, ast.Lambda):
            if want is None or res(want)[0] != 'Fun':
                self.fail('lambda in a position where no function is expected')
            return self.lam(e, res(want))
        if isinstance(e, ast.Call):
            return self.call(e)
        self.fail('unsupported expression %s' % type(e).__name__)

    def truthy(self, e):
        t, ty = self.expr(e)
        ty = res(ty)
        if ty == BOOL:
            return t
        if isinstance(ty, tuple) and ty[0] == 'List':
            return 'pyTruthy %s' % self.atom(t)
        self.fail('truth value of %s' % show(ty))

    def binop(self, op, l, r):
        a, ta = self.expr(l)
        b, tb = self.expr(r)
        rta = res(ta)
        if isinstance(op, ast.Mult) and isinstance(rta, tuple) and rta[0] == 'List':
            return 'pyRepeat %s %s' % (self.atom(a), self.atom(self.coerce(b, tb, INT, 'list * int'))), ta
        sym = {ast.Add: '+', ast.Sub: '-', ast.Mult: '*', ast.Div: '/'}.get(type(op))
        if sym is None:
            self.fail('unsupported binary operator %s' % type(op).__name__)
        if sym == '/':
            # true division (`from __future__ import division` / Python 3): only floats are divided here
            a2, b2 = self.coerce(a, ta, RAT, 'division'), self.coerce(b, tb, RAT, 'division')
            return '(← pyDiv %s %s)' % (self.atom(a2), self.atom(b2)), RAT
        a2, b2, t = self.num_pair(a, ta, b, tb, 'operator ' + sym)
        return '(%s %s %s)' % (a2, sym, b2), t

    def compare(self, e):
        if len(e.ops) != 1:
            self.fail('chained comparison')
        op, l, r = e.ops[0], e.left, e.comparators[0]
        if isinstance(op, (ast.Is, ast.IsNot)):
            if not (isinstance(r, ast.Constant) and r.value is None):
                self.fail('`is` with an operand other than None')
            a, ta = self.expr(l)
            ta = res(ta)
            if not (isinstance(ta, tuple) and ta[0] == 'Opt'):
                self.fail('`is None` on a value of type %s' % show(ta))
            t = 'pyIsNone %s' % self.atom(a)
            return (t if isinstance(op, ast.Is) else '!(%s)' % t), BOOL
        if isinstance(op, (ast.In, ast.NotIn)):
            a, ta = self.expr(l)
            b, tb = self.expr(r)
            if res(tb) != SET:
                self.fail('`in` on something that is not a set')
            t = 'pyIn %s %s' % (self.atom(self.coerce(a, ta, INT, '`in`')), self.atom(b))
            return (t if isinstance(op, ast.In) else '!(%s)' % t), BOOL
        a, ta = self.expr(l)
        b, tb = self.expr(r)
        a2, b2, _ = self.num_pair(a, ta, b, tb, 'comparison')
        if isinstance(op, ast.Eq):
            return '(%s == %s)' % (a2, b2), BOOL
        if isinstance(op, ast.NotEq):
            return '(%s != %s)' % (a2, b2), BOOL
        sym = {ast.Lt: '<', ast.LtE: '≤', ast.Gt: '>', ast.GtE: '≥'}.get(type(op))
        if sym is None:
            self.fail('unsupported comparison %s' % type(op).__name__)
        return 'decide (%s %s %s)' % (a2, sym, b2), BOOL

    def subscript(self, e):
        v, tv = self.expr(e.value)
        tv = res(tv)
        if isinstance(e.slice, ast.Slice):
            s = e.slice
            if s.step is not None or not (isinstance(tv, tuple) and tv[0] == 'List'):
                self.fail('unsupported slice')
            if s.lower is not None and s.upper is None:
                a, ta = self.expr(s.lower)
                return 'pySliceFrom %s %s' % (self.atom(v), self.atom(self.coerce(a, ta, INT, 'slice bound'))), tv
            if s.upper is not None and s.lower is None:
                a, ta = self.expr(s.upper)
                return 'pySliceTo %s %s' % (self.atom(v), self.atom(self.coerce(a, ta, INT, 'slice bound'))), tv
            self.fail('unsupported slice form')
        if isinstance(tv, tuple) and tv[0] == 'Tup':
            if not (isinstance(e.slice, ast.Constant) and isinstance(e.slice.value, int)
                    and 0 <= e.slice.value < len(tv) - 1):
                self.fail('tuple subscript that is not a constant in range')
            k = e.slice.value
            if len(tv) - 1 != 2:
                self.fail('subscript of a tuple that is not a pair')
            return '%s.%d' % (self.atom(v), k + 1), tv[1 + k]
        if isinstance(tv, tuple) and tv[0] == 'List':
            i, ti = self.expr(e.slice)
            return '(← pyIdx %s %s)' % (self.atom(v), self.atom(self.coerce(i, ti, INT, 'index'))), tv[1]
        self.fail('subscript of a value of type %s' % show(tv))

    def pattern(self, target, elem_t, scope):
        """binding pattern of a for / comprehension / lambda  -> lean pattern text"""
        elem_t = res(elem_t)
        if isinstance(target, ast.Name):
            scope[target.id] = elem_t
            return self.lname(target.id)
        if isinstance(target, ast.Tuple) and all(isinstance(x, ast.Name) for x in target.elts):
            if not (isinstance(elem_t, tuple) and elem_t[0] == 'Tup' and len(elem_t) - 1 == len(target.elts)):
                self.fail('tuple target for elements of type %s' % show(elem_t))
            for x, t in zip(target.elts, elem_t[1:]):
                scope[x.id] = t
            return '(%s)' % ', '.join(self.lname(x.id) for x in target.elts)
        self.fail('unsupported binding target')

    def iterable(self, e):
        t, ty = self.expr(e)
        ty = res(ty)
        if not (isinstance(ty, tuple) and ty[0] == 'List'):
            self.fail('iteration over a value of type %s' % show(ty))
        return t, ty[1]

    def comprehension(self, e, mode):
        """mode: comp (a list) / any / all"""
        if len(e.generators) != 1 or e.generators[0].is_async:
            self.fail('comprehension with several `for` clauses')
        g = e.generators[0]
        it, et = self.iterable(g.iter)
        scope = {}
        pat = self.pattern(g.target, et, scope)
        self.scopes.append(scope)
        self.in_lambda += 1
        try:
            conds = [self.truthy(c) for c in g.ifs]
            if mode in ('any', 'all'):
                body, bt = self.truthy(e.elt), BOOL
            else:
                body, bt = self.expr(e.elt)
                if isinstance(res(bt), tuple) and res(bt)[0] == 'IntLit':
                    body, bt = self.coerce(body, bt, INT, 'comprehension'), INT
        finally:
            self.in_lambda -= 1
            self.scopes.pop()
        if len(conds) > 1 or (conds and mode != 'comp'):
            self.fail('unsupported `if` clauses in a comprehension')
        f = '(fun %s => do return %s)' % (pat, body)
        if mode == 'any':
            return '(← pyAny %s %s)' % (f, self.atom(it)), BOOL
        if mode == 'all':
            return '(← pyAll %s %s)' % (f, self.atom(it)), BOOL
        if conds:
            return '(← pyCompIf (fun %s => do return %s) %s %s)' % (pat, conds[0], f, self.atom(it)), L(bt)
        return '(← pyComp %s %s)' % (f, self.atom(it)), L(bt)

    def lam(self, e, want):
        a = e.args
        if a.vararg or a.kwarg or a.kwonlyargs or a.defaults or a.kw_defaults or a.posonlyargs \
                or len(a.args) != len(want[1]):
            self.fail('unsupported lambda signature')
        scope = {x.arg: t for x, t in zip(a.args, want[1])}
        self.scopes.append(scope)
        self.in_lambda += 1
        try:
            if res(want[2]) == BOOL:
                body = self.truthy(e.body)
            else:
                b, bt = self.expr(e.body)
                body = self.coerce(b, bt, want[2], 'lambda result')
        finally:
            self.in_lambda -= 1
            self.scopes.pop()
        return '(fun %s => do return %s)' % (' '.join(self.lname(x.arg) for x in a.args), body), want

    def plain_args(self, e, n):
        if e.keywords or any(isinstance(a, ast.Starred) for a in e.args):
            self.fail('keyword / starred argument in a call of %s' % ast.unparse(e.func))
        ns = n if isinstance(n, tuple) else (n,)
        if len(e.args) not in ns:
            self.fail('call of %s with %d arguments' % (ast.unparse(e.func), len(e.args)))
        return e.args

    def call(self, e):
        f = e.func
        if isinstance(f, ast.Name):
            n = f.id
            lt = self.lookup(n)
            if lt is not None:
                lt = res(lt)
                if not (isinstance(lt, tuple) and lt[0] == 'Fun'):
                    self.fail('call of the local variable %s, which is not a function' % n)
                args = self.plain_args(e, len(lt[1]))
                parts = []
                for a, t in zip(args, lt[1]):
                    x, tx = self.expr(a, want=t)
                    parts.append(self.atom(self.coerce(x, tx, t, 'argument of %s' % n)))
                return '(← %s %s)' % (self.lname(n), ' '.join(parts)), lt[2]
            if n == 'len':
                x, tx = self.expr(self.plain_args(e, 1)[0])
                if not (isinstance(res(tx), tuple) and res(tx)[0] == 'List'):
                    self.fail('len of a value of type %s' % show(tx))
                return 'pyLen %s' % self.atom(x), INT
            if n == 'abs':
                x, tx = self.expr(self.plain_args(e, 1)[0])
                return 'pyAbs %s' % self.atom(self.coerce(x, tx, RAT, 'abs')), RAT
            if n == 'range':
                a = [self.expr(x) for x in self.plain_args(e, (1, 2))]
                a = [self.atom(self.coerce(x, t, INT, 'range')) for x, t in a]
                if len(a) == 1:
                    a = ['(0 : Int)'] + a
                return 'pyRange %s %s' % (a[0], a[1]), L(INT)
            if n == 'reversed':
                x, et = self.iterable(self.plain_args(e, 1)[0])
                return 'pyReversed %s' % self.atom(x), L(et)
            if n == 'enumerate':
                x, et = self.iterable(self.plain_args(e, 1)[0])
                return 'pyEnumerate %s' % self.atom(x), L(T(INT, et))
            if n == 'zip':
                a = self.plain_args(e, 2)
                x, tx = self.iterable(a[0])
                y, ty = self.iterable(a[1])
                return 'pyZip %s %s' % (self.atom(x), self.atom(y)), L(T(tx, ty))
            if n in ('list', 'tuple'):
                x, et = self.iterable(self.plain_args(e, 1)[0])
                return 'py%s %s' % (n.capitalize(), self.atom(x)), L(et)
            if n == 'set':
                x, et = self.iterable(self.plain_args(e, 1)[0])
                if res(et) != INT:
                    self.fail('set of elements of type %s' % show(et))
                return 'pySetOf %s' % self.atom(x), SET
            if n == 'max':
                x, et = self.iterable(self.plain_args(e, 1)[0])
                if not unify(et, T(RAT, INT)):
                    self.fail('max over elements of type %s' % show(et))
                return '(← pyMax %s)' % self.atom(x), T(RAT, INT)
            if n == 'sum':
                x, et = self.iterable(self.plain_args(e, 1)[0])
                if res(et) not in (RAT, INT):
                    self.fail('sum over elements of type %s' % show(et))
                return 'pySum %s' % self.atom(x), res(et)
            if n in ('any', 'all'):
                a = self.plain_args(e, 1)[0]
                if isinstance(a, ast.GeneratorExp):
                    return self.comprehension(a, n)
                if isinstance(a, ast.Call) and isinstance(a.func, ast.Name) and a.func.id == 'map' \
                        and self.lookup('map') is None:
                    ma = self.plain_args(a, 2)
                    xs, et = self.iterable(ma[1])
                    g, tg = self.expr(ma[0], want=F([et], BOOL))
                    if not unify(tg, F([et], BOOL)):
                        self.fail('%s(map(f, ..)) with f of type %s' % (n, show(tg)))
                    return '(← py%s %s %s)' % (n.capitalize(), self.atom(g), self.atom(xs)), BOOL
                self.fail('%s(..) over something that is not a generator expression / map' % n)
            if n == 'Solution':
                c = self.eng.callee(self, 'Solution.__init__')
                a = self.plain_args(e, 1)
                x, tx = self.expr(a[0])
                self.check_not_read_again(c, [a[0]], e)
                return '(← s_init %s)' % self.atom(self.coerce(x, tx, c.sig[1][1], 'argument of Solution')), SOL
            if n in SIG:
                c = self.eng.callee(self, n)
                args = self.plain_args(e, len(c.sig))
                parts = []
                for a, (pn, t) in zip(args, c.sig):
                    x, tx = self.expr(a, want=t)
                    parts.append(self.atom(self.coerce(x, tx, t, 'argument %s of %s' % (pn, n))))
                self.check_not_read_again(c, args, e)
                return '(← %s %s)' % (c.lean, ' '.join(parts)), c.ret
            self.fail('call of unknown function %s' % n)
        self.fail('unsupported call form %s' % ast.unparse(f))

    def check_not_read_again(self, callee, args, call_node):
        """the callee mutates a list parameter in place: the argument must be a variable that is never read again"""
        for a, (pn, _) in zip(args, callee.sig if callee.key != 'Solution.__init__' else callee.sig[1:]):
            if pn not in callee.inplace:
                continue
            if not isinstance(a, ast.Name):
                self.fail('argument %s of %s is mutated in place but is not a plain variable' % (pn, callee.key))
            later = False
            for node in ast.walk(self.node):
                if isinstance(node, ast.Name) and node.id == a.id and isinstance(node.ctx, ast.Load) \
                        and (node.lineno, node.col_offset) > (call_node.end_lineno, call_node.end_col_offset):
                    later = True
            inloop = any(isinstance(p, (ast.For, ast.While)) and any(c is call_node for c in ast.walk(p))
                         for p in ast.walk(self.node))
            if later or inloop:
                self.fail('%s is mutated in place by %s and read again afterwards (caller-visible mutation is not modelled)'
                          % (a.id, callee.key))

    # ------------------------------------------------------------------ statements
    def declare(self, name, t):
        self.scopes[-1][name] = t

    def assign_name(self, name, text, t, out, ind):
        if self.in_lambda:
            self.fail('assignment inside a lambda / comprehension')
        cur = self.lookup(name)
        if cur is None:
            if isinstance(res(t), tuple) and res(t)[0] in ('IntLit',):
                text, t = self.coerce(text, t, INT, 'assignment'), INT
            if res(t) == ('NoneT',):
                self.fail('%s = None: the type of %s is not determined' % (name, name))
            self.declare(name, t)
            out.append('%slet mut %s : %s := %s' % (ind, self.lname(name), show(t), text))
        else:
            out.append('%s%s := %s' % (ind, self.lname(name), self.coerce(text, t, cur, 'assignment to %s' % name)))

    def set_item(self, target, text, t, out, ind):
        if not (isinstance(target.value, ast.Name) and not isinstance(target.slice, (ast.Slice, ast.Tuple))):
            self.fail('assignment to a subscript of something that is not a plain variable')
        n = target.value.id
        lt = self.lookup(n)
        if lt is None:
            self.fail('variable %s is used where it is not (definitely) bound' % n)
        lt = res(lt)
        if not (isinstance(lt, tuple) and lt[0] == 'List'):
            self.fail('item assignment on a value of type %s' % show(lt))
        i, ti = self.expr(target.slice)
        out.append('%s%s := (← pySetIdx %s %s %s)' % (
            ind, self.lname(n), self.lname(n), self.atom(self.coerce(i, ti, INT, 'index')),
            self.atom(self.coerce(text, t, lt[1], 'item assignment to %s' % n))))

    def is_pop(self, e):
        return (isinstance(e, ast.Call) and isinstance(e.func, ast.Attribute) and e.func.attr == 'pop'
                and isinstance(e.func.value, ast.Name))

    def rhs(self, e, out, ind):
        """right-hand side of an assignment; `v.pop()` (evaluated first, as in Python) is hoisted"""
        if self.is_pop(e):
            if e.args or e.keywords:
                self.fail('pop with arguments')
            n = e.func.value.id
            lt = self.lookup(n)
            if lt is None or not (isinstance(res(lt), tuple) and res(lt)[0] == 'List'):
                self.fail('pop on something that is not a local list')
            tmp = self.fresh('pop')
            out.append('%slet %s ← pyPop %s' % (ind, tmp, self.lname(n)))
            out.append('%s%s := %s.2' % (ind, self.lname(n), tmp))
            return '%s.1' % tmp, res(lt)[1]
        for node in ast.walk(e):
            if self.is_pop(node):
                self.fail('pop() nested inside an expression')
        return self.expr(e)

    def block(self, stmts, ind, scope=None):
        self.scopes.append(dict(scope or {}))
        out = []
        for s in stmts:
            self.stmt(s, out, ind)
        self.scopes.pop()
        if not out:
            out.append(ind + 'pure ()')
        return out

    def stmt(self, s, out, ind):
        if isinstance(s, ast.Expr):
            v = s.value
            if isinstance(v, ast.Constant) and isinstance(v.value, str):
                return
            if isinstance(v, ast.Call) and isinstance(v.func, ast.Attribute) and v.func.attr == 'append' \
                    and isinstance(v.func.value, ast.Name):
                n = v.func.value.id
                lt = self.lookup(n)
                if lt is None or not (isinstance(res(lt), tuple) and res(lt)[0] == 'List'):
                    self.fail('append on something that is not a local list')
                if n in [p for p, _ in self.sig]:
                    self.fail('append on the parameter %s' % n)
                a = self.plain_args(v, 1)
                x, tx = self.expr(a[0])
                out.append('%s%s := pyAppend %s %s' % (ind, self.lname(n), self.lname(n),
                                                         self.atom(self.coerce(x, tx, res(lt)[1], 'append'))))
                return
            self.fail('unsupported expression statement')
        if isinstance(s, ast.Assign):
            if len(s.targets) != 1:
                self.fail('chained assignment')
            tg = s.targets[0]
            if isinstance(tg, ast.Name):
                if isinstance(s.value, ast.Name) and self.lookup(s.value.id) is not None \
                        and isinstance(res(self.lookup(s.value.id)), tuple) and res(self.lookup(s.value.id))[0] == 'List' \
                        and s.value.id != tg.id:
                    pass  # aliasing of immutable-by-construction rows is harmless: rows are never mutated in place
                text, t = self.rhs(s.value, out, ind)
                self.assign_name(tg.id, text, t, out, ind)
                return
            if isinstance(tg, ast.Subscript):
                text, t = self.rhs(s.value, out, ind)
                self.set_item(tg, text, t, out, ind)
                return
            if isinstance(tg, ast.Attribute):
                if not (self.fields is not None and isinstance(tg.value, ast.Name) and tg.value.id == 'self'
                        and len(self.scopes) == 1):
                    self.fail('attribute assignment outside the top level of __init__')
                if any(f == tg.attr for f, _ in self.fields):
                    self.fail('self.%s is assigned twice' % tg.attr)
                text, t = self.expr(s.value)
                if isinstance(res(t), tuple) and res(t)[0] == 'IntLit':
                    text, t = self.coerce(text, t, INT, 'field'), INT
                out.append('%slet self_%s : %s := %s' % (ind, tg.attr, show(t), text))
                self.fields.append((tg.attr, t))
                return
            if isinstance(tg, ast.Tuple):
                if all(isinstance(x, ast.Name) for x in tg.elts):
                    text, t = self.expr(s.value)
                    t = res(t)
                    if not (isinstance(t, tuple) and t[0] == 'Tup' and len(t) - 1 == len(tg.elts)):
                        self.fail('tuple unpacking of a value of type %s' % show(t))
                    for x, tx in zip(tg.elts, t[1:]):
                        if self.lookup(x.id) is not None:
                            self.fail('tuple unpacking rebinds %s' % x.id)
                        self.declare(x.id, tx)
                    out.append('%slet (%s) := %s' % (ind, ', '.join(self.lname(x.id) for x in tg.elts), text))
                    return
                if all(isinstance(x, ast.Subscript) for x in tg.elts) and isinstance(s.value, ast.Tuple) \
                        and len(s.value.elts) == len(tg.elts):
                    # Python: the right-hand sides are evaluated first (left to right), then assigned left to right
                    tmps = []
                    for v in s.value.elts:
                        text, t = self.expr(v)
                        tmp = self.fresh('swap')
                        out.append('%slet %s := %s' % (ind, tmp, text))
                        tmps.append((tmp, t))
                    for x, (tmp, t) in zip(tg.elts, tmps):
                        self.set_item(x, tmp, t, out, ind)
                    return
            self.fail('unsupported assignment target')
        if isinstance(s, ast.AugAssign):
            if not isinstance(s.target, ast.Name):
                self.fail('augmented assignment to something that is not a variable')
            n = s.target.id
            cur = self.lookup(n)
            if cur is None:
                self.fail('variable %s is used where it is not (definitely) bound' % n)
            load = ast.Name(id=n, ctx=ast.Load())
            text, t = self.binop(s.op, load, s.value)
            self.assign_name(n, text, t, out, ind)
            return
        if isinstance(s, ast.If):
            first, node = True, s
            while True:
                out.append('%s%s %s then' % (ind, 'if' if first else 'else if', self.truthy(node.test)))
                out.extend(self.block(node.body, ind + '  '))
                first = False
                if len(node.orelse) == 1 and isinstance(node.orelse[0], ast.If):
                    node = node.orelse[0]
                    continue
                if node.orelse:
                    out.append('%selse' % ind)
                    out.extend(self.block(node.orelse, ind + '  '))
                break
            return
        if isinstance(s, ast.For):
            if s.orelse:
                self.fail('for .. else')
            it, et = self.iterable(s.iter)
            scope = {}
            names = [s.target.id] if isinstance(s.target, ast.Name) else \
                [x.id for x in getattr(s.target, 'elts', []) if isinstance(x, ast.Name)]
            for n in names:
                if self.lookup(n) is not None:
                    self.fail('loop variable %s shadows a bound variable' % n)
            pat = self.pattern(s.target, et, scope)
            out.append('%sfor %s in %s do' % (ind, pat, it))
            out.extend(self.block(s.body, ind + '  ', scope=scope))
            return
        if isinstance(s, ast.Return):
            if self.fields is not None:
                self.fail('return inside __init__')
            if s.value is None:
                self.fail('return without a value')
            text, t = self.expr(s.value)
            out.append('%sreturn %s' % (ind, self.coerce(text, t, self.ret, 'return')))
            return
        if isinstance(s, ast.Raise):
            x = s.exc
            if s.cause is not None or not (isinstance(x, ast.Call) and isinstance(x.func, ast.Name)
                                           and x.func.id == 'ValueError' and len(x.args) == 1 and not x.keywords):
                self.fail('unsupported raise form')
            m = x.args[0]
            if isinstance(m, ast.Call) and isinstance(m.func, ast.Attribute) and m.func.attr == 'format':
                m = m.func.value          # the arguments of .format only shape the message
            if not (isinstance(m, ast.Constant) and isinstance(m.value, str)):
                self.fail('raise with a message that is not a string constant')
            out.append('%sthrow (PyErr.valueError %s)' % (ind, lean_str(m.value)))
            return
        if isinstance(s, ast.Pass):
            out.append(ind + 'pure ()')
            return
        if isinstance(s, ast.Continue):
            out.append(ind + 'continue')
            return
        if isinstance(s, ast.Break):
            out.append(ind + 'break')
            return
        self.fail('unsupported statement %s' % type(s).__name__)

    @staticmethod
    def falls_through(stmts):
        for s in stmts:
            if isinstance(s, (ast.Return, ast.Raise)):
                return False
            if isinstance(s, ast.If) and s.orelse and not Fn.falls_through(s.body) and not Fn.falls_through(s.orelse):
                return False
        return True

    def mutated_params(self):
        """parameters that are rebound / item-assigned / appended to in the body"""
        names = [p for p, _ in self.sig]
        reb, inplace = set(), set()
        for node in ast.walk(self.node):
            if isinstance(node, ast.Name) and isinstance(node.ctx, ast.Store) and node.id in names:
                reb.add(node.id)
            if isinstance(node, ast.Subscript) and isinstance(node.ctx, ast.Store) and isinstance(node.value, ast.Name) \
                    and node.value.id in names:
                inplace.add(node.value.id)
            if isinstance(node, ast.Call) and isinstance(node.func, ast.Attribute) and isinstance(node.func.value, ast.Name) \
                    and node.func.value.id in names and node.func.attr in ('pop', 'append', 'sort', 'reverse', 'insert',
                                                                           'remove', 'extend', 'clear'):
                inplace.add(node.func.value.id)
        return reb, inplace

    def translate(self):
        a = self.node.args
        method = self.key.startswith('Solution.')
        if a.kwarg or a.kwonlyargs or a.defaults or a.kw_defaults or a.posonlyargs or self.node.decorator_list:
            self.fail('unsupported signature')
        names = [x.arg for x in a.args] + ([a.vararg.arg] if a.vararg else [])
        if a.vararg and self.key != 'Solution.__call__':
            self.fail('unsupported signature (*args)')
        if self.key == 'Solution.__call__' and not (a.vararg and len(a.args) == 1):
            self.fail('expected the signature (self, *v)')
        if len(names) != len(self.sig):
            self.fail('expected %d parameters, found %d' % (len(self.sig), len(names)))
        # the parameter NAMES come from the source, the TYPES from SIG (by position)
        self.sig = [(n, t) for n, (_, t) in zip(names, self.sig)]
        reb, self.inplace = self.mutated_params()
        if self.key == 'Solution.__init__':
            self.fields = []
        scope = {n: t for n, t in self.sig}
        self.scopes.append(scope)
        pre = []
        for n, t in self.sig:
            if n in reb or n in self.inplace:
                if n == 'self':
                    self.fail('self is rebound')
                pre.append('  let mut %s := %s' % (self.lname(n), self.lname(n)))
        lines = []
        for s in self.node.body:
            self.stmt(s, lines, '  ')
        self.scopes.pop()
        if self.fields is not None:
            if not self.fields:
                self.fail('__init__ assigns no field')
            lines.append('  return { %s }' % ', '.join('%s := self_%s' % (f, f) for f, _ in self.fields))
        elif self.falls_through(self.node.body):
            self.fail('control may reach the end of the function without a return')
        params = self.sig[1:] if self.key == 'Solution.__init__' else self.sig
        head = '/-- `%s(%s)` -/\ndef %s %s: PyM %s := do' % (
            self.key, ', '.join(('*' + n) if (a.vararg and n == a.vararg.arg) else n for n in names), self.lean,
            ''.join('(%s : %s) ' % (self.lname(n), show(t)) for n, t in params), show(self.ret, False))
        text = head + '\n' + '\n'.join(pre + lines) + '\n'
        # element types fixed by a later statement (`x = []` .. `x.append(e)`) are filled in now
        text = re.sub('⟪T(\\d+)⟫', lambda mo: show(TVar.all[int(mo.group(1))], False), text)
        if '⟪' in text:
            self.fail('the element type of a list could not be determined')
        return text


class NullFn(Fn):
    """`null`: the one trusted reading.  The body must be `return <comparison against get_eps()>`; the comparison is
    pinned as a string, the definition is the exact reading `f = 0`."""

    def translate(self):
        body = [s for s in self.node.body
                if not (isinstance(s, ast.Expr) and isinstance(s.value, ast.Constant) and isinstance(s.value.value, str))]
        a = self.node.args
        if a.vararg or a.kwarg or a.kwonlyargs or a.defaults or len(a.args) != 1 or self.node.decorator_list:
            self.fail('unsupported signature')
        if len(body) != 1 or not isinstance(body[0], ast.Return) or not isinstance(body[0].value, ast.Compare):
            self.fail('the body is not a single `return <comparison>`')
        cmpx = body[0].value
        if not any(isinstance(n, ast.Call) and isinstance(n.func, ast.Name) and n.func.id == 'get_eps' and not n.args
                   for n in ast.walk(cmpx)):
            self.fail('the comparison does not involve get_eps()')
        p = a.args[0].arg
        self.sig = [(p, RAT)]
        self.inplace = set()
        return ('/-- the Python text of the comparison in `null` (the trusted reading below is a reading of THIS text) -/\n'
                'def s_null_shape : String := %s\n'
                '/-- `null(%s)`: TRUSTED READING `abs(f) < get_eps()` ↦ `f = 0` -/\n'
                'def s_null (%s : Rat) : PyM Bool := do\n  return pyNullExact %s\n'
                % (lean_str('%s |- %s' % (p, ast.unparse(cmpx))), p, self.lname(p), self.lname(p)))


class Result:
    def __init__(self, key, fn=None, text=None, error=None):
        self.key, self.fn, self.text, self.error, self.ok = key, fn, text, error, error is None


class Engine:
    def __init__(self, repo):
        try:
            self.mod = ast.parse(open(os.path.join(repo, SRC)).read())
        except (OSError, SyntaxError, ValueError) as ex:
            sys.stderr.write('extract_solver: cannot parse %s: %s\n' % (SRC, ex))
            sys.exit(1)
        self.results, self.busy, self.order = {}, set(), []
        self.defs, self.module_error = {}, None
        self.alias = {}
        self.scan()

    def scan(self):
        def note(key, node):
            self.defs.setdefault(key, []).append(node)
        for n in self.mod.body:
            if isinstance(n, ast.Expr) and isinstance(n.value, ast.Constant) and isinstance(n.value.value, str):
                continue
            if isinstance(n, ast.ImportFrom) and n.module in ('__future__', 'constant'):
                continue
            if isinstance(n, ast.FunctionDef):
                note(n.name, n)
                continue
            if isinstance(n, ast.ClassDef) and n.name == 'Solution' and not n.decorator_list and not n.keywords:
                for c in n.body:
                    if isinstance(c, ast.Expr) and isinstance(c.value, ast.Constant) and isinstance(c.value.value, str):
                        continue
                    if isinstance(c, ast.FunctionDef):
                        note('Solution.' + c.name, c)
                        continue
                    if isinstance(c, ast.Assign) and len(c.targets) == 1 and isinstance(c.targets[0], ast.Name) \
                            and isinstance(c.value, ast.Name):
                        self.alias['Solution.' + c.targets[0].id] = 'Solution.' + c.value.id
                        note('Solution.' + c.targets[0].id, c)
                        continue
                    self.module_error = 'unknown statement in the body of class Solution: %s' % type(c).__name__
                continue
            self.module_error = 'unknown module-level statement %s' % type(n).__name__

    def callee(self, caller, key):
        r = self.result(key)
        if not r.ok:
            caller.fail('calls %s, whose extraction failed' % key)
        return r.fn

    def result(self, key):
        if key in self.results:
            return self.results[key]
        if key in self.busy:
            return Result(key, error='%s: recursion between extracted functions' % key)
        self.busy.add(key)
        nodes = self.defs.get(key, [])
        if self.module_error:
            r = Result(key, error='%s: %s' % (key, self.module_error))
        elif key not in SIG:
            r = Result(key, error='%s: a function the translator has no typing for' % key)
        elif len(nodes) != 1:
            r = Result(key, error='%s: expected exactly one definition, found %d' % (key, len(nodes)))
        elif key in self.alias:
            tgt = self.alias[key]
            t = self.result(tgt)
            if not t.ok:
                r = Result(key, error='%s: alias of %s, whose extraction failed' % (key, tgt))
            else:
                fn = Fn(self, key, nodes[0])
                fn.sig, fn.inplace = t.fn.sig, set()
                r = Result(key, fn=fn, text='/-- `%s = %s` -/\ndef %s %s: PyM %s :=\n  %s %s\n' % (
                    key, tgt.split('.')[-1], SIG[key][0],
                    ''.join('(%s : %s) ' % (n, show(ty)) for n, ty in t.fn.sig), show(t.fn.ret, False),
                    t.fn.lean, ' '.join(n for n, _ in t.fn.sig)))
        elif not isinstance(nodes[0], ast.FunctionDef):
            r = Result(key, error='%s: not a function definition' % key)
        else:
            fn = (NullFn if key == 'null' else Fn)(self, key, nodes[0])
            try:
                r = Result(key, fn=fn, text=fn.translate())
            except Fail as ex:
                r = Result(key, fn=fn, error=str(ex))
        self.busy.discard(key)
        self.results[key] = r
        self.order.append(key)          # callees are completed (hence listed) before their callers
        return r

    def run(self):
        keys = list(ORDER) + sorted(k for k in self.defs if k not in ORDER)
        for k in keys:
            self.result(k)
        out = ['import G3D.Model.PyRtS',
               '/-! GENERATED by tools/extract_solver.py from %s — do not edit' % SRC,
               '',
               '    One definition `s_<name>` per Python function / method of `Solution` (`s_init`, `s_bool`, `s_nonzero`,',
               '    `s_call`), translated statement by statement from the Python AST into the vocabulary of',
               '    G3D/Model/PyRtS.lean (see the table in the docstring of tools/extract_solver.py).  A function that could',
               '    not be translated appears as `s_<name>_EXTRACTION_FAILED : String` instead.',
               '    Trusted reading: `null(f)` (`abs(f) < get_eps()`, pinned in `s_null_shape`) is `f = 0`.',
               '    G3D/Proofs/SolverTie.lean proves every definition below equal to the hand model G3D/Model/Solver2.lean. -/',
               'set_option linter.unusedVariables false',
               'namespace G3D.Extracted',
               'open G3D.PyRtS',
               '']
        failed = []
        init = self.results.get('Solution.__init__')
        for k in self.order:
            r = self.results[k]
            lean = SIG[k][0] if k in SIG else 's_' + k.replace('Solution.', '').strip('_')
            if r.ok:
                if k == 'Solution.__init__':
                    out.append('/-- the attributes that `Solution.__init__` assigns -/')
                    out.append('structure Solution where')
                    for f, t in r.fn.fields:
                        out.append('  %s : %s' % (f, show(t)))
                    out.append('')
                out.append(r.text)
            else:
                failed.append(lean)
                sys.stderr.write('extract_solver: %s\n' % r.error)
                out.append('/-- `%s` could NOT be translated -/' % k)
                out.append('def %s_EXTRACTION_FAILED : String := %s\n' % (lean, lean_str(r.error)))
        out.append('/-- the Python functions, in emission order -/')
        out.append('def solverNames : List String := [%s]' % ', '.join('"%s"' % k for k in self.order))
        out.append('/-- those that could not be translated -/')
        out.append('def solverFailed : List String := [%s]' % ', '.join('"%s"' % n for n in failed))
        out.append('end G3D.Extracted')
        sys.stdout.write('\n'.join(out) + '\n')


if __name__ == '__main__':
    sys.dont_write_bytecode = True
    if len(sys.argv) != 2:
        sys.stderr.write('usage: extract_solver.py <repo>\n')
        sys.exit(1)
    Engine(sys.argv[1]).run()
