#!/venv/bin/python
"""Translator T3, file `kmemberr`: see tools/kernels_engine.py (FILES['kmemberr']) for the kernels walked.
usage: extract_kmemberr.py <repo>      (Lean source for lean/G3D/Extracted/Kmemberr.lean on stdout; a kernel whose walk fails is
replaced by `impl_<kernel>_EXTRACTION_FAILED`; a non-zero exit only for engine-level failures)"""
import sys, os
sys.dont_write_bytecode = True
sys.path.insert(0, os.path.dirname(os.path.abspath(__file__)))
import kernels_engine
kernels_engine.run_as_script(__file__)
