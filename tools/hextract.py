#!/venv/bin/python
"""Translator T5 (shared engine): the BODIES of the handlers of Geometry3D/calc/intersection.py and of the helpers of
Geometry3D/calc/aux_calc.py  ->  lean/G3D/Extracted/H{flat,polygon,polyhedron,body}.lean
Used through the thin wrappers tools/extract_hflat.py, extract_hpolygon.py, extract_hpolyhedron.py, extract_hbody.py
(`extract_<group>.py <repo>`: Lean source of ONE group on stdout).  The four groups are independent: no generated file
imports another one, so an edit of one Python handler rewrites exactly one generated file.

Fault isolation (per function): when a function contains a construct the translator does not know, or an expected
function is missing, ONLY that function is affected: instead of `h_<name>` the file contains
    def h_<name>_EXTRACTION_FAILED : String := "<function>:<line>: <what>"
so exactly the tie theorems of that function stop compiling; the message also goes to stderr and the exit status is 0.
A function that directly calls a failed function of its own group falls back to `pyCallHandler` (the model's handler)
when the callee is one of the 28 handlers, and fails likewise when the callee is a helper.  Exit status 1 only when a
source file cannot be read / parsed at all.

Every Python function becomes ONE Lean definition `h_<python name>`, translated statement by statement from the
Python AST into the vocabulary of lean/G3D/Model/PyRt.lean (the "Python runtime"):

  statement                               Lean (`do`-notation in the monad PyM = Except BErr)
  --------------------------------------  -----------------------------------------------------------------
  x = e                                   let mut x ← ⟦e⟧   (first binding in scope)  /  x ← ⟦e⟧  (rebinding)
  if c: A elif d: B else: C               if (⟦c⟧).truthy then ⟦A⟧ else if (⟦d⟧).truthy then ⟦B⟧ else ⟦C⟧
  for x in e: A                           for x in (← pyIter ⟦e⟧) do ⟦A⟧
  return e / return                       return ⟦e⟧ / return Val.none     (falling off the end: return Val.none)
  raise TypeError("Bug detected..")       throw BErr.bug
  raise ValueError(..)                    throw BErr.value
  pass / continue / break                 pure () / continue / break
  s.add(x) / l.append(x)   (s, l local)   s ← pySetAdd s ⟦x⟧ / l ← pyListAppend l ⟦x⟧
  s |= e                                  s ← pySetUnion s ⟦e⟧
  get_main_logger().<level>(..)           dropped (no value effect)

  expression                              Lean
  --------------------------------------  -----------------------------------------------------------------
  None / True / 3                         Val.none / (Val.bool true) / (Val.int 3)
  x.attr                                  (← pyAttr_<attr> x)           (known attributes only)
  isinstance(x, C)                        (pyIsInstance x .C)
  x is None / x is not None               (pyIsNone x) / (pyNot (pyIsNone x))
  not e / a and b / a or b                (pyNot e) / (← pyAnd (do ..) (do ..)) / (← pyOr ..)   (short-circuit)
  a == b, a != b, a < b, ...              (← pyEq a b), (← pyNe a b), (← pyCmp .lt a b), ...
  a in b / a not in b                     (← pyIn a b) / (pyNot (← pyIn a b))      (pyIn item container)
  len(x) list(x) tuple(x) set() set(x)    (← pyLen x) (← pyList x) (← pyList x) pySetNew (← pySet x)
  range(a, b)  min(x)  max(x)  x[i]       (← pyRange a b) (← pyMin x) (← pyMax x) (← pyIndex x i)
  [a, b] / (a, b)                         (← pyListLit [a, b])
  a * b, a + b, a - b                     (← pyMul a b) ...
  intersection(a, b)                      (← pyIntersection a b)        = the model's dispatcher `interRef`
  x.intersection(y)                       (← pyMeth_intersection x y)
  inter_xxx(a, b)                         (← h_inter_xxx a b) if extracted in the same group, else (← pyCallHandler .inter_xxx a b)
  helper(a, ..)   (aux_calc)              (← h_helper a ..)   (same group only; a helper of another group is an error)
  get_relative_projection_length(u, v)    (← pyRelProjLen u v)
  Segment(a,b) Line(a,b) Vector(a,b)      (← pySegment a b) (← pyLine a b) (← pyVector a b)
  ConvexPolygon(t, reverse=r, check_convex=c)   (← pyConvexPolygon t r c)       ConvexPolyhedron(t): pyConvexPolyhedron
  x.segments() u.parallel(v) s.union(t)   (← pyMeth_segments x) (← pyMeth_parallel u v) (← pySetUnion s t)
  copy.deepcopy(x) / copy.deepcopy(x).move(v)   (pyDeepcopy x) / (← pyMeth_move (pyDeepcopy x) v)

Anything else is an error for THAT function (see fault isolation above): `extract_<group>: <function>:<line>: <what>` on stderr.

Scoping: Python variables are function-scoped, Lean's are block-scoped.  A variable is declared (`let mut`) at its
first assignment; reading a variable that is not declared in an enclosing block at that point (Python: possibly
unbound, or bound only on some path) is rejected.
Iteration order: a Python set is iterated in hash order; here it is the duplicate-free list in insertion order.
That results do not depend on this order is NOT assumed by the translation (it is a property of the handlers that
the exactness theorems establish); the differential tests compare order-insensitively."""
import ast, sys, os

INTER = 'Geometry3D/calc/intersection.py'
AUX = 'Geometry3D/calc/aux_calc.py'

# group -> (file, function) in emission order preference (a callee is always emitted before its callers).
# Every helper sits in the group of its only callers, so no group refers to another one.
GROUPS = {
    'hflat': [
        (INTER, 'inter_point_point'), (INTER, 'inter_point_line'), (INTER, 'inter_point_plane'),
        (INTER, 'inter_point_segment'), (INTER, 'inter_point_halfline'),
        (INTER, 'inter_line_segment'), (INTER, 'inter_line_halfline'),
        (INTER, 'inter_plane_segment'), (INTER, 'inter_plane_halfline'),
        (INTER, 'inter_segment_segment'), (INTER, 'inter_segment_halfline'), (INTER, 'inter_halfline_halfline'),
    ],
    'hpolygon': [
        (INTER, 'inter_point_convexpolygon'), (INTER, 'inter_line_convexpolygon'), (INTER, 'inter_plane_convexpolygon'),
        (INTER, 'inter_segment_convexpolygon'), (INTER, 'inter_convexpolygon_halfline'),
    ],
    'hpolyhedron': [
        (AUX, 'get_segment_from_point_list'),
        (AUX, 'get_segment_convexpolyhedron_intersection_point_set'),
        (AUX, 'get_halfline_convexpolyhedron_intersection_point_set'),
        (INTER, 'inter_point_convexpolyhedron'), (INTER, 'inter_line_convexpolyhedron'),
        (INTER, 'inter_plane_convexpolyhedron'), (INTER, 'inter_segment_convexpolyhedron'),
        (INTER, 'inter_convexpolyhedron_halfline'),
    ],
    'hbody': [
        (AUX, 'points_in_a_line'),
        (AUX, 'get_segment_convexpolygon_intersection_point_set'),
        (INTER, 'inter_convexpolygon_convexpolygon'),
        (INTER, 'inter_convexpolygon_convexPolyhedron'),
        (INTER, 'inter_convexpolyhedron_convexpolyhedron'),
    ],
}
GROUP_OF = {n: g for g, l in GROUPS.items() for _, n in l}
AUX_HELPERS = [n for g, l in GROUPS.items() for f, n in l if f == AUX]

# the 28 handlers known to the model's `runHandler` (G3D.Dispatch.Handler)
HANDLERS = ['inter_point_point', 'inter_point_line', 'inter_point_plane', 'inter_point_segment', 'inter_point_halfline',
            'inter_point_convexpolygon', 'inter_point_convexpolyhedron', 'inter_line_line', 'inter_line_plane',
            'inter_line_segment', 'inter_line_halfline', 'inter_line_convexpolygon', 'inter_line_convexpolyhedron',
            'inter_plane_plane', 'inter_plane_segment', 'inter_plane_halfline', 'inter_plane_convexpolygon',
            'inter_plane_convexpolyhedron', 'inter_segment_segment', 'inter_segment_halfline',
            'inter_segment_convexpolygon', 'inter_segment_convexpolyhedron', 'inter_halfline_halfline',
            'inter_convexpolygon_halfline', 'inter_convexpolyhedron_halfline', 'inter_convexpolygon_convexpolygon',
            'inter_convexpolygon_convexPolyhedron', 'inter_convexpolyhedron_convexpolyhedron']

CLASSES = ['Point', 'Line', 'Plane', 'Segment', 'HalfLine', 'ConvexPolygon', 'ConvexPolyhedron', 'Vector']
ATTRS = ['plane', 'points', 'center_point', 'convex_polygons', 'segment_set', 'point_set', 'start_point', 'end_point',
         'point', 'vector', 'line', 'p', 'n', 'sv', 'dv']
CMP = {ast.Lt: '.lt', ast.LtE: '.le', ast.Gt: '.gt', ast.GtE: '.ge'}
BINOP = {ast.Mult: 'pyMul', ast.Add: 'pyAdd', ast.Sub: 'pySub'}
LEAN_KEYWORDS = set('''at end from in then do open instance local show have fun let match with if else for return
    by where def theorem lemma example namespace section variable universe import export structure class inductive
    deriving extends mutual private protected partial unsafe noncomputable macro syntax notation infix infixl infixr
    prefix postfix attribute set_option using obtain calc suffices unless try catch finally throw break continue
    mut true false Type Prop Sort forall exists nomatch nofun this'''.split())


class Fail(Exception):
    pass


class Fn:
    """translation of one Python function"""

    def __init__(self, eng, path, node):
        self.eng = eng
        self.path, self.node, self.name = path, node, node.name
        self.calls = []          # extracted functions this one calls (for ordering)
        self.scopes = []         # stack of sets of declared variable names
        self.params = []
        self.reassigned = set()

    def fail(self, node, msg):
        raise Fail('%s:%d: %s' % (self.name, getattr(node, 'lineno', self.node.lineno), msg))

    # ------------------------------------------------------------------ names
    def lean_name(self, n):
        if n in LEAN_KEYWORDS or n.startswith('py') or n.startswith('h_') or n in ('Val', 'BErr', 'PyM'):
            return '«v_%s»' % n if n in LEAN_KEYWORDS else 'v_' + n
        return n

    def declared(self, n):
        return any(n in s for s in self.scopes)

    # ------------------------------------------------------------------ expressions
    # expr() returns (lean_text, monadic): monadic=False -> a term of type Val (usable inside the current `do`,
    # may contain nested (← ..) actions); monadic=True -> a term of type PyM Val whose arguments may contain
    # nested (← ..) actions of the current `do`
    def val(self, e):
        t, m = self.expr(e)
        return '(← %s)' % t if m else t

    def act(self, e):
        """a self-contained term of type PyM Val (own `do` scope: nothing is lifted out of it)"""
        t, m = self.expr(e)
        return '(do %s)' % t if m else '(do pure %s)' % t

    def expr(self, e):
        if isinstance(e, ast.Constant):
            if e.value is None:
                return 'Val.none', False
            if e.value is True:
                return '(Val.bool true)', False
            if e.value is False:
                return '(Val.bool false)', False
            if isinstance(e.value, int):
                return ('(Val.int %d)' % e.value if e.value >= 0 else '(Val.int (%d))' % e.value), False
            self.fail(e, 'unsupported constant %r' % (e.value,))
        if isinstance(e, ast.Name):
            if not isinstance(e.ctx, ast.Load):
                self.fail(e, 'name %s in a non-load context' % e.id)
            if not self.declared(e.id):
                self.fail(e, 'variable %s is read where it is not (definitely) bound in an enclosing block' % e.id)
            return self.lean_name(e.id), False
        if isinstance(e, ast.Attribute):
            if e.attr not in ATTRS:
                self.fail(e, 'unknown attribute .%s' % e.attr)
            return 'pyAttr_%s %s' % (e.attr, self.val(e.value)), True
        if isinstance(e, ast.UnaryOp):
            if isinstance(e.op, ast.Not):
                return '(pyNot %s)' % self.val(e.operand), False
            if isinstance(e.op, ast.USub) and isinstance(e.operand, ast.Constant) and isinstance(e.operand.value, int) \
                    and not isinstance(e.operand.value, bool):
                return '(Val.int (-%d))' % e.operand.value, False
            self.fail(e, 'unsupported unary operator %s' % type(e.op).__name__)
        if isinstance(e, ast.BoolOp):
            comb = 'pyAnd' if isinstance(e.op, ast.And) else 'pyOr'
            acts = [self.act(v) for v in e.values]
            t = acts[-1]
            for a in reversed(acts[:-1]):
                t = '(%s %s %s)' % (comb, a, t)
            return t[1:-1], True
        if isinstance(e, ast.BinOp):
            if type(e.op) not in BINOP:
                self.fail(e, 'unsupported binary operator %s' % type(e.op).__name__)
            return '%s %s %s' % (BINOP[type(e.op)], self.val(e.left), self.val(e.right)), True
        if isinstance(e, ast.Compare):
            if len(e.ops) != 1:
                self.fail(e, 'chained comparison')
            op, a, b = e.ops[0], e.left, e.comparators[0]
            if isinstance(op, (ast.Is, ast.IsNot)):
                if isinstance(b, ast.Constant) and b.value is None:
                    t = '(pyIsNone %s)' % self.val(a)
                elif isinstance(a, ast.Constant) and a.value is None:
                    t = '(pyIsNone %s)' % self.val(b)
                else:
                    self.fail(e, '`is` with an operand other than None')
                return (t if isinstance(op, ast.Is) else '(pyNot %s)' % t), False
            if isinstance(op, ast.Eq):
                return 'pyEq %s %s' % (self.val(a), self.val(b)), True
            if isinstance(op, ast.NotEq):
                return 'pyNe %s %s' % (self.val(a), self.val(b)), True
            if type(op) in CMP:
                return 'pyCmp %s %s %s' % (CMP[type(op)], self.val(a), self.val(b)), True
            if isinstance(op, ast.In):
                return 'pyIn %s %s' % (self.val(a), self.val(b)), True
            if isinstance(op, ast.NotIn):
                return '(pyNot (← pyIn %s %s))' % (self.val(a), self.val(b)), False
            self.fail(e, 'unsupported comparison %s' % type(op).__name__)
        if isinstance(e, ast.Subscript):
            if isinstance(e.slice, ast.Slice) or isinstance(e.slice, ast.Tuple):
                self.fail(e, 'slice / tuple subscript')
            return 'pyIndex %s %s' % (self.val(e.value), self.val(e.slice)), True
        if isinstance(e, (ast.List, ast.Tuple)):
            if any(isinstance(x, ast.Starred) for x in e.elts):
                self.fail(e, 'starred element')
            return 'pyListLit [%s]' % ', '.join(self.val(x) for x in e.elts), True
        if isinstance(e, ast.Call):
            return self.call(e)
        self.fail(e, 'unsupported expression %s' % type(e).__name__)

    def args(self, e, n, kw=()):
        if any(isinstance(a, ast.Starred) for a in e.args):
            self.fail(e, 'starred argument')
        names = [k.arg for k in e.keywords]
        for k in names:
            if k not in kw:
                self.fail(e, 'unexpected keyword argument %s' % k)
        ns = n if isinstance(n, tuple) else (n,)
        if len(e.args) not in ns:
            self.fail(e, 'call of %s with %d positional arguments (expected %s)'
                      % (ast.unparse(e.func), len(e.args), ' or '.join(map(str, ns))))
        return [self.val(a) for a in e.args]

    def call(self, e):
        f = e.func
        if isinstance(f, ast.Name):
            n = f.id
            if self.declared(n):
                self.fail(e, 'call of the local variable %s' % n)
            if n == 'isinstance':
                if len(e.args) != 2 or e.keywords:
                    self.fail(e, 'isinstance with %d arguments' % len(e.args))
                a = [self.val(e.args[0])]
                c = e.args[1]
                if not (isinstance(c, ast.Name) and c.id in CLASSES):
                    self.fail(e, 'isinstance against %s' % ast.unparse(c))
                return '(pyIsInstance %s .%s)' % (a[0], c.id), False
            if n == 'len':
                return 'pyLen %s' % self.args(e, 1)[0], True
            if n in ('list', 'tuple'):
                return 'pyList %s' % self.args(e, 1)[0], True
            if n == 'set':
                a = self.args(e, (0, 1))
                return ('pySetNew', False) if not a else ('pySet %s' % a[0], True)
            if n == 'range':
                a = self.args(e, (1, 2))
                return 'pyRange %s %s' % (('(Val.int 0)', a[0]) if len(a) == 1 else (a[0], a[1])), True
            if n in ('min', 'max'):
                return 'py%s %s' % (n.capitalize(), self.args(e, 1)[0]), True
            if n == 'intersection':
                a = self.args(e, 2)
                return 'pyIntersection %s %s' % (a[0], a[1]), True
            if n in GROUP_OF:
                if GROUP_OF[n] == self.eng.group:
                    callee = self.eng.result(n)      # translated first (callee before caller)
                    if callee.ok:
                        a = self.args(e, len(callee.fn.node.args.args))
                        if n not in self.calls:
                            self.calls.append(n)
                        return 'h_%s %s' % (n, ' '.join(a)), True
                    if n not in HANDLERS:
                        self.fail(e, 'calls the helper %s whose extraction failed' % n)
                    # a failed handler of this group: fall through to the model's handler
                elif n not in HANDLERS:
                    self.fail(e, 'calls the helper %s, which belongs to the group %s' % (n, GROUP_OF[n]))
            if n in HANDLERS:
                a = self.args(e, 2)
                return 'pyCallHandler .%s %s %s' % (n, a[0], a[1]), True
            if n == 'get_relative_projection_length':
                a = self.args(e, 2)
                return 'pyRelProjLen %s %s' % (a[0], a[1]), True
            if n in ('Segment', 'Line', 'Vector'):
                a = self.args(e, 2)
                return 'py%s %s %s' % (n, a[0], a[1]), True
            if n == 'ConvexPolygon':
                a = self.args(e, 1, kw=('reverse', 'check_convex'))
                kws = {k.arg: self.val(k.value) for k in e.keywords}
                return 'pyConvexPolygon %s %s %s' % (a[0], kws.get('reverse', '(Val.bool false)'),
                                                     kws.get('check_convex', '(Val.bool false)')), True
            if n == 'ConvexPolyhedron':
                return 'pyConvexPolyhedron %s' % self.args(e, 1)[0], True
            self.fail(e, 'call of unknown function %s' % n)
        if isinstance(f, ast.Attribute):
            m = f.attr
            if isinstance(f.value, ast.Name) and f.value.id == 'copy' and not self.declared('copy'):
                if m == 'deepcopy':
                    return '(pyDeepcopy %s)' % self.args(e, 1)[0], False
                self.fail(e, 'unknown function copy.%s' % m)
            if m == 'intersection':
                a = self.args(e, 1)
                return 'pyMeth_intersection %s %s' % (self.val(f.value), a[0]), True
            if m == 'segments':
                self.args(e, 0)
                return 'pyMeth_segments %s' % self.val(f.value), True
            if m == 'parallel':
                a = self.args(e, 1)
                return 'pyMeth_parallel %s %s' % (self.val(f.value), a[0]), True
            if m == 'union':
                a = self.args(e, 1)
                return 'pySetUnion %s %s' % (self.val(f.value), a[0]), True
            if m == 'move':
                r = f.value
                if not (isinstance(r, ast.Call) and isinstance(r.func, ast.Attribute) and r.func.attr == 'deepcopy'
                        and isinstance(r.func.value, ast.Name) and r.func.value.id == 'copy'):
                    self.fail(e, '.move() on something that is not a fresh copy.deepcopy(..) (aliasing is not modelled)')
                a = self.args(e, 1)
                return 'pyMeth_move %s %s' % (self.val(r), a[0]), True
            if m in ('add', 'append'):
                self.fail(e, '.%s() used as an expression' % m)
            self.fail(e, 'unknown method .%s()' % m)
        self.fail(e, 'unsupported call form')

    # ------------------------------------------------------------------ statements
    @staticmethod
    def is_logger_call(s):
        """get_main_logger().<level>(...)"""
        if not (isinstance(s, ast.Expr) and isinstance(s.value, ast.Call)):
            return False
        f = s.value.func
        return (isinstance(f, ast.Attribute) and f.attr in ('debug', 'info', 'warning', 'error', 'critical')
                and isinstance(f.value, ast.Call) and isinstance(f.value.func, ast.Name)
                and f.value.func.id == 'get_main_logger' and not f.value.args)

    def bind(self, node, name, text, monadic, out, ind):
        ln = self.lean_name(name)
        if name in self.params:
            self.fail(node, 'assignment to the parameter %s' % name)
        if self.declared(name):
            out.append('%s%s %s %s' % (ind, ln, '←' if monadic else ':=', text))
        else:
            self.scopes[-1].add(name)
            out.append('%slet mut %s : Val %s %s' % (ind, ln, '←' if monadic else ':=', text))

    def block(self, stmts, ind, new_scope=None):
        """-> list of Lean lines; opens a scope"""
        self.scopes.append(set(new_scope or ()))
        out = []
        for s in stmts:
            self.stmt(s, out, ind)
        self.scopes.pop()
        if not out:
            out.append(ind + 'pure ()')
        return out

    def stmt(self, s, out, ind):
        if isinstance(s, ast.Expr):
            if isinstance(s.value, ast.Constant) and isinstance(s.value.value, str):
                return  # docstring
            if self.is_logger_call(s):
                out.append('%s-- logging statement dropped' % ind)
                return
            v = s.value
            if isinstance(v, ast.Call) and isinstance(v.func, ast.Attribute) and v.func.attr in ('add', 'append'):
                r = v.func.value
                if not isinstance(r, ast.Name):
                    self.fail(s, '.%s() on something that is not a local variable' % v.func.attr)
                if r.id in self.params:
                    self.fail(s, '.%s() mutates the parameter %s (caller-visible mutation is not modelled)'
                              % (v.func.attr, r.id))
                if not self.declared(r.id):
                    self.fail(s, 'variable %s is used where it is not (definitely) bound' % r.id)
                a = self.args(v, 1)
                prim = 'pySetAdd' if v.func.attr == 'add' else 'pyListAppend'
                self.bind(s, r.id, '%s %s %s' % (prim, self.lean_name(r.id), a[0]), True, out, ind)
                return
            if isinstance(v, ast.Call):
                t, m = self.expr(v)
                out.append('%slet _ ← %s' % (ind, t) if m else '%slet _ := %s' % (ind, t))
                return
            self.fail(s, 'expression statement %s' % type(v).__name__)
        if isinstance(s, ast.Assign):
            if len(s.targets) != 1 or not isinstance(s.targets[0], ast.Name):
                self.fail(s, 'assignment to something that is not a single variable')
            if isinstance(s.value, ast.Name):
                self.fail(s, 'alias assignment %s = %s (mutation through aliases is not modelled)'
                          % (s.targets[0].id, s.value.id))
            t, m = self.expr(s.value)
            self.bind(s, s.targets[0].id, t, m, out, ind)
            return
        if isinstance(s, ast.AugAssign):
            if not isinstance(s.target, ast.Name):
                self.fail(s, 'augmented assignment to something that is not a variable')
            n = s.target.id
            if not self.declared(n):
                self.fail(s, 'variable %s is used where it is not (definitely) bound' % n)
            if isinstance(s.op, ast.BitOr):
                prim = 'pySetUnion'
            elif type(s.op) in BINOP:
                prim = BINOP[type(s.op)]
            else:
                self.fail(s, 'unsupported augmented assignment %s' % type(s.op).__name__)
            self.bind(s, n, '%s %s %s' % (prim, self.lean_name(n), self.val(s.value)), True, out, ind)
            return
        if isinstance(s, ast.If):
            first = True
            node = s
            while True:
                cond = self.val(node.test)
                out.append('%s%s %s.truthy then' % (ind, 'if' if first else 'else if', cond))
                out.extend(self.block(node.body, ind + '  '))
                first = False
                if len(node.orelse) == 1 and isinstance(node.orelse[0], ast.If):
                    node = node.orelse[0]
                    continue
                if node.orelse:
                    out.append('%selse' % ind)
                    out.extend(self.block(node.orelse, ind + '  '))
                break
            return
        if isinstance(s, ast.For):
            if s.orelse:
                self.fail(s, 'for .. else')
            if not isinstance(s.target, ast.Name):
                self.fail(s, 'for target that is not a single variable')
            it = self.val(s.iter)
            if self.declared(s.target.id):
                self.fail(s, 'loop variable %s shadows a bound variable' % s.target.id)
            out.append('%sfor %s in (← pyIter %s) do' % (ind, self.lean_name(s.target.id), it))
            out.extend(self.block(s.body, ind + '  ', new_scope=[s.target.id]))
            return
        if isinstance(s, ast.Return):
            out.append('%sreturn %s' % (ind, 'Val.none' if s.value is None else self.val(s.value)))
            return
        if isinstance(s, ast.Raise):
            x = s.exc
            if s.cause is not None or not (isinstance(x, ast.Call) and isinstance(x.func, ast.Name)):
                self.fail(s, 'unsupported raise form')
            msg = x.args[0].value if (len(x.args) == 1 and isinstance(x.args[0], ast.Constant)
                                      and isinstance(x.args[0].value, str)) else None
            if x.func.id == 'TypeError' and msg is not None and msg.startswith('Bug detected'):
                out.append('%sthrow BErr.bug' % ind)
            elif x.func.id == 'ValueError' and msg is not None:
                out.append('%sthrow BErr.value' % ind)
            else:
                self.fail(s, 'raise of %s' % ast.unparse(x))
            return
        if isinstance(s, ast.Pass):
            out.append(ind + 'pure ()')
            return
        if isinstance(s, ast.Continue):
            out.append(ind + 'continue')
            return
        if isinstance(s, ast.Break):
            out.append(ind + 'break')
            return
        self.fail(s, 'unsupported statement %s' % type(s).__name__)

    @staticmethod
    def falls_through(stmts):
        """may control reach the end of this statement list?"""
        for s in stmts:
            if isinstance(s, (ast.Return, ast.Raise)):
                return False
            if isinstance(s, ast.If) and s.orelse and not Fn.falls_through(s.body) and not Fn.falls_through(s.orelse):
                return False
        return True

    def translate(self):
        a = self.node.args
        if (a.vararg or a.kwarg or a.kwonlyargs or a.defaults or a.kw_defaults or a.posonlyargs
                or self.node.decorator_list):
            self.fail(self.node, 'unsupported signature')
        self.params = [x.arg for x in a.args]
        lines = self.block(self.node.body, '  ', new_scope=self.params)
        if lines == ['  pure ()']:
            lines = []
        if self.falls_through(self.node.body):
            lines.append('  return Val.none')
        # no line numbers in the output: an edit elsewhere in the source must not rewrite this group's file
        head = '/-- %s `%s(%s)` -/\ndef h_%s %s: PyM Val := do' % (
            self.path, self.name, ', '.join(self.params), self.name,
            ''.join('(%s : Val) ' % self.lean_name(p) for p in self.params))
        return head + '\n' + '\n'.join(lines) + '\n'


class Result:
    def __init__(self, name, fn=None, text=None, error=None):
        self.name, self.fn, self.text, self.error, self.ok = name, fn, text, error, error is None


class Engine:
    def __init__(self, group, repo):
        self.group, self.repo = group, repo
        self.results = {}
        self.busy = set()
        self.order = []
        self.mods = {}
        for path in sorted({p for p, _ in GROUPS[group]}):
            try:
                self.mods[path] = ast.parse(open(os.path.join(repo, path)).read())
            except (OSError, SyntaxError, ValueError) as ex:
                sys.stderr.write('extract_%s: cannot parse %s: %s\n' % (group, path, ex))
                sys.exit(1)

    def result(self, name):
        if name in self.results:
            return self.results[name]
        path = dict((n, p) for p, n in GROUPS[self.group])[name]
        if name in self.busy:
            return Result(name, error='%s:0: direct recursion between extracted functions' % name)
        self.busy.add(name)
        defs = [n for n in self.mods[path].body if isinstance(n, ast.FunctionDef) and n.name == name]
        if len(defs) != 1:
            r = Result(name, error='%s:0: expected exactly one top-level definition in %s, found %d'
                                   % (name, path, len(defs)))
        else:
            fn = Fn(self, path, defs[0])
            try:
                r = Result(name, fn=fn, text=fn.translate())
            except Fail as ex:
                r = Result(name, fn=fn, error=str(ex))
        self.busy.discard(name)
        self.results[name] = r
        self.order.append(name)        # callees are completed (hence listed) before their callers
        return r

    def run(self):
        names = [n for _, n in GROUPS[self.group]]
        for n in names:
            self.result(n)
        out = []
        out.append('import G3D.Model.PyRt')
        out.append('/-! GENERATED by tools/extract_%s.py (engine tools/hextract.py) from %s — do not edit'
                   % (self.group, ' and '.join(sorted({p for p, _ in GROUPS[self.group]}))))
        out.append('')
        out.append('    One definition `h_<python name>` per Python function, translated statement by statement from the Python')
        out.append('    AST into the vocabulary of G3D/Model/PyRt.lean (see the table in the docstring of tools/hextract.py).')
        out.append('    A function that could not be translated appears as `h_<name>_EXTRACTION_FAILED : String` instead.')
        out.append('    Trusted reading: a Python `set` is iterated in insertion order (Python: hash order); a generic')
        out.append('    `intersection(a, b)` is the model\'s reference dispatcher `interRef`; `ConvexPolygon.segments()` is read')
        out.append('    eagerly; logging statements are dropped.  G3D/Proofs/HandlersTie*.lean prove every definition below equal')
        out.append('    to the hand-written model of the same function. -/')
        out.append('set_option linter.unusedVariables false')
        out.append('namespace G3D.Extracted')
        out.append('open G3D G3D.PyRt')
        out.append('')
        failed = []
        for n in self.order:
            r = self.results[n]
            if r.ok:
                out.append(r.text)
            else:
                failed.append(n)
                sys.stderr.write('extract_%s: %s\n' % (self.group, r.error))
                out.append('/-- `%s` could NOT be translated -/' % n)
                out.append('def h_%s_EXTRACTION_FAILED : String := "%s"\n'
                           % (n, r.error.replace('\\', '\\\\').replace('"', '\\"')))
        out.append('/-- the Python functions of this group, in emission order -/')
        out.append('def %sNames : List String := [%s]' % (self.group, ', '.join('"%s"' % n for n in self.order)))
        out.append('/-- those that could not be translated -/')
        out.append('def %sFailed : List String := [%s]' % (self.group, ', '.join('"%s"' % n for n in failed)))
        out.append('end G3D.Extracted')
        sys.stdout.write('\n'.join(out) + '\n')


def main(group, argv):
    if len(argv) != 2:
        sys.stderr.write('usage: extract_%s.py <repo>\n' % group)
        sys.exit(1)
    Engine(group, argv[1]).run()
