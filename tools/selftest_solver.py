#!/venv/bin/python
"""Self-test of the solver translator (tools/extract_solver.py) and of G3D/Proofs/SolverTie{Gauss,}.lean: small mutations
of Geometry3D/utils/solver.py on a SNAPSHOT copy of the library (/tmp/vs_repo, deleted at the end).  For every mutation
the table says whether the generated file changed, which failure markers appeared, and which tie theorems stop building.
A behaviour-changing mutation must either produce a marker `s_<name>_EXTRACTION_FAILED` or change the generated term so
that a tie theorem no longer compiles; the controls (no change, renaming a local variable, editing a comment) must leave
everything green.
usage: selftest_solver.py [ids ...]   (writes only to /tmp/vs_repo and lean/G3D/Extracted/Solver.lean, which is
regenerated from ${G3D_SRC:-/repo} at the end)"""
import subprocess, shutil, os, sys, re, json
VERIF = os.path.dirname(os.path.dirname(os.path.abspath(__file__)))
REPO = os.environ.get('G3D_SRC', '/repo')
ROOT = '/tmp/vs_repo'
BASE = os.path.join(ROOT, 'base'); SRC = os.path.join(BASE, 'Geometry3D'); DST = os.path.join(ROOT, 'Geometry3D')
F = 'utils/solver.py'
GEN = os.path.join(VERIF, 'lean', 'G3D', 'Extracted', 'Solver.lean')
MODULES = ['SolverTieGauss', 'SolverTie']

# (id + description, old text, new text, expectation: 'marker' | 'tie' | 'green')
MUTS = [
 ('M0 control: no change', None, None, 'green'),
 ('M1 `if r >= M` -> `if r > M` (gaussian_elimination)', "        if r >= M:\n", "        if r > M:\n", 'tie'),
 ('M2 pivot without abs (find_pivot_row)', "candidates.append((abs(row[0]), i))", "candidates.append((row[0], i))", 'tie'),
 ('M3 `range(N - 1)` -> `range(N)` (gaussian_elimination)', "for j in range(N - 1):", "for j in range(N):", 'tie'),
 ('M4 elimination from row r instead of r+1', "for i in range(r + 1, M):", "for i in range(r, M):", 'tie'),
 ('M5 dropped row swap', "        m[r], m[pivot] = m[pivot], m[r]\n", "", 'tie'),
 ('M6 `row[-1] / row[var]` -> `row[-1] / row[i]` (pass 1)', "vals[var] = row[-1] / row[var]", "vals[var] = row[-1] / row[i]", 'tie'),
 ('M7 `not null(v)` -> `null(v)` (first_nonzero)', "        if not null(v):\n            return i\n    return len(r)",
  "        if null(v):\n            return i\n    return len(r)", 'tie'),
 ('M8 pass order changed: back substitution before the free values', 'SWAP23', None, 'tie'),
 ('M9 `v.pop()` -> `v.pop(0)`', "vals[i] = v.pop()", "vals[i] = v.pop(0)", 'marker'),
 ('M10 the `pivots` set dropped from the test', "if vals[i] is None and i not in pivots:", "if vals[i] is None:", 'tie'),
 ('M11 `pivot += r` dropped', "        pivot += r\n", "", 'tie'),
 ('M12 `max(candidates)` -> `min(candidates)`', "return max(candidates)[1]", "return min(candidates)[1]", 'marker'),
 ('M13 `abs(f) < get_eps()` -> `abs(f) <= get_eps()` (null: the pinned comparison)', "return abs(f) < get_eps()",
  "return abs(f) <= get_eps()", 'tie'),
 ('M14 `varcount = shape(s)[1] - 1` -> `shape(s)[1]`', "self.varcount = shape(s)[1] - 1", "self.varcount = shape(s)[1]", 'tie'),
 ('M15 `not any(` -> `not all(` (_solvable)', "self._solvable = not any(", "self._solvable = not all(", 'tie'),
 ('M16 `* -1` dropped from factor', "factor = m[i][j] / m[r][j] * -1", "factor = m[i][j] / m[r][j]", 'tie'),
 ('M17 `s += row[-1]` -> `s -= row[-1]` (pass 3)', "            s += row[-1]\n", "            s -= row[-1]\n", 'tie'),
 ('M18 `range(tbd + 1, ..)` -> `range(tbd, ..)` (pass 3)', "for j in range(tbd + 1, len(row) - 1)", "for j in range(tbd, len(row) - 1)", 'tie'),
 ('M19 `count(..) == 1` -> `>= 1` (pass 1)', "row[:-1]) == 1:", "row[:-1]) >= 1:", 'tie'),
 ('M20 `reversed(range(len(vals)))` -> `range(len(vals))` (pass 2)', "for i in reversed(range(len(vals))):", "for i in range(len(vals)):", 'tie'),
 ('M21 arity check before the solvability check (which exception is raised)', 'SWAPCHECKS', None, 'tie'),
 ('M22 error messages exchanged', 'SWAPMSGS', None, 'tie'),
 ('M23 `row[0] != 0` -> `row[0] > 0` (find_pivot_row)', "if row[0] != 0:", "if row[0] > 0:", 'tie'),
 ('M24 `[row[j:] for row in m[r:]]` -> `[row[j:] for row in m]`', "[row[j:] for row in m[r:]]", "[row[j:] for row in m]", 'tie'),
 ('M25 unique_equations counts null rows', "sum(1 for row in s if not nullrow(row))", "sum(1 for row in s if nullrow(row))", 'tie'),
 ('M26 unknown construct: `while` loop (count)', "    c = 0\n    for i in l:", "    c = 0\n    while False:\n        pass\n    for i in l:", 'marker'),
 ('M27 unknown construct: try/except (index)', "    for i, v in enumerate(l):\n        if f(v):\n            return i\n",
  "    try:\n        return [bool(f(v)) for v in l].index(True)\n    except ValueError:\n        pass\n", 'marker'),
 ('M28 module-level rebinding `null = lambda f: False`', "def nullrow(r):", "null = lambda f: False\n\n\ndef nullrow(r):", 'marker'),
 ('M29 `r += 1` dropped', "        r += 1\n", "", 'tie'),
 ('M30 `row[:-1]` -> `row` in _solvable', "all(null(coeff) for coeff in row[:-1]) and", "all(null(coeff) for coeff in row) and", 'tie'),
 ('M31 control: rename local `candidates` -> `cands`', 'RENAME', None, 'green'),
 ('M32 control: comment edited', "# Swap the rows", "# swap the two rows", 'green'),
]


def run(cmd, **kw):
    return subprocess.run(cmd, capture_output=True, text=True, **kw)


def snapshot():
    shutil.rmtree(ROOT, ignore_errors=True); os.makedirs(BASE)
    ar = subprocess.run('git -C %s archive HEAD Geometry3D | tar -x -C %s' % (REPO, BASE), shell=True, capture_output=True)
    if ar.returncode != 0 or not os.path.isdir(SRC):
        shutil.rmtree(SRC, ignore_errors=True); shutil.copytree(os.path.join(REPO, 'Geometry3D'), SRC)
    shutil.copytree(SRC, DST)


def mutate(s, old, new, name):
    if old == 'SWAP23':
        a = s.index("        for i in reversed(range(len(vals))):")
        b = s.index("        for i in reversed(range(len(self._s))):")
        c = s.index("        return tuple(vals)")
        return s[:a] + s[b:c] + s[a:b] + s[c:]
    if old == 'SWAPCHECKS':
        a = s.index("        if not self._solvable:")
        b = s.index("        if len(v) != self.varargs:")
        c = s.index("        v = list(v)")
        return s[:a] + s[b:c] + s[a:b] + s[c:]
    if old == 'SWAPMSGS':
        return s.replace('"Has no solution"', '"@@"').replace('"Expected {} values, got {}"', '"Has no solution"') \
                .replace('"@@"', '"Expected {} values, got {}"')
    if old == 'RENAME':
        a = s.index('def find_pivot_row'); b = s.index('def gaussian_elimination')
        return s[:a] + s[a:b].replace('candidates', 'cands') + s[b:]
    assert s.count(old) == 1, (name, s.count(old))
    return s.replace(old, new, 1)


def thm_of(module, ln):
    src = open(os.path.join(VERIF, 'lean', 'G3D', 'Proofs', module + '.lean')).read().split('\n')
    for i in range(int(ln) - 1, -1, -1):
        m = re.match(r'(?:@\[[^\]]*\] )?(?:theorem|def|example) (\S+)', src[i])
        if m:
            return m.group(1)
    return '?'


def extract(repo):
    return run(['/venv/bin/python', '-B', os.path.join(VERIF, 'tools', 'extract_solver.py'), repo])


def main():
    only = set(sys.argv[1:])
    snapshot()
    orig = extract(BASE).stdout
    rows, bad = [], []
    for name, old, new, expect in MUTS:
        mid = name.split()[0]
        if only and mid not in only:
            continue
        shutil.rmtree(DST); shutil.copytree(SRC, DST)
        if old is not None:
            p = os.path.join(DST, F); s = open(p).read()
            s2 = mutate(s, old, new, name)
            assert s2 != s, name
            open(p, 'w').write(s2)
            r = run(['/venv/bin/python', '-c', 'import ast,sys;ast.parse(open(sys.argv[1]).read())', p])
            assert r.returncode == 0, (name, r.stderr)
        ex = extract(ROOT)
        text = ex.stdout if ex.returncode == 0 else '-- extraction failed\n#exit_extraction_failed\n'
        markers = sorted(set(re.findall(r'def (s_\w+_EXTRACTION_FAILED)', text)))
        open(GEN, 'w').write(text)
        gen_builds = run(['lake', 'build', 'G3D.Extracted.Solver'], cwd=os.path.join(VERIF, 'lean')).returncode == 0
        broken, failed = [], []
        for mod in MODULES:
            b = run(['lake', 'build', 'G3D.Proofs.' + mod], cwd=os.path.join(VERIF, 'lean'))
            if b.returncode != 0:
                broken.append(mod)
                errs = re.findall(r'^error: G3D/Proofs/(\w+)\.lean:(\d+):\d+:', b.stdout + b.stderr, re.M)
                failed += [t for t in dict.fromkeys(thm_of(m, ln) for m, ln in errs if m in MODULES) if t not in failed]
                break      # SolverTie imports SolverTieGauss
        verdict = ('marker' if markers else 'tie') if broken else 'green'
        if broken and not gen_builds:
            verdict = 'generated file does not compile'
        row = dict(mutation=name, extractor_exit=ex.returncode, changed=(text != orig), markers=markers,
                   stderr=[l for l in ex.stderr.strip().split('\n') if l][:3], generated_compiles=gen_builds,
                   broken_modules=broken, failing_theorems=failed[:8], verdict=verdict, expected=expect)
        rows.append(row); print(json.dumps(row), flush=True)
        if verdict != expect:
            bad.append((mid, verdict, expect))
    # restore
    ex = extract(REPO)
    open(GEN, 'w').write(ex.stdout)
    b = run(['lake', 'build', 'G3D.Proofs.SolverTie'], cwd=os.path.join(VERIF, 'lean'))
    print('regenerated from', REPO, '- build rc', b.returncode)
    shutil.rmtree(ROOT, ignore_errors=True)
    json.dump(rows, open('/tmp/vs_selftest_solver_rows.json', 'w'), indent=1)
    print('| mutation | generated changed | markers | first failing tie theorems | verdict |')
    print('|---|---|---|---|---|')
    for r in rows:
        print('| %s | %s | %s | %s | %s |' % (r['mutation'], 'yes' if r['changed'] else 'no',
              ', '.join(m[2:-len('_EXTRACTION_FAILED')] for m in r['markers']) or '-',
              ', '.join(r['failing_theorems'][:4]) or '-', r['verdict']))
    print('SELFTEST', 'FAILED' if bad or b.returncode else 'ok', bad)
    sys.exit(1 if bad or b.returncode else 0)


if __name__ == '__main__':
    main()
