#!/venv/bin/python
"""Self-test of the `__hash__` translator (tools/extract_khash.py, engine tools/khash_engine.py) and of the tie modules
lean/G3D/Proofs/KTieKhash*.lean: small mutations of the `__hash__` bodies on a COPY of the library (/tmp/khash_mut, deleted
at the end).  For every mutation the extractor is re-run on the copy, lean/G3D/Extracted/Khash.lean is rewritten, the tie
modules are rebuilt, and the table says whether the extraction failed closed (marker `impl_<kernel>_EXTRACTION_FAILED`) and
which tie theorems stopped compiling.  A behaviour-changing mutation must produce a marker or break a tie theorem; the
harmless rewrites (renamed local, reordered independent statements, added comment) must leave everything green.
usage: selftest_khash.py [ids ...]     (writes only to /tmp/khash_mut and to lean/G3D/Extracted/Khash.lean of THIS tree, which
is regenerated from ${G3D_SRC:-/repo} at the end)"""
import subprocess, shutil, os, sys, re, json, time
VERIF = os.path.dirname(os.path.dirname(os.path.abspath(__file__)))
REPO = os.environ.get('G3D_SRC', '/repo')
ROOT = '/tmp/khash_mut'
DST = os.path.join(ROOT, 'Geometry3D')
LEAN = os.path.join(VERIF, 'lean')
GEN = os.path.join(LEAN, 'G3D', 'Extracted', 'Khash.lean')
MODULES = ['KTieKhashPoint', 'KTieKhashPlane', 'KTieKhashLine', 'KTieKhashSegment', 'KTieKhashHalfLine', 'KTieKhashPolygon',
           'KTieKhashPolygonEq', 'KTieKhashPolyhedron', 'KTieKhashPolyhedronEq', 'KTieKhashCtor']

PLANE_LOOP = """        for c in n:
            if abs(c) > get_eps():
                if c < 0:
                    n = -n
                    d = -d
                break
"""
LINE_LOOP = """        for c in d:
            if abs(c) > get_eps():
                if c < 0:
                    d = -d
                break
"""
POLYGON_HASH = """        return hash(
            (
                "ConvexPolygon",
                round(self._get_point_hash_sum(), get_sig_figures()),
                hash(self.plane) + hash(-self.plane),
                hash(self.plane) * hash(-self.plane),
            )
        )
"""
PLANE_RETURN = """        return hash(
            (
                "Plane",
                round(n[0], sig),
                round(n[1], sig),
                round(n[2], sig),
                round(d, sig),
            )
        )
"""
POLYGON_MEMO = """        if getattr(self, "_hash", None) is None:
            self._hash = hash(
                (
                    "ConvexPolygon",
                    round(self._get_point_hash_sum(), get_sig_figures()),
                    hash(self.plane) + hash(-self.plane),
                    hash(self.plane) * hash(-self.plane),
                )
            )
        return self._hash
"""
PLANE_MEMO = """        if not hasattr(self, "_hash"):
            self._hash = hash(
                (
                    "Plane",
                    round(n[0], sig),
                    round(n[1], sig),
                    round(n[2], sig),
                    round(d, sig),
                )
            )
        return self._hash
"""

# (id + description, file, old text, new text, expectation: 'marker' | 'tie' | 'green')
MUTS = [
 ('M0 control: no change', None, None, None, 'green'),
 ('M1 Point: y coordinate not rounded', 'geometry/point.py',
  "                round(self.y, get_sig_figures()),\n", "                self.y,\n", 'tie'),
 ('M2 Point: product term y*z dropped', 'geometry/point.py',
  "                round(self.y, get_sig_figures()) * round(self.z, get_sig_figures()),\n", "", 'tie'),
 ('M3 Point: tag "Point" -> "Pt"', 'geometry/point.py', '                "Point",\n', '                "Pt",\n', 'tie'),
 ('M4 ConvexPolygon: hash(-self.plane) dropped from the sum', 'geometry/polygon.py',
  "                hash(self.plane) + hash(-self.plane),\n", "                hash(self.plane),\n", 'tie'),
 ('M5 Plane: sign canonicalisation loop removed', 'geometry/plane.py', PLANE_LOOP, "", 'tie'),
 ('M6 Line: sign canonicalisation loop removed', 'geometry/line.py', LINE_LOOP, "", 'tie'),
 ('M7 ConvexPolyhedron: vertex hash sum dropped', 'geometry/polyhedron.py',
  "                round(self._get_point_hash_sum(), get_sig_figures()),\n", "", 'tie'),
 ('M8 ConvexPolygon: hash memoised in self._hash', 'geometry/polygon.py', POLYGON_HASH, POLYGON_MEMO, 'marker'),
 ('M9 Plane: hash memoised in self._hash', 'geometry/plane.py', PLANE_RETURN, PLANE_MEMO, 'marker'),
 ('M10 Plane: loop compares with the frozen FLOAT_EPS instead of get_eps()', 'geometry/plane.py',
  "        for c in n:\n            if abs(c) > get_eps():", "        for c in n:\n            if abs(c) > FLOAT_EPS:", 'marker'),
 ('M11 Line: rounds to the frozen SIG_FIGURES instead of get_sig_figures()', 'geometry/line.py',
  "        sig = get_sig_figures()\n        return hash(\n            (\n                \"Line\",",
  "        sig = SIG_FIGURES\n        return hash(\n            (\n                \"Line\",", 'marker'),
 ('M12 Segment: product hash(a)*hash(b) -> hash(a)*hash(a)', 'geometry/segment.py',
  "hash(self.start_point) * hash(self.end_point)", "hash(self.start_point) * hash(self.start_point)", 'tie'),
 ('M13 Plane: `if c < 0` -> `if c < -get_eps()`', 'geometry/plane.py',
  "                if c < 0:\n                    n = -n", "                if c < -get_eps():\n                    n = -n", 'tie'),
 ('M14 Line: flips at the first component < -eps instead of the first significant one', 'geometry/line.py', LINE_LOOP,
  "        for c in d:\n            if c < -get_eps():\n                d = -d\n                break\n", 'tie'),
 ('M15 HalfLine: direction hashed without normalisation', 'geometry/halfline.py',
  "hash(self.point) + hash(self.vector.normalized())", "hash(self.point) + hash(self.vector)", 'tie'),
 ('M16 Plane: offset d not flipped together with n', 'geometry/plane.py',
  "                    n = -n\n                    d = -d\n", "                    n = -n\n", 'tie'),
 ('M17 Line: foot point uses the raw direction instead of the unit direction', 'geometry/line.py',
  "foot = self.sv - (self.sv * d) * d", "foot = self.sv - (self.sv * self.dv) * self.dv", 'tie'),
 ('M18 ConvexPolyhedron: face hashes multiplied instead of summed', 'geometry/polyhedron.py',
  "        hash_sum = 0\n        for polygon in self.convex_polygons:\n            hash_sum += hash(polygon)",
  "        hash_sum = 1\n        for polygon in self.convex_polygons:\n            hash_sum *= hash(polygon)", 'tie'),
 ('M19 Vector: z coordinate dropped from the tuple', 'utils/vector.py',
  "                round(self._v[2], get_sig_figures()),\n", "", 'tie'),
 ('M20 ConvexPolygon: point sum rounded with builtin round(x) (no digits)', 'geometry/polygon.py',
  "                round(self._get_point_hash_sum(), get_sig_figures()),\n                hash(self.plane)",
  "                round(self._get_point_hash_sum()),\n                hash(self.plane)", 'marker'),
 ('M21 ConvexPolygon.hash_with_normal: point sum rounded to get_sig_figures() - 4 instead of - 5 digits', 'geometry/polygon.py',
  "round(self._get_point_hash_sum(), get_sig_figures() - 5)", "round(self._get_point_hash_sum(), get_sig_figures() - 4)", 'tie'),
 ('M22 Point: x rounded to get_sig_figures() - 1 digits', 'geometry/point.py',
  "                round(self.x, get_sig_figures()),\n", "                round(self.x, get_sig_figures() - 1),\n", 'tie'),
 ('H1 harmless: Line local `foot` renamed `fp`', 'geometry/line.py', 'RENAME_FOOT', None, 'green'),
 ('H2 harmless: Line, independent statements `foot = ..` / `sig = ..` reordered', 'geometry/line.py',
  "        foot = self.sv - (self.sv * d) * d\n        sig = get_sig_figures()\n",
  "        sig = get_sig_figures()\n        foot = self.sv - (self.sv * d) * d\n", 'green'),
 ('H3 harmless: comment added in Plane.__hash__', 'geometry/plane.py',
  "        n = self.n\n        d = self.n * self.p.pv()\n", "        n = self.n\n        # offset of the plane\n        d = self.n * self.p.pv()\n", 'green'),
 ('H4 harmless: ConvexPolygon._get_point_hash_sum loop variable renamed', 'geometry/polygon.py',
  "        for point in self.points:\n            hash_sum += hash(point)", "        for pt in self.points:\n            hash_sum += hash(pt)", 'green'),
 ('H5 harmless: Plane local `sig` renamed `digits`', 'geometry/plane.py', 'RENAME_SIG', None, 'green'),
 ('H6 harmless: Plane offset written `self.p.pv() * self.n` (commuted dot product; same float)', 'geometry/plane.py',
  "        n = self.n\n        d = self.n * self.p.pv()\n", "        n = self.n\n        d = self.p.pv() * self.n\n", 'green'),
 ('H7 harmless: Point product written round(y)*round(x) (commuted; same float)', 'geometry/point.py',
  "                round(self.x, get_sig_figures()) * round(self.y, get_sig_figures()),\n",
  "                round(self.y, get_sig_figures()) * round(self.x, get_sig_figures()),\n", 'green'),
 ('H8 harmless: Segment sum written hash(b) + hash(a) (commuted; same int)', 'geometry/segment.py',
  "hash(self.start_point) + hash(self.end_point)", "hash(self.end_point) + hash(self.start_point)", 'green'),
 ('H9 harmless: ConvexPolygon plane hash bound to a local before use', 'geometry/polygon.py', POLYGON_HASH,
  "        hp = hash(self.plane)\n" + POLYGON_HASH.replace("hash(self.plane) + hash(-self.plane)", "hp + hash(-self.plane)"), 'green'),
]


def run(cmd, **kw):
    return subprocess.run(cmd, capture_output=True, text=True, **kw)


def fresh_copy():
    shutil.rmtree(ROOT, ignore_errors=True)
    os.makedirs(ROOT)
    shutil.copytree(os.path.join(REPO, 'Geometry3D'), DST, ignore=shutil.ignore_patterns('__pycache__'))


def mutate(s, old, new, name):
    if old == 'RENAME_FOOT':
        a = s.index('    def __hash__(self):'); b = s.index('    def move(self, v):')
        assert s[a:b].count('foot') == 4, s[a:b].count('foot')
        return s[:a] + s[a:b].replace('foot', 'fp') + s[b:]
    if old == 'RENAME_SIG':
        a = s.index('    def __hash__(self):'); b = s.index('    def move(self, v):')
        body = s[a:b].replace('sig = get_sig_figures()', 'digits = get_sig_figures()').replace(', sig)', ', digits)')
        assert body != s[a:b] and ' sig' not in body.replace('get_sig_figures', '').replace('significant', '')
        return s[:a] + body + s[b:]
    assert s.count(old) == 1, (name, s.count(old))
    return s.replace(old, new, 1)


DECL = re.compile(r'(?:noncomputable )?(?:theorem|def|example|structure) (\S+)')
IMPORTS = {'KTieKhashSegment': ['KTieKhashPoint'], 'KTieKhashHalfLine': ['KTieKhashPoint'],
           'KTieKhashPolygonEq': ['KTieKhashPolygon', 'KTieKhashPlane', 'KTieKhashPoint'], 'KTieKhashPolyhedronEq': ['KTieKhashPolyhedron', 'KTieKhashPolygonEq'],
           'KTieKhashCtor': ['KTieKhashPlane', 'KTieKhashHalfLine']}


def thm_of(module, ln):
    """name of the declaration an error position belongs to (an error reported at the doc comment belongs to the declaration after it)"""
    src = open(os.path.join(LEAN, 'G3D', 'Proofs', module + '.lean')).read().split('\n')
    i = min(int(ln), len(src)) - 1
    if src[i].lstrip().startswith('/--'):
        for j in range(i, len(src)):
            m = DECL.match(src[j])
            if m:
                return m.group(1)
    for j in range(i, -1, -1):
        m = DECL.match(src[j])
        if m:
            return m.group(1)
    return '?'


def extract(root):
    return run(['/venv/bin/python', '-B', os.path.join(VERIF, 'tools', 'extract_khash.py'), root])


def build():
    """-> (generated file compiles, {module: [failing theorems]}, modules failing only through an import)"""
    gen = run(['lake', 'build', 'G3D.Extracted.Khash'], cwd=LEAN).returncode == 0
    b = run(['lake', 'build'] + ['G3D.Proofs.' + m for m in MODULES], cwd=LEAN)
    out = b.stdout + b.stderr
    own = {}
    for m, ln in re.findall(r'^error: G3D/Proofs/(\w+)\.lean:(\d+):\d+:', out, re.M):
        if m in MODULES:
            t = thm_of(m, ln)
            own.setdefault(m, [])
            if t not in own[m]:
                own[m].append(t)
    dep = []
    changed = True
    while changed:       # modules that cannot build because a tie module they import does not
        changed = False
        for m, imps in IMPORTS.items():
            if m not in own and m not in dep and any(i in own or i in dep for i in imps):
                dep.append(m)
                changed = True
    return gen, own, dep, b.returncode


def main():
    only = set(sys.argv[1:])
    fresh_copy()
    orig = extract(ROOT).stdout
    rows, bad = [], []
    for name, f, old, new, expect in MUTS:
        mid = name.split()[0]
        if only and mid not in only:
            continue
        t0 = time.time()
        fresh_copy()
        if f is not None:
            p = os.path.join(DST, f)
            s = open(p).read()
            s2 = mutate(s, old, new, name)
            assert s2 != s, name
            open(p, 'w').write(s2)
            r = run(['/venv/bin/python', '-B', '-c', 'import ast,sys;ast.parse(open(sys.argv[1]).read())', p])
            assert r.returncode == 0, (name, r.stderr)
        ex = extract(ROOT)
        text = ex.stdout if ex.returncode == 0 else '-- extraction failed as a whole\n#exit_extraction_failed\n'
        markers = sorted(set(re.findall(r'def impl_(\w+)_EXTRACTION_FAILED', text)))
        reasons = re.findall(r'_EXTRACTION_FAILED : String := "([^"]*)"', text)
        open(GEN, 'w').write(text)
        gen, own, dep_only, rc = build()
        broken = sorted(own) + dep_only
        verdict = ('marker' if markers else 'tie') if (broken or rc) else 'green'
        if not gen:
            verdict = 'GENERATED FILE DOES NOT COMPILE'
        row = dict(mutation=name, extractor_exit=ex.returncode, changed=(text != orig), markers=markers,
                   reason=(reasons[0][:110] if reasons else ''), generated_compiles=gen, broken_modules=sorted(own), broken_through_import=dep_only,
                   failing_theorems={m: ts[:6] for m, ts in own.items()}, verdict=verdict, expected=expect,
                   seconds=round(time.time() - t0, 1))
        rows.append(row)
        print(json.dumps(row), flush=True)
        if verdict != expect:
            bad.append((mid, verdict, expect))
    # restore the generated file from the real tree, clean up
    ex = extract(REPO)
    open(GEN, 'w').write(ex.stdout)
    gen, own, dep_only, rc = build()
    print('regenerated from', REPO, '- build rc', rc)
    shutil.rmtree(ROOT, ignore_errors=True)
    json.dump(rows, open(os.path.join(VERIF, 'out', 'selftest_khash_rows.json') if os.path.isdir(os.path.join(VERIF, 'out'))
                         else '/tmp/selftest_khash_rows.json', 'w'), indent=1)
    print('| mutation | generated changed | withheld kernels (marker) | modules that stop building (through an import) | first failing tie theorems | verdict | expected | s |')
    print('|---|---|---|---|---|---|---|---|')
    for r in rows:
        first = []
        for m, ts in r['failing_theorems'].items():
            first += ts[:2]
        print('| %s | %s | %s | %s | %s | %s | %s | %s |' % (
            r['mutation'], 'yes' if r['changed'] else 'no', ', '.join(r['markers']) or '-',
            ', '.join([m[len('KTieKhash'):] for m in r['broken_modules']] + ['(%s)' % m[len('KTieKhash'):] for m in r['broken_through_import']]) or '-',
            ', '.join(first[:5]) or '-',
            r['verdict'], r['expected'], r['seconds']))
    print('SELFTEST', 'FAILED' if bad or rc else 'ok', bad)
    sys.exit(1 if bad or rc else 0)


if __name__ == '__main__':
    main()
