#!/venv/bin/python
"""Self-test of the builder translator (tools/extract_builders.py) and of G3D/Proofs/BuildersTie.lean: small mutations of
the shape builders on a SNAPSHOT copy of the library.  Every behaviour-changing mutation must change the generated
term so that a tie theorem stops compiling (`fail`), or make the translator emit the failure marker
`b_<name>_EXTRACTION_FAILED` (`marker`, which breaks the ties of that builder and of its callers as well); the
semantics-preserving edits must leave the build green (`green`).
usage: [ONLY=M4,M24] selftest_builders.py      (writes only to /tmp/vb_repo — removed at the end — and to
lean/G3D/Extracted/Builders.lean, which is regenerated from ${G3D_SRC:-/repo} at the end)"""
import subprocess, shutil, os, sys, re, json
VERIF = os.path.dirname(os.path.dirname(os.path.abspath(__file__)))
REPO = os.environ.get('G3D_SRC', '/repo')
ROOT = '/tmp/vb_repo'
BASE = ROOT + '/base'; SRC = os.path.join(BASE, 'Geometry3D'); MUT = ROOT + '/mut'; DST = os.path.join(MUT, 'Geometry3D')
GEN = os.path.join(VERIF, 'lean', 'G3D', 'Extracted', 'Builders.lean')
TIE = os.path.join(VERIF, 'lean', 'G3D', 'Proofs', 'BuildersTie.lean')
P = 'geometry/polygon.py'; H = 'geometry/polyhedron.py'

shutil.rmtree(ROOT, ignore_errors=True); os.makedirs(BASE); os.makedirs(MUT)
_ar = subprocess.run('git -C %s archive HEAD Geometry3D | tar -x -C %s' % (REPO, BASE), shell=True, capture_output=True)
if _ar.returncode != 0 or not os.path.isdir(SRC):
    shutil.rmtree(SRC, ignore_errors=True); shutil.copytree(os.path.join(REPO, 'Geometry3D'), SRC)

# (id + description, file, old, new, expectation)
MUTS = [
 ('M0 control: no change', P, None, None, 'green'),
 ('M1 Sphere: `end = (i + 1) % n1` -> `end = i + 1`', H, "end = (i + 1) % n1", "end = i + 1", 'fail'),
 ('M2 Sphere: start/end swapped on the upper ring of the first equatorial quad', H,
  "(mc[start], mc[end], tc[0][end], tc[0][start])", "(mc[start], mc[end], tc[0][start], tc[0][end])", 'fail'),
 ('M3 Sphere: `tc[0]` -> `tc[1]` in the first equatorial quad', H,
  "(mc[start], mc[end], tc[0][end], tc[0][start])", "(mc[start], mc[end], tc[1][end], tc[1][start])", 'fail'),
 ('M4 Sphere: `range(1, n2 - 1)` -> `range(n2 - 1)`', H, "for j in range(1, n2 - 1):", "for j in range(n2 - 1):", 'fail'),
 ('M5 Sphere: top cap triangle built on `bc`', H,
  "(top_point, tc[n2 - 2][end], tc[n2 - 2][start])", "(top_point, bc[n2 - 2][end], bc[n2 - 2][start])", 'fail'),
 ('M6 Sphere: `math.pi / 2 / n2` -> `math.pi / n2`', H, "angle_i = math.pi / 2 / n2 * (i + 1)", "angle_i = math.pi / n2 * (i + 1)", 'fail'),
 ('M7 Sphere: ring radius `radius * cos` -> `radius * sin`', H, "r_i = radius * math.cos(angle_i)", "r_i = radius * math.sin(angle_i)", 'fail'),
 ('M8 Sphere: dropped `-` in the bottom ring height', H,
  "center=copy.deepcopy(center).move(-height_i * z_unit_vector())", "center=copy.deepcopy(center).move(height_i * z_unit_vector())", 'fail'),
 ('M9 get_circle_point_list: wrong frame axis (`else: base_vector = z_unit_vector()`)', P,
  "    else:\n        base_vector = x_unit_vector()", "    else:\n        base_vector = z_unit_vector()", 'marker'),
 ('M9b get_circle_point_list: the two base vectors exchanged (x first, y in the else branch)', P,
  "        base_vector = y_unit_vector()\n        angle_y", "        base_vector = x_unit_vector()\n        angle_y", 'fail'),
 ('M10 Parallelepiped: rectangle3 starts at a wrong corner (base_point instead of p_diag)', H,
  "rectangle3 = Parallelogram(p_diag, -v1, -v2)", "rectangle3 = Parallelogram(base_point, -v1, -v2)", 'fail'),
 ('M11 get_circle_point_list: `v2 = n.cross(v1)` -> `v1.cross(n)` (orientation)', P,
  "v2 = normal.normalized().cross(v1)", "v2 = v1.cross(normal.normalized())", 'fail'),
 ('M12 get_circle_point_list: angle `* i` -> `* (i + 1)`', P, "angle_i = math.pi * 2 / n * i", "angle_i = math.pi * 2 / n * (i + 1)", 'fail'),
 ('M13 get_circle_point_list: `n <= 2` -> `n <= 3`', P, "    if n <= 2:", "    if n <= 3:", 'fail'),
 ('M14 get_circle_point_list: anti-parallel test dropped (defect D8)', P,
  "if angle_x < SMALL_ANGLE or angle_x > math.pi - SMALL_ANGLE:", "if angle_x < SMALL_ANGLE:", 'fail'),
 ('M15 Cylinder: `[top_circle, bottom_circle]` -> `[bottom_circle, top_circle]`', H,
  "cpg_list = [top_circle, bottom_circle]", "cpg_list = [bottom_circle, top_circle]", 'fail'),
 ('M16 Cylinder: bottom start/end swapped in the side quad', H,
  "                        bottom_circle_point_list[end],\n                        bottom_circle_point_list[start],",
  "                        bottom_circle_point_list[start],\n                        bottom_circle_point_list[end],", 'fail'),
 ('M17 Cone: side triangle (top, c[end], c[start])', H,
  "(top_point, circle_point_list[start], circle_point_list[end])", "(top_point, circle_point_list[end], circle_point_list[start])", 'fail'),
 ('M18 Cone: `copy.deepcopy` dropped (the centre Point itself is moved)', H,
  "        top_point = copy.deepcopy(circle_center).move(height_vector)\n        # print(top_point)\n        circle = Circle(",
  "        top_point = circle_center.move(height_vector)\n        # print(top_point)\n        circle = Circle(", 'marker'),
 ('M19 Parallelogram: fourth corner `p + v2` instead of `p + v1 + v2`', P,
  "copy.deepcopy(base_point).move(v1).move(v2),", "copy.deepcopy(base_point).move(v2),", 'fail'),
 ('M20 Parallelogram: `v1.parallel(v2)` -> `v1.orthogonal(v2)` (unknown method)', P,
  "elif v1.parallel(v2):", "elif v1.orthogonal(v2):", 'marker'),
 ('M21 Sphere: top pole at `-radius`', H,
  "top_point = copy.deepcopy(center).move(radius * z_unit_vector())", "top_point = copy.deepcopy(center).move(-radius * z_unit_vector())", 'fail'),
 ('M22 Cylinder: bottom cap `Circle(normal=-height_vector)` (seeded change C14a)', H,
  "bottom_circle = Circle(\n            center=circle_center, normal=height_vector, radius=radius, n=n\n        )",
  "bottom_circle = Circle(\n            center=circle_center, normal=-height_vector, radius=radius, n=n\n        )", 'fail'),
 ('M23 get_circle_point_list: loop rewritten as a list comprehension (unknown construct)', P,
  "    point_list = []\n    for i in range(n):\n        angle_i = math.pi * 2 / n * i\n        point_list.append(\n            copy.deepcopy(center).move(v1 * math.cos(angle_i) + v2 * math.sin(angle_i))\n        )\n    return point_list",
  "    return [copy.deepcopy(center).move(v1 * math.cos(math.pi * 2 / n * i) + v2 * math.sin(math.pi * 2 / n * i)) for i in range(n)]", 'marker'),
 ('M24 Sphere: bottom rings appended to `tc` (one accumulator instead of two)', H,
  "            bc.append(\n                get_circle_point_list(\n                    center=copy.deepcopy(center).move(-height_i",
  "            tc.append(\n                get_circle_point_list(\n                    center=copy.deepcopy(center).move(-height_i", 'marker'),
 ('M25 Sphere: `range(n2 - 1)` -> `range(n2)` rings', H, "for i in range(n2 - 1):", "for i in range(n2):", 'fail'),
 ('M26 Parallelepiped: `-v3` -> `v3` in rectangle4', H,
  "rectangle4 = Parallelogram(p_diag, -v2, -v3)", "rectangle4 = Parallelogram(p_diag, -v2, v3)", 'fail'),
 ('M27 get_circle_point_list: `v1 * radius` scaling dropped', P, "    v1 = v1 * radius\n", "", 'fail'),
 ('M28 semantics-preserving: local `point_list` renamed to `pts` (get_circle_point_list)', P, 'RENAME', None, 'green'),
 ('M29 semantics-preserving: keyword arguments of a get_circle_point_list call reordered (Cone)', H,
  "circle_point_list = get_circle_point_list(\n            center=circle_center, normal=height_vector, radius=radius, n=n\n        )\n        cpg_list = [circle]",
  "circle_point_list = get_circle_point_list(\n            n=n, radius=radius, normal=height_vector, center=circle_center\n        )\n        cpg_list = [circle]", 'green'),
]


def run(cmd, **kw):
    return subprocess.run(cmd, capture_output=True, text=True, **kw)


def extract(repo):
    return run(['/venv/bin/python', '-B', os.path.join(VERIF, 'tools', 'extract_builders.py'), repo])


def thm_of(ln):
    src = open(TIE).read().split('\n')
    m = re.match(r'#print axioms (\S+)', src[int(ln) - 1])
    if m:
        return m.group(1)
    for i in range(int(ln) - 1, -1, -1):
        m = re.match(r'(?:@\[[^\]]*\] )?(?:noncomputable )?(?:theorem|def) (\S+)', src[i])
        if m:
            return m.group(1)
    return '?'


ORIG = extract(BASE)
assert ORIG.returncode == 0 and not re.search(r'def b_\w+_EXTRACTION_FAILED', ORIG.stdout), ORIG.stderr
assert extract(BASE).stdout == ORIG.stdout, 'extractor output is not deterministic'
rows = []; bad = []
ONLY = set(os.environ.get('ONLY', '').split(',')) - {''}      # e.g. ONLY=M4,M24 runs a subset
for name, f, old, new, expect in MUTS:
    mid = name.split()[0]
    if ONLY and mid not in ONLY:
        continue
    shutil.rmtree(DST, ignore_errors=True); shutil.copytree(SRC, DST)
    if old is not None:
        p = os.path.join(DST, f); s = open(p).read()
        if old == 'RENAME':
            a = s.index('def get_circle_point_list'); b = s.index('def get_triangle_area')
            s2 = s[:a] + s[a:b].replace('point_list', 'pts').replace('get_circle_pts', 'get_circle_point_list') + s[b:]
        else:
            assert s.count(old) == 1, (name, s.count(old))
            s2 = s.replace(old, new, 1)
        assert s2 != s, name
        open(p, 'w').write(s2)
        r = run(['/venv/bin/python', '-c', 'import ast,sys;ast.parse(open(sys.argv[1]).read())', p]); assert r.returncode == 0, (name, r.stderr)
    ex = extract(MUT)
    text = ex.stdout if ex.returncode == 0 else '-- extraction failed\n#exit_extraction_failed\n'
    markers = re.findall(r'def b_(\w+)_EXTRACTION_FAILED', text)
    changed = text != ORIG.stdout
    open(GEN, 'w').write(text)
    b = run(['lake', 'build', 'G3D.Proofs.BuildersTie'], cwd=os.path.join(VERIF, 'lean'))
    thms = []
    if b.returncode != 0:
        errs = re.findall(r'^error: G3D/Proofs/BuildersTie\.lean:(\d+):\d+:', b.stdout + b.stderr, re.M)
        thms = sorted({thm_of(ln) for ln in errs}) or ['(the generated file does not compile)']
    got = 'green' if b.returncode == 0 else ('marker' if markers else 'fail')
    row = dict(mutation=name, extractor_exit=ex.returncode, stderr=ex.stderr.strip().split('\n')[-1] if ex.stderr.strip() else '',
               term_changed=changed, markers=markers, result=got, expected=expect, failing_theorems=thms)
    rows.append(row); print(json.dumps(row, ensure_ascii=False), flush=True)
    if got != expect:
        bad.append((mid, got, expect))
    if expect == 'green' and mid == 'M0' and changed:
        bad.append((mid, 'output changed without a change'))
# restore from the real tree
ex = extract(REPO)
open(GEN, 'w').write(ex.stdout)
b = run(['lake', 'build', 'G3D.Proofs.BuildersTie'], cwd=os.path.join(VERIF, 'lean'))
print('regenerated from', REPO, '- build rc', b.returncode)
shutil.rmtree(ROOT, ignore_errors=True)
json.dump(rows, open('/tmp/vb_selftest_rows.json', 'w'), indent=1, ensure_ascii=False)
print('| mutation | extractor | term changed | result | failing ties |')
print('|---|---|---|---|---|')
for r in rows:
    what = 'marker ' + ','.join(r['markers']) if r['markers'] else 'exit %d' % r['extractor_exit']
    print('| %s | %s | %s | %s | %s |' % (r['mutation'], what, 'yes' if r['term_changed'] else 'no', r['result'],
                                         ', '.join(r['failing_theorems']) or '—'))
print('SELFTEST', 'FAILED' if bad or b.returncode else 'ok', bad)
sys.exit(1 if bad or b.returncode else 0)
