#!/venv/bin/python
"""Translator T6, group `mflat`: method bodies -> lean/G3D/Extracted/Mflat.lean  (engine and documentation: tools/mextract.py)
usage: extract_mflat.py <repo>      (Lean source on stdout)"""
import os, sys
sys.dont_write_bytecode = True
sys.path.insert(0, os.path.dirname(os.path.abspath(__file__)))
import mextract
mextract.main('mflat', sys.argv)
