#!/venv/bin/python
"""Translator T5, group `hbody`: handler bodies -> lean/G3D/Extracted/Hbody.lean  (engine and documentation: tools/hextract.py)
usage: extract_hbody.py <repo>      (Lean source on stdout)"""
import os, sys
sys.dont_write_bytecode = True
sys.path.insert(0, os.path.dirname(os.path.abspath(__file__)))
import hextract
hextract.main('hbody', sys.argv)
