#!/venv/bin/python
"""Translator T3 (real part): same engine as extract_kernels.py, emits the kernels whose terms contain sqrt / |.|
as noncomputable definitions over the reals (lean/G3D/Extracted/Kernelsr.lean).
usage: extract_kernelsr.py <repo>      (Lean source on stdout; any exception = extraction failure)"""
import sys, os
sys.dont_write_bytecode = True
sys.path.insert(0, os.path.dirname(os.path.abspath(__file__)))
import extract_kernels
extract_kernels.main(sys.argv[1], True)
