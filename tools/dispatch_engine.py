"""Engine of translator T1: the isinstance dispatch chains of Geometry3D/calc/*.py -> Lean tables.
Used by tools/extract_dispatch.py (intersection), extract_dispdist.py (distance), extract_dispangle.py (angle, parallel,
orthogonal) and extract_dispvol.py (volume): one generated file per chain family, so that a change of one chain breaks
only the proof obligations stated over it.  Fails closed on unknown syntax.

First-match semantics over disjoint classes is modelled exactly: a branch applies to the type pair
(A, B) iff every conjunct isinstance(var, Cls) holds with var bound to A / B (a conjunct on the
wrong variable makes a branch dead).  Emitted per function: the cell reached by each ordered pair
of the nine operand classes (seven geometry types + Vector + Pyramid)."""
import ast, sys, os
repo = None
TYPES = ['Point', 'Line', 'Plane', 'Segment', 'HalfLine', 'ConvexPolygon', 'ConvexPolyhedron', 'Vector', 'Pyramid']
LEAN_TY = {'Point': 'point', 'Line': 'line', 'Plane': 'plane', 'Segment': 'seg', 'HalfLine': 'halfline',
           'ConvexPolygon': 'polygon', 'ConvexPolyhedron': 'polyhedron', 'Vector': 'vector', 'Pyramid': 'pyramid'}
HANDLERS = ['inter_point_point', 'inter_point_line', 'inter_point_plane', 'inter_point_segment', 'inter_point_halfline',
            'inter_point_convexpolygon', 'inter_point_convexpolyhedron', 'inter_line_line', 'inter_line_plane',
            'inter_line_segment', 'inter_line_halfline', 'inter_line_convexpolygon', 'inter_line_convexpolyhedron',
            'inter_plane_plane', 'inter_plane_segment', 'inter_plane_halfline', 'inter_plane_convexpolygon',
            'inter_plane_convexpolyhedron', 'inter_segment_segment', 'inter_segment_halfline',
            'inter_segment_convexpolygon', 'inter_segment_convexpolyhedron', 'inter_halfline_halfline',
            'inter_convexpolygon_halfline', 'inter_convexpolyhedron_halfline', 'inter_convexpolygon_convexpolygon',
            'inter_convexpolygon_convexPolyhedron', 'inter_convexpolyhedron_convexpolyhedron']


def chain(fn):
    node = next(n for n in fn.body if isinstance(n, ast.If))
    out = []
    while True:
        out.append((node.test, node.body))
        if len(node.orelse) == 1 and isinstance(node.orelse[0], ast.If):
            node = node.orelse[0]
        else:
            out.append((None, node.orelse))
            break
    return out


def isinstance_conj(test):
    items = test.values if isinstance(test, ast.BoolOp) and isinstance(test.op, ast.And) else [test]
    res = []
    for it in items:
        if (isinstance(it, ast.Call) and getattr(it.func, 'id', None) == 'isinstance' and len(it.args) == 2
                and isinstance(it.args[0], ast.Name) and isinstance(it.args[1], ast.Name)):
            res.append((it.args[0].id, it.args[1].id))
        else:
            return None
    return res


def action(body, fname, params):
    if not body:
        return ('fallthrough',)
    last = body[-1]
    if isinstance(last, ast.Return):
        v = last.value
        if v is None or (isinstance(v, ast.Constant) and v.value is None):
            return ('retNone',)
        if isinstance(v, ast.Call) and isinstance(v.func, ast.Name):
            args = [ast.unparse(a) for a in v.args]
            if len(body) == 1 and v.func.id == fname and args == list(reversed(params)):
                return ('swap',)
            if len(body) == 1 and args in (params, list(reversed(params))):
                return ('call', v.func.id, args == list(reversed(params)))
            # returning a freshly constructed exception instead of raising it
            if v.func.id.endswith('Error') or v.func.id.endswith('Exception'):
                return ('retExc', v.func.id)
        return ('compute',)
    if isinstance(last, ast.Raise):
        exc = last.exc
        name = exc.func.id if isinstance(exc, ast.Call) and isinstance(exc.func, ast.Name) else getattr(exc, 'id', 'unknown')
        return ('raise', name)
    return ('fallthrough',)


def extract(path, fname):
    mod = ast.parse(open(os.path.join(repo, path)).read())
    fn = next(n for n in mod.body if isinstance(n, ast.FunctionDef) and n.name == fname)
    params = [a.arg for a in fn.args.args]
    branches = []
    for test, body in chain(fn):
        if test is None:
            branches.append(('else', action(body, fname, params)))
            continue
        c = isinstance_conj(test)
        if c is None:
            branches.append(('guard', ast.unparse(test), action(body, fname, params)))
        else:
            branches.append(('types', c, action(body, fname, params)))
    return params, branches


def cell(branches, params, tys):
    env = dict(zip(params, tys))
    for b in branches:
        if b[0] == 'types':
            if all(env.get(v) == cls for v, cls in b[1]):
                return b[2]
        elif b[0] == 'else':
            return b[1]
    return ('fallthrough',)


def rhs(act):
    if act[0] == 'call':
        h = act[1]
        hn = ('.' + h) if h in HANDLERS else '(.unknown "%s")' % h
        return '.call %s %s' % (hn, 'true' if act[2] else 'false')
    if act[0] == 'swap':
        return '.swap'
    if act[0] == 'compute':
        return '.compute'
    if act[0] == 'raise':
        return '.raise "%s"' % act[1]
    if act[0] == 'retNone':
        return '.retNone'
    if act[0] == 'retExc':
        return '.retExc "%s"' % act[1]
    return '.fallthrough'


def header(tool, src):
    return ['import G3D.Model.Dispatch',
            '/-! GENERATED by tools/%s from %s — do not edit -/' % (tool, src), 'namespace G3D.Extracted', 'open G3D.Dispatch', '']


def table(out, name, branches, params):
    out.append('def %s : Ty → Ty → Cell' % name)
    for A in TYPES:
        for B in TYPES:
            out.append('  | .%s, .%s => %s' % (LEAN_TY[A], LEAN_TY[B], rhs(cell(branches, params, [A, B]))))
    out.append('')


def emit(which, r):
    """which: 'inter' | 'dist' | 'angle' | 'vol'"""
    global repo
    repo = r
    if which == 'inter':
        out = header('extract_dispatch.py', 'Geometry3D/calc/intersection.py')
        params, inter = extract('Geometry3D/calc/intersection.py', 'intersection')
        guards = [b for b in inter if b[0] == 'guard']
        first_is_none_guard = (inter[0][0] == 'guard' and inter[0][2] == ('retNone',)
                               and inter[0][1].replace(' ', '') in ('aisNoneorbisNone', 'bisNoneoraisNone'))
        out.append('/-- the chain starts with `if a is None or b is None: return None` -/')
        out.append('def interNoneGuard : Bool := %s' % ('true' if first_is_none_guard else 'false'))
        out.append('def interOtherGuards : Nat := %d' % (len(guards) - (1 if first_is_none_guard else 0)))
        out.append('')
        table(out, 'interCell', inter, params)
    elif which == 'dist':
        out = header('extract_dispdist.py', 'Geometry3D/calc/distance.py')
        p, br = extract('Geometry3D/calc/distance.py', 'distance')
        table(out, 'distanceCell', br, p)
    elif which == 'angle':
        out = header('extract_dispangle.py', 'Geometry3D/calc/angle.py')
        for fname in ('angle', 'parallel', 'orthogonal'):
            p, br = extract('Geometry3D/calc/angle.py', fname)
            table(out, fname + 'Cell', br, p)
    elif which == 'vol':
        out = header('extract_dispvol.py', 'Geometry3D/calc/volume.py')
        p, br = extract('Geometry3D/calc/volume.py', 'volume')
        out.append('def volumeCell : Ty → Cell')
        for A in TYPES:
            out.append('  | .%s => %s' % (LEAN_TY[A], rhs(cell(br, p, [A]))))
        out.append('')
    else:
        raise SystemExit('unknown chain family ' + which)
    out += ['end G3D.Extracted', '']
    sys.stdout.write('\n'.join(out))
