#!/venv/bin/python
"""Translator `mmeas`: the BODIES of the measure methods
        Segment.length                                   (geometry/segment.py)
        get_triangle_area, ConvexPolygon.area            (geometry/polygon.py)
        Pyramid.height, Pyramid.volume                   (geometry/pyramid.py)
        ConvexPolyhedron.area, .volume, .length          (geometry/polyhedron.py)
        volume(arg)                                      (calc/volume.py)
->  lean/G3D/Extracted/Mmeas.lean
usage: extract_mmeas.py <repo>       (Lean source on stdout)
(`ConvexPolygon.length` is translated by tools/mextract.py, group mpolygon, and is not repeated here.)

Every Python function becomes ONE typed, real-valued Lean definition `m_<Class>_<method>` / `m_<function>`, translated
statement by statement from the Python AST over the vocabulary of lean/G3D/Model/MeasRt.lean.  A function whose body
cannot raise is a pure term (`let` chain, loops as `List.foldl`); one that can raise (a `raise`, a call of a raising
function of the group, recursion) is a `do` block in `PyE = Except String` (loops as `List.foldlM`).  A function that
calls itself (`volume`) is emitted as `m_<f>_body (<f>_rec : .. → PyE ℝ)` plus the recursion `m_<f> : ℕ → ..` cut at a
depth `fuel` (`throw "RecursionError"` at 0, as Python does at its recursion limit).
lean/G3D/Proofs/MeasTie*.lean prove the definitions equal to the hand-written measure model (G3D/Model/Measure.lean).

Typing (Python is untyped; the table FUNCS fixes the reading of the parameters, ATTRS that of the attributes read,
everything else is inferred):
    Z int (ℤ)   R float (ℝ)   P Point, V Vector (both `RVec`)   L t  list / tuple / set of t
    Segment, Polygon, Plane, Pyramid, Polyhedron   records `MSegment` … of MeasRt.lean   Obj  `MObj` (class unknown)

  statement                                 Lean
  ----------------------------------------  ----------------------------------------------------------------------
  x = e                                     let x : T := ⟦e⟧        (a later assignment shadows; an int constant assigned to
                                            a variable that is the target of some `+=` in the function is read as a real)
  x += e          (numbers)                 let x : T := (x + ⟦e⟧)
  if c: A [elif/else: B]  (+ rest)          if ⟦c⟧ then ⟦A⟧ else ⟦B⟧   when no branch falls through / nothing follows;
                                            `if c: <raise/return>` + rest  →  if ⟦c⟧ then .. else ⟦rest⟧;
                                            otherwise  let (x, ..) := / ← if ⟦c⟧ then ⟦A⟧; (x, ..) else ⟦B⟧; (x, ..)   where x, .. are
                                            the variables assigned in every falling-through branch (or declared before)
  if isinstance(x, Pyramid|ConvexPolyhedron): A else: B     (x : Obj, nothing follows)
                                            match (MObj.asPyramid? x) with | some x => ⟦A⟧ (x narrowed) | none => ⟦B⟧
  for i in range(e): A                      let s := (pyRange ⟦e⟧).foldl (fun s i => ⟦A⟧; s') s       (foldlM + do when A can raise)
  for y in xs: A      (xs : L t)            let s := ⟦xs⟧.foldl (fun s (y : t) => ⟦A⟧; s') s
                                            s = the tuple of the variables declared before the loop and assigned in it;
                                            variables first assigned inside the loop are local to one iteration
  return e                                  ⟦e⟧ / pure ⟦e⟧            (not inside a loop)
  raise ValueError(..)                      throw "ValueError"
  docstring, pass                           dropped

  expression                                Lean
  ----------------------------------------  ----------------------------------------------------------------------
  3 (Z context) / 3 (R context)             3 / (3 : ℝ)               Z used as R: ((e : ℤ) : ℝ)
  a + b, a - b, a * b  (numbers)            the same on ℤ / ℝ         a / b : real division (true division of Python 3)
  -a, abs(a), math.sqrt(a)                  (-a), |a|, (Real.sqrt a)
  V * V, V * R, R * V, V + V, V - V, -V     RVec.dot, RVec.smul, RVec.add, RVec.sub, RVec.smul (-1)
  Vector(p, q)     (two Points)             (vecFromTo p q)
  p.distance(q), v.length(), v.normalized() (pointDistance p q), (vLength v), (vNormalized v)
  distance(p, pl)  (Point, Plane; volume.py) (distPointPlane p pl)
  x.attr           (table ATTRS)            x.attr    (the Lean records use the Python attribute names)
  len(xs), xs[i], xs[k:]                    (pyLen xs), (pyGetD xs i default), (xs.drop k)     (k a non-negative literal)
  a == b, !=, <, <=, >, >=; and, or, not    =, ≠, <, ≤, >, ≥; ∧, ∨, ¬     (numbers only)
  f(..), x.m(..)   f / m in the group       (m_.. args)   or   (← m_.. args)   when the callee can raise;
                                            an argument of a class type passed for an `Obj` parameter is injected
                                            (`MObj.pyramid x`, `MObj.polyhedron x`, anything else `MObj.other`)
  f(..) inside f itself                     (← f_rec ..)

Every global name the translation gives a meaning to (`math`, `Vector`, `distance`, `Pyramid`, `ConvexPolyhedron`,
`get_triangle_area`, `volume`) must be bound at module level of the function's file to the object assumed; builtins
(`abs`, `len`, `range`, `isinstance`, `ValueError`) must not be rebound there (also not through a `from m import *`,
whose exported names are read from the module m) or locally; none of the four classes may have a subclass in the five files.
Anything else is an error for THAT function: instead of its definition the file contains
    def m_<Class>_<method>_EXTRACTION_FAILED : String := "<function>: <what>"
(and likewise for every function that calls it); message on stderr, exit status 0.  Exit 1 only when a source file cannot
be read / parsed.  No line numbers in the output; the output depends on the five source files only."""
import ast, sys, os

SEGMENT = 'Geometry3D/geometry/segment.py'
POLYGON = 'Geometry3D/geometry/polygon.py'
PYRAMID = 'Geometry3D/geometry/pyramid.py'
POLYHEDRON = 'Geometry3D/geometry/polyhedron.py'
VOLUME = 'Geometry3D/calc/volume.py'
FILES = [SEGMENT, POLYGON, PYRAMID, POLYHEDRON, VOLUME]

# (file, Python class or None, function, parameter types in order, result type)
FUNCS = [
    (SEGMENT, 'Segment', 'length', [('self', 'Segment')], 'R'),
    (POLYGON, None, 'get_triangle_area', [('pa', 'P'), ('pb', 'P'), ('pc', 'P')], 'R'),
    (POLYGON, 'ConvexPolygon', 'area', [('self', 'Polygon')], 'R'),
    (PYRAMID, 'Pyramid', 'height', [('self', 'Pyramid')], 'R'),
    (PYRAMID, 'Pyramid', 'volume', [('self', 'Pyramid')], 'R'),
    (POLYHEDRON, 'ConvexPolyhedron', 'area', [('self', 'Polyhedron')], 'R'),
    (POLYHEDRON, 'ConvexPolyhedron', 'volume', [('self', 'Polyhedron')], 'R'),
    (POLYHEDRON, 'ConvexPolyhedron', 'length', [('self', 'Polyhedron')], 'R'),
    (VOLUME, None, 'volume', [('arg', 'Obj')], 'R'),
]


def key_of(cls, name):
    return (cls + '_' + name) if cls else name


SPEC = {key_of(f[1], f[2]): f for f in FUNCS}
# static type -> Python class
PYCLASS = {'Segment': 'Segment', 'Polygon': 'ConvexPolygon', 'Pyramid': 'Pyramid', 'Polyhedron': 'ConvexPolyhedron'}
CLASSES = ('Segment', 'Polygon', 'Plane', 'Pyramid', 'Polyhedron')
# attributes read: (static type, attribute) -> type.   The two sets are read as lists.
ATTRS = {
    ('Segment', 'start_point'): 'P', ('Segment', 'end_point'): 'P',
    ('Plane', 'p'): 'P', ('Plane', 'n'): 'V',
    ('Polygon', 'points'): ('L', 'P'), ('Polygon', 'center_point'): 'P', ('Polygon', 'plane'): 'Plane',
    ('Pyramid', 'convex_polygon'): 'Polygon', ('Pyramid', 'point'): 'P',
    ('Polyhedron', 'convex_polygons'): ('L', 'Polygon'), ('Polyhedron', 'pyramid_set'): ('L', 'Pyramid'),
    ('Polyhedron', 'segment_set'): ('L', 'Segment'),
}
# isinstance(x, <name>) on an Obj: name -> (expected module-level binding in calc/volume.py, narrowed type, runtime test)
NARROW = {'Pyramid': ('geometry.pyramid:Pyramid', 'Pyramid', 'MObj.asPyramid?'),
          'ConvexPolyhedron': ('geometry.polyhedron:ConvexPolyhedron', 'Polyhedron', 'MObj.asPolyhedron?')}
INJECT = {'Pyramid': 'MObj.pyramid', 'Polyhedron': 'MObj.polyhedron'}
BUILTINS = ('abs', 'len', 'range', 'isinstance', 'ValueError')
RESERVED = set('''at end from in then do open instance local show have fun let match with if else for return by where
    def theorem lemma example namespace section variable universe import export structure class inductive deriving
    extends mutual private protected partial unsafe noncomputable macro syntax notation infix infixl infixr prefix
    postfix attribute set_option using obtain calc suffices unless try catch finally throw break continue mut true
    false Type Prop Sort forall exists nomatch nofun this pure bind st fuel some none
    RVec Real List Nat Int Except PyE True False MPlane MSegment MPolygon MPyramid MPolyhedron MObj
    pyLen pyRange pyGetD pointDistance vecFromTo vLength vNormalized distPointPlane'''.split())


class Fail(Exception):
    pass


class NeedMonadic(Exception):
    """a raising construct was met while translating in pure mode: translate again in `do` mode"""


def lean_type(t):
    if t == 'Z':
        return 'ℤ'
    if t == 'R':
        return 'ℝ'
    if t in ('P', 'V'):
        return 'RVec'
    if t in CLASSES:
        return 'M' + t
    if t == 'Obj':
        return 'MObj'
    if isinstance(t, tuple) and t[0] == 'L':
        return 'List %s' % (lean_type(t[1]) if not isinstance(t[1], tuple) else '(%s)' % lean_type(t[1]))
    raise Fail('no Lean type for %r' % (t,))


def default_of(t):
    if t in ('P', 'V'):
        return 'RVec.zero'
    if t == 'Z':
        return '(0 : ℤ)'
    if t == 'R':
        return '(0 : ℝ)'
    if isinstance(t, tuple):
        return '[]'
    raise Fail('no default value for an element of type %r (indexing is supported for points and numbers only)' % (t,))


def mangle(n):
    if n in RESERVED or n.startswith('m_') or n.endswith('_rec'):
        return n + "'"
    return n


def tuple_expr(names):
    names = [mangle(n) for n in names]
    return names[0] if len(names) == 1 else '(' + ', '.join(names) + ')'


def tuple_type(types):
    ts = [lean_type(t) for t in types]
    return ts[0] if len(ts) == 1 else ' × '.join('(%s)' % t if ' ' in t else t for t in ts)


def proj(k, n):
    """projection k of an n-tuple (right-nested pairs)"""
    if n == 1:
        return ''
    return '.2' * k + ('.1' if k < n - 1 else '')


class Fn:
    def __init__(self, eng, key, node):
        self.eng, self.key, self.node = eng, key, node
        self.path, self.cls, self.name, self.params, self.ret = SPEC[key]
        self.calls = []
        self.recursive = False
        self.monadic = False
        self.loops = 0
        self.locals = set()
        for n in ast.walk(node):
            if isinstance(n, ast.Name) and isinstance(n.ctx, ast.Store):
                self.locals.add(n.id)
            if isinstance(n, (ast.Import, ast.ImportFrom, ast.Global, ast.Nonlocal, ast.Lambda, ast.FunctionDef,
                              ast.ClassDef, ast.AsyncFunctionDef)) and n is not node:
                raise Fail('%s: unsupported statement %s inside the body' % (self.label(), type(n).__name__))
        self.aug_targets = {n.target.id for n in ast.walk(node) if isinstance(n, ast.AugAssign) and isinstance(n.target, ast.Name)}

    def label(self):
        return (self.cls + '.' + self.name) if self.cls else self.name

    def fail(self, msg):
        raise Fail('%s: %s' % (self.label(), msg))

    # ------------------------------------------------------------------ globals
    def need_global(self, name, want):
        """`name` must be bound at module level of this function's file to `want` ('def', 'import:math', 'mod:Name')
        and must not be a local variable / parameter"""
        if name in self.locals or name in [p for p, _ in self.params]:
            self.fail('`%s` is a local variable here' % name)
        b = self.eng.bound[self.path].get(name)
        if b != want:
            self.fail('global `%s` is %s in %s, expected %s' % (name, b or 'unbound', self.path, want))

    def need_builtin(self, name):
        if name in self.locals or name in [p for p, _ in self.params]:
            self.fail('builtin `%s` is rebound locally' % name)
        if self.eng.bound[self.path].get(name) is not None:
            self.fail('builtin `%s` is rebound at module level of %s' % (name, self.path))

    # ------------------------------------------------------------------ analysis helpers
    @staticmethod
    def falls_through(stmts):
        for s in stmts:
            if isinstance(s, (ast.Return, ast.Raise)):
                return False
            if isinstance(s, ast.If) and s.orelse and not Fn.falls_through(s.body) and not Fn.falls_through(s.orelse):
                return False
        return True

    def assigned(self, stmts):
        """variables assigned at this level or below, in first-occurrence order"""
        out = []

        def add(n):
            if n not in out:
                out.append(n)
        for s in stmts:
            if isinstance(s, ast.Assign):
                for t in s.targets:
                    if isinstance(t, ast.Name):
                        add(t.id)
            elif isinstance(s, ast.AugAssign):
                if isinstance(s.target, ast.Name):
                    add(s.target.id)
            elif isinstance(s, ast.If):
                for n in self.assigned(s.body) + self.assigned(s.orelse):
                    add(n)
            elif isinstance(s, ast.For):
                if isinstance(s.target, ast.Name):
                    add(s.target.id)
                for n in self.assigned(s.body):
                    add(n)
        return out

    def definitely_assigned(self, stmts):
        """variables assigned on every path that falls through `stmts`"""
        out = set()
        for s in stmts:
            if isinstance(s, ast.Assign):
                out |= {t.id for t in s.targets if isinstance(t, ast.Name)}
            elif isinstance(s, ast.If):
                a, b = self.falls_through(s.body), self.falls_through(s.orelse) if s.orelse else True
                da, db = self.definitely_assigned(s.body), self.definitely_assigned(s.orelse)
                if a and b:
                    out |= (da & db)
                elif a:
                    out |= da
                elif b:
                    out |= db
        return out

    # ------------------------------------------------------------------ expressions: (code, type)
    def to_real(self, code, t, node=None):
        if t == 'R':
            return code
        if t == 'Z':
            if isinstance(node, ast.Constant):
                return '(%s : ℝ)' % code
            return '((%s : ℤ) : ℝ)' % code
        self.fail('a number was expected, found type %r' % (t,))

    def ex(self, e, env, monadic):
        if isinstance(e, ast.Name):
            if e.id in env:
                return mangle(e.id), env[e.id]
            self.fail('name `%s` is not bound here (possibly unbound in Python, or an unknown global)' % e.id)
        if isinstance(e, ast.Constant):
            if isinstance(e.value, bool) or not isinstance(e.value, int) or e.value < 0:
                self.fail('unsupported constant %r' % (e.value,))
            return str(e.value), 'Z'
        if isinstance(e, ast.Attribute):
            c, t = self.ex(e.value, env, monadic)
            if (t, e.attr) in ATTRS:
                return '%s.%s' % (c, e.attr), ATTRS[(t, e.attr)]
            self.fail('unsupported attribute .%s of a value of type %r' % (e.attr, t))
        if isinstance(e, ast.UnaryOp):
            c, t = self.ex(e.operand, env, monadic)
            if isinstance(e.op, ast.USub):
                if t in ('R', 'Z'):
                    return '(-%s)' % c, t
                if t == 'V':
                    return '(RVec.smul (-1) %s)' % c, 'V'
                self.fail('unary minus on type %r' % (t,))
            if isinstance(e.op, ast.Not) and t == 'B':
                return '(¬ %s)' % c, 'B'
            self.fail('unsupported unary operator')
        if isinstance(e, ast.BoolOp):
            parts = [self.ex(x, env, monadic) for x in e.values]
            for _, t in parts:
                if t != 'B':
                    self.fail('`and` / `or` on a non-boolean')
            op = ' ∧ ' if isinstance(e.op, ast.And) else ' ∨ '
            return '(' + op.join(c for c, _ in parts) + ')', 'B'
        if isinstance(e, ast.Compare):
            if len(e.ops) != 1:
                self.fail('chained comparison')
            a, ta = self.ex(e.left, env, monadic)
            b, tb = self.ex(e.comparators[0], env, monadic)
            sym = {ast.Lt: '<', ast.LtE: '≤', ast.Gt: '>', ast.GtE: '≥', ast.Eq: '=', ast.NotEq: '≠'}.get(type(e.ops[0]))
            if sym is None:
                self.fail('unsupported comparison')
            if ta == 'Z' and tb == 'Z':
                return '(%s %s %s)' % (a, sym, b), 'B'
            if ta in ('Z', 'R') and tb in ('Z', 'R'):
                return '(%s %s %s)' % (self.to_real(a, ta, e.left), sym, self.to_real(b, tb, e.comparators[0])), 'B'
            self.fail('comparison of types %r and %r' % (ta, tb))
        if isinstance(e, ast.BinOp):
            a, ta = self.ex(e.left, env, monadic)
            b, tb = self.ex(e.right, env, monadic)
            op = type(e.op)
            num = ('Z', 'R')
            if op is ast.Mult:
                if ta == 'V' and tb in num:
                    return '(RVec.smul %s %s)' % (self.to_real(b, tb, e.right), a), 'V'
                if ta in num and tb == 'V':
                    return '(RVec.smul %s %s)' % (self.to_real(a, ta, e.left), b), 'V'
                if ta == 'V' and tb == 'V':
                    return '(RVec.dot %s %s)' % (a, b), 'R'
            if op is ast.Add and ta == 'V' and tb == 'V':
                return '(RVec.add %s %s)' % (a, b), 'V'
            if op is ast.Sub and ta == 'V' and tb == 'V':
                return '(RVec.sub %s %s)' % (a, b), 'V'
            if ta in num and tb in num:
                if op is ast.Div:
                    return '(%s / %s)' % (self.to_real(a, ta, e.left), self.to_real(b, tb, e.right)), 'R'
                sym = {ast.Add: '+', ast.Sub: '-', ast.Mult: '*'}.get(op)
                if sym:
                    if ta == 'Z' and tb == 'Z':
                        return '(%s %s %s)' % (a, sym, b), 'Z'
                    return '(%s %s %s)' % (self.to_real(a, ta, e.left), sym, self.to_real(b, tb, e.right)), 'R'
            self.fail('unsupported operator %s on types %r, %r' % (op.__name__, ta, tb))
        if isinstance(e, ast.Subscript):
            xs, t = self.ex(e.value, env, monadic)
            if not (isinstance(t, tuple) and t[0] == 'L'):
                self.fail('indexing a non-list')
            if isinstance(e.slice, ast.Slice):
                s = e.slice
                if s.upper is None and s.step is None and isinstance(s.lower, ast.Constant) and isinstance(s.lower.value, int) \
                        and not isinstance(s.lower.value, bool) and s.lower.value >= 0:
                    return '(%s.drop %d)' % (xs, s.lower.value), t
                self.fail('unsupported slice (only `xs[k:]` with a non-negative literal k)')
            i, ti = self.ex(e.slice, env, monadic)
            if ti != 'Z':
                self.fail('index of type %r' % (ti,))
            return '(pyGetD %s %s %s)' % (xs, i, default_of(t[1])), t[1]
        if isinstance(e, ast.Call):
            return self.call(e, env, monadic)
        self.fail('unsupported expression %s' % type(e).__name__)

    def group_call(self, key, arg_nodes, env, monadic, recv=None):
        """call of a function of the group; `recv` = (code, type) of the receiver of a method call"""
        spec = SPEC[key]
        params = spec[3]
        given = ([recv] if recv else []) + [self.ex(a, env, monadic) for a in arg_nodes]
        if len(given) != len(params):
            self.fail('%d arguments for %s, expected %d' % (len(given), key, len(params)))
        args = []
        for (p, t), (c, ta) in zip(params, given):
            if t == 'R' and ta == 'Z':
                c, ta = self.to_real(c, ta), 'R'
            if t == 'Obj' and ta in CLASSES:
                c, ta = ('(%s %s)' % (INJECT[ta], c) if ta in INJECT else 'MObj.other'), 'Obj'
            if ta != t:
                self.fail('argument `%s` of %s has type %r, expected %r' % (p, key, ta, t))
            args.append(c)
        if key == self.key:
            # recursion: through the explicit parameter `<name>_rec`
            self.recursive = True
            if not monadic:
                raise NeedMonadic()
            return '(← %s_rec %s)' % (self.name, ' '.join(args)), spec[4]
        r = self.eng.result(key)
        if not r.ok:
            self.fail('calls `%s`, which could not be translated' % key)
        if r.fn.recursive:
            self.fail('calls the recursive function `%s` from outside' % key)
        if key not in self.calls:
            self.calls.append(key)
        if r.fn.monadic:
            if not monadic:
                raise NeedMonadic()
            return '(← m_%s %s)' % (key, ' '.join(args)), spec[4]
        return '(m_%s %s)' % (key, ' '.join(args)), spec[4]

    def call(self, e, env, monadic):
        f = e.func
        if e.keywords:
            self.fail('keyword arguments in a call')
        for a in e.args:
            if isinstance(a, ast.Starred):
                self.fail('starred argument')
        if isinstance(f, ast.Name):
            n, args = f.id, e.args
            if n in env:
                self.fail('call of a local variable')
            # module-level functions of the group, visible by name in their own file
            if n in SPEC and SPEC[n][1] is None and SPEC[n][0] == self.path:
                self.need_global(n, 'def')
                return self.group_call(n, args, env, monadic)
            if n == 'len' and len(args) == 1:
                self.need_builtin('len')
                c, t = self.ex(args[0], env, monadic)
                if isinstance(t, tuple) and t[0] == 'L':
                    return '(pyLen %s)' % c, 'Z'
                self.fail('len of a non-list')
            if n == 'abs' and len(args) == 1:
                self.need_builtin('abs')
                c, t = self.ex(args[0], env, monadic)
                if t in ('R', 'Z'):
                    return '(|%s|)' % c, t
                self.fail('abs of type %r' % (t,))
            if n == 'Vector' and len(args) == 2:
                self.need_global('Vector', 'utils.vector:Vector')
                (a, ta), (b, tb) = [self.ex(x, env, monadic) for x in args]
                if ta == 'P' and tb == 'P':
                    return '(vecFromTo %s %s)' % (a, b), 'V'
                self.fail('Vector(..) of types %r, %r (only two Points)' % (ta, tb))
            if n == 'distance' and len(args) == 2:
                self.need_global('distance', 'distance:distance')
                (a, ta), (b, tb) = [self.ex(x, env, monadic) for x in args]
                if ta == 'P' and tb == 'Plane':
                    return '(distPointPlane %s %s)' % (a, b), 'R'
                self.fail('distance(..) of types %r, %r (only Point, Plane)' % (ta, tb))
            self.fail('unknown function `%s`' % n)
        if isinstance(f, ast.Attribute):
            if isinstance(f.value, ast.Name) and f.value.id == 'math' and 'math' not in env:
                self.need_global('math', 'import:math')
                if f.attr == 'sqrt' and len(e.args) == 1:
                    c, t = self.ex(e.args[0], env, monadic)
                    return '(Real.sqrt %s)' % self.to_real(c, t, e.args[0]), 'R'
                self.fail('unsupported math.%s' % f.attr)
            recv, t = self.ex(f.value, env, monadic)
            if t in PYCLASS:
                key = key_of(PYCLASS[t], f.attr)
                if key in SPEC:
                    return self.group_call(key, e.args, env, monadic, recv=(recv, t))
                self.fail('method .%s of %s is not in the group' % (f.attr, PYCLASS[t]))
            args = [self.ex(a, env, monadic) for a in e.args]
            if t == 'P' and f.attr == 'distance' and len(args) == 1 and args[0][1] == 'P':
                return '(pointDistance %s %s)' % (recv, args[0][0]), 'R'
            if t == 'V' and f.attr == 'length' and not args:
                return '(vLength %s)' % recv, 'R'
            if t == 'V' and f.attr == 'normalized' and not args:
                return '(vNormalized %s)' % recv, 'V'
            self.fail('unsupported method .%s on type %r' % (f.attr, t))
        self.fail('unsupported call')

    # ------------------------------------------------------------------ statements
    # `block` returns the lines of a do-sequence (monadic=True) or of a `let` chain ending in a term (monadic=False) at
    # indentation `ind`; `tail(env, ind)` gives the final line(s) when control falls off the end of `stmts`.
    def ret_line(self, code, monadic):
        return ('pure ' + code) if monadic else code

    def narrowing(self, test, env):
        """`isinstance(x, C)` with x : Obj  ->  (x, narrowed type, runtime test) or None"""
        if isinstance(test, ast.Call) and isinstance(test.func, ast.Name) and test.func.id == 'isinstance' \
                and 'isinstance' not in env:
            self.need_builtin('isinstance')
            if len(test.args) != 2 or test.keywords:
                self.fail('unsupported isinstance call')
            x, c = test.args
            if not (isinstance(x, ast.Name) and env.get(x.id) == 'Obj'):
                self.fail('isinstance on something that is not a parameter of unknown class')
            if not (isinstance(c, ast.Name) and c.id in NARROW):
                self.fail('isinstance against an unsupported class')
            want, t, fn = NARROW[c.id]
            self.need_global(c.id, want)
            return x.id, t, fn
        return None

    def block(self, stmts, env, ind, monadic, tail):
        if not stmts:
            return tail(env, ind)
        s, rest = stmts[0], stmts[1:]
        if isinstance(s, ast.Expr) and isinstance(s.value, ast.Constant) and isinstance(s.value.value, str):
            return self.block(rest, env, ind, monadic, tail)
        if isinstance(s, ast.Pass):
            return self.block(rest, env, ind, monadic, tail)
        if isinstance(s, ast.Assign):
            if len(s.targets) != 1 or not isinstance(s.targets[0], ast.Name):
                self.fail('unsupported assignment target')
            x = s.targets[0].id
            if x in ('math', 'self') or x in BUILTINS:
                self.fail('assignment to `%s`' % x)
            c, t = self.ex(s.value, env, monadic)
            if t == 'B':
                self.fail('assignment of a truth value')
            if t == 'Z' and isinstance(s.value, ast.Constant) and x in self.aug_targets:
                c, t = self.to_real(c, t, s.value), 'R'
            env2 = dict(env)
            env2[x] = t
            return [ind + 'let %s : %s := %s' % (mangle(x), lean_type(t), c)] + self.block(rest, env2, ind, monadic, tail)
        if isinstance(s, ast.AugAssign):
            if not isinstance(s.target, ast.Name) or not isinstance(s.op, ast.Add):
                self.fail('unsupported augmented assignment')
            x = s.target.id
            if x not in env:
                self.fail('`%s += ..` before assignment' % x)
            t = env[x]
            c, te = self.ex(s.value, env, monadic)
            if t == 'R' and te in ('R', 'Z'):
                c = self.to_real(c, te, s.value)
            elif not (t == 'Z' and te == 'Z'):
                self.fail('`+=` of type %r to a variable of type %r' % (te, t))
            return [ind + 'let %s : %s := (%s + %s)' % (mangle(x), lean_type(t), mangle(x), c)] + \
                self.block(rest, env, ind, monadic, tail)
        if isinstance(s, ast.Return):
            if self.loops:
                self.fail('return inside a loop')
            if s.value is None:
                self.fail('return without value')
            c, t = self.ex(s.value, env, monadic)
            if self.ret == 'R' and t == 'Z':
                c, t = self.to_real(c, t, s.value), 'R'
            if t != self.ret:
                self.fail('returns type %r, expected %r' % (t, self.ret))
            return [ind + self.ret_line(c, monadic)]
        if isinstance(s, ast.Raise):
            x = s.exc
            if isinstance(x, ast.Call):
                x = x.func
            if not (isinstance(x, ast.Name) and x.id == 'ValueError') or s.cause is not None:
                self.fail('unsupported exception')
            self.need_builtin('ValueError')
            if not monadic:
                raise NeedMonadic()
            return [ind + 'throw "ValueError"']
        if isinstance(s, ast.If):
            nar = self.narrowing(s.test, env)
            ft_a = self.falls_through(s.body)
            ft_b = self.falls_through(s.orelse) if s.orelse else True
            if nar:
                x, t, fn = nar
                if self.loops:
                    self.fail('isinstance inside a loop')
                if not (not rest and s.orelse) and not (not ft_a and not ft_b):
                    self.fail('isinstance branch that falls through to following statements')
                if rest:
                    self.fail('unreachable statements after an `if`')
                env_a = dict(env)
                env_a[x] = t
                return ([ind + 'match (%s %s) with' % (fn, mangle(x)), ind + '| some %s =>' % mangle(x)] +
                        self.block(s.body, env_a, ind + '  ', monadic, tail) +
                        [ind + '| none =>'] + self.block(s.orelse, env, ind + '  ', monadic, tail))
            c, t = self.ex(s.test, env, monadic)
            if t != 'B':
                self.fail('condition is not a comparison')
            if not rest or (not ft_a and not ft_b):
                # nothing follows on any path through the branches
                if rest:
                    self.fail('unreachable statements after an `if`')
                return ([ind + 'if %s then' % c] + self.block(s.body, env, ind + '  ', monadic, tail) +
                        [ind + 'else'] + self.block(s.orelse, env, ind + '  ', monadic, tail))
            if not ft_a and not s.orelse:
                return ([ind + 'if %s then' % c] + self.block(s.body, env, ind + '  ', monadic, tail) +
                        [ind + 'else'] + self.block(rest, env, ind + '  ', monadic, tail))
            # general case: export the variables assigned in the branches
            da = self.definitely_assigned(s.body) if ft_a else None
            db = self.definitely_assigned(s.orelse) if ft_b else None
            both = da & db if (da is not None and db is not None) else (da if da is not None else db)
            exported = []
            for v in self.assigned(s.body) + self.assigned(s.orelse):
                if v not in exported and (v in both or v in env):
                    exported.append(v)
            if not exported:
                self.fail('`if` without effect on the variables')
            types = {}

            def branch_tail(env_b, ind_b):
                for v in exported:
                    if v not in env_b:
                        self.fail('`%s` may be unbound after the `if`' % v)
                    if v in types and types[v] != env_b[v]:
                        self.fail('`%s` has different types in the branches' % v)
                    types[v] = env_b[v]
                return [ind_b + self.ret_line(tuple_expr(exported), monadic)]
            do = ' do' if monadic else ''
            la = self.block(s.body, env, ind + '    ', monadic, branch_tail)
            lb = self.block(s.orelse, env, ind + '    ', monadic, branch_tail)
            env2 = dict(env)
            for v in exported:
                env2[v] = types[v]
            n = len(exported)
            bind = '←' if monadic else ':='
            if n == 1:
                head = ind + 'let %s : %s %s' % (mangle(exported[0]), lean_type(types[exported[0]]), bind)
                after = []
            else:
                head = ind + 'let st : %s %s' % (tuple_type([types[v] for v in exported]), bind)
                after = [ind + 'let %s : %s := st%s' % (mangle(v), lean_type(types[v]), proj(k, n))
                         for k, v in enumerate(exported)]
            return ([head, ind + '  if %s then%s' % (c, do)] + la + [ind + '  else%s' % do] + lb + after +
                    self.block(rest, env2, ind, monadic, tail))
        if isinstance(s, ast.For):
            if s.orelse or not isinstance(s.target, ast.Name):
                self.fail('unsupported for loop')
            it = s.iter
            i = s.target.id
            if i in env:
                self.fail('loop variable shadows an outer variable')
            if isinstance(it, ast.Call) and isinstance(it.func, ast.Name) and it.func.id == 'range' and 'range' not in env:
                self.need_builtin('range')
                if it.keywords or len(it.args) != 1:
                    self.fail('only `range(n)` with one argument is supported')
                b, tb = self.ex(it.args[0], env, monadic)
                if tb != 'Z':
                    self.fail('range bound is not an integer')
                lst, ti = '(pyRange %s)' % b, 'Z'
            else:
                lst, tl = self.ex(it, env, monadic)
                if not (isinstance(tl, tuple) and tl[0] == 'L'):
                    self.fail('iteration over a value of type %r' % (tl,))
                ti = tl[1]
            state = [v for v in self.assigned(s.body) if v in env]
            if not state:
                self.fail('loop without effect on outer variables')
            n = len(state)
            sname = mangle(state[0]) if n == 1 else 'st'
            stype = tuple_type([env[v] for v in state])
            ind2 = ind + '    '
            unpack = [] if n == 1 else [ind2 + 'let %s : %s := st%s' % (mangle(v), lean_type(env[v]), proj(k, n))
                                        for k, v in enumerate(state)]
            env_b = dict(env)
            env_b[i] = ti

            def make_tail(body_monadic):
                def loop_tail(env_l, ind_l):
                    for v in state:
                        if env_l[v] != env[v]:
                            self.fail('loop-carried variable `%s` changes its type' % v)
                    return [ind_l + self.ret_line(tuple_expr(state), body_monadic)]
                return loop_tail
            self.loops += 1
            try:
                try:
                    body_monadic = False
                    inner = self.block(s.body, env_b, ind2, False, make_tail(False))
                except NeedMonadic:
                    if not monadic:
                        raise
                    body_monadic = True
                    inner = self.block(s.body, env_b, ind2, True, make_tail(True))
            finally:
                self.loops -= 1
            init = tuple_expr(state)
            if body_monadic:
                head = ind + 'let %s : %s ← %s.foldlM (fun (%s : %s) (%s : %s) => do' % (
                    sname, stype, lst, sname, stype, mangle(i), lean_type(ti))
            else:
                head = ind + 'let %s : %s := %s.foldl (fun (%s : %s) (%s : %s) =>' % (
                    sname, stype, lst, sname, stype, mangle(i), lean_type(ti))
            lines = [head] + unpack + inner
            lines[-1] = lines[-1] + ') ' + init
            after = [] if n == 1 else [ind + 'let %s : %s := st%s' % (mangle(v), lean_type(env[v]), proj(k, n))
                                       for k, v in enumerate(state)]
            # variables first assigned inside the loop are NOT visible afterwards
            return lines + after + self.block(rest, env, ind, monadic, tail)
        self.fail('unsupported statement %s' % type(s).__name__)

    def translate(self):
        a = self.node.args
        if a.vararg or a.kwarg or a.kwonlyargs or a.kw_defaults or a.posonlyargs or a.defaults:
            self.fail('unsupported signature')
        if self.node.decorator_list:
            self.fail('unexpected decorator')
        names = [x.arg for x in a.args]
        if names != [p for p, _ in self.params]:
            self.fail('parameters are (%s), expected (%s)' % (', '.join(names), ', '.join(p for p, _ in self.params)))
        env = {p: t for p, t in self.params}

        def end_tail(env_e, ind_e):
            self.fail('control may reach the end of the function (returns None)')
        try:
            self.monadic = False
            lines = self.block(self.node.body, env, '  ', False, end_tail)
        except NeedMonadic:
            self.monadic = True
            self.calls = []
            lines = self.block(self.node.body, env, '  ', True, end_tail)
        sig = ''.join(' (%s : %s)' % (mangle(p), lean_type(t)) for p, t in self.params)
        where = self.path + ' `%s(%s)`' % (self.label(), ', '.join(p for p, _ in self.params))
        rt = lean_type(self.ret)
        if self.recursive:
            ptypes = ' → '.join(lean_type(t) for _, t in self.params)
            pnames = ' '.join(mangle(p) for p, _ in self.params)
            text = ('/-- %s, one unfolding: the calls of `%s` inside the body go to `%s_rec` -/\n'
                    'noncomputable def m_%s_body (%s_rec : %s → PyE %s)%s : PyE %s := do\n' % (
                        where, self.name, self.name, self.key, self.name, ptypes, rt, sig, rt)
                    + '\n'.join(lines) + '\n\n'
                    + '/-- %s: the recursion, cut at depth `fuel` (Python raises RecursionError at its recursion limit) -/\n' % where
                    + 'noncomputable def m_%s : ℕ → %s → PyE %s\n' % (self.key, ptypes, rt)
                    + '  | 0, %s => throw "RecursionError"\n' % ', '.join('_' for _ in self.params)
                    + '  | fuel + 1, %s => m_%s_body (m_%s fuel) %s\n' % (
                        ', '.join(mangle(p) for p, _ in self.params), self.key, self.key, pnames))
            return text
        if self.monadic:
            head = '/-- %s -/\nnoncomputable def m_%s%s : PyE %s := do' % (where, self.key, sig, rt)
        else:
            head = '/-- %s -/\nnoncomputable def m_%s%s : %s :=' % (where, self.key, sig, rt)
        return head + '\n' + '\n'.join(lines) + '\n'


class Result:
    def __init__(self, key, fn=None, text=None, error=None):
        self.key, self.fn, self.text, self.error, self.ok = key, fn, text, error, error is None


class Engine:
    def __init__(self, repo):
        self.results, self.busy, self.order, self.mods = {}, set(), [], {}
        for path in FILES:
            try:
                self.mods[path] = ast.parse(open(os.path.join(repo, path)).read())
            except (OSError, SyntaxError, ValueError) as ex:
                sys.stderr.write('extract_mmeas: cannot parse %s: %s\n' % (path, ex))
                sys.exit(1)
        # module-level bindings: name -> 'def' / 'class' / 'assign' / 'import:<module>' / '<module>:<name>' (from-import) /
        # 'star:<module>' (a name exported by a module imported with `*`); later statements override earlier ones
        self.repo = repo
        self.bound = {}
        for path, mod in self.mods.items():
            b = {}
            for n in mod.body:
                if isinstance(n, ast.ImportFrom):
                    for a in n.names:
                        if a.name != '*':
                            b[a.asname or a.name] = (n.module or '') + ':' + a.name
                        else:
                            for x in self.star_exports(path, n):
                                b[x] = 'star:' + (n.module or '')
                elif isinstance(n, ast.Import):
                    for a in n.names:
                        b[(a.asname or a.name).split('.')[0]] = 'import:' + a.name
                elif isinstance(n, ast.FunctionDef):
                    b[n.name] = 'def' if n.name not in b else 'redefined'
                elif isinstance(n, ast.ClassDef):
                    b[n.name] = 'class' if n.name not in b else 'redefined'
                elif isinstance(n, (ast.Assign, ast.AugAssign, ast.AnnAssign)):
                    for t in (n.targets if isinstance(n, ast.Assign) else [n.target]):
                        for m in ast.walk(t):
                            if isinstance(m, ast.Name):
                                b[m.id] = 'assign'
                elif isinstance(n, ast.Expr) and isinstance(n.value, ast.Constant):
                    pass
                else:
                    # any other module-level statement (if / try / for / with / del ..) could rebind anything
                    for m in ast.walk(n):
                        if isinstance(m, ast.Name) and isinstance(m.ctx, (ast.Store, ast.Del)):
                            b[m.id] = 'assign'
                        elif isinstance(m, (ast.FunctionDef, ast.ClassDef)):
                            b[m.name] = 'redefined'
                        elif isinstance(m, (ast.Import, ast.ImportFrom)):
                            for a in m.names:
                                b[a.asname or a.name] = 'conditional import'
            self.bound[path] = b
        # dynamic dispatch: `x.area()` on a ConvexPolygon is ConvexPolygon.area only if no subclass overrides it
        roots = set(PYCLASS.values())
        for path, mod in self.mods.items():
            for n in ast.walk(mod):
                if isinstance(n, ast.ClassDef):
                    for base in n.bases:
                        name = base.id if isinstance(base, ast.Name) else (base.attr if isinstance(base, ast.Attribute) else None)
                        if name in roots:
                            self.subclassed = '%s is subclassed by %s in %s' % (name, n.name, path)

    subclassed = None

    def star_exports(self, path, node):
        """names a `from <module> import *` at module level of `path` binds: `__all__` if it is a literal list of strings,
        else every public module-level name of that module.  A module that cannot be found / read that simply is an
        error for the whole run (exit 1): nothing can be said about the names of `path` then."""
        parts = os.path.dirname(path).split('/')
        if node.level:
            parts = parts[:len(parts) - (node.level - 1)]
        else:
            parts = []
        parts += (node.module or '').split('.') if node.module else []
        cand = ['/'.join(parts) + '.py', '/'.join(parts) + '/__init__.py']
        for c in cand:
            full = os.path.join(self.repo, c)
            if os.path.isfile(full):
                try:
                    mod = ast.parse(open(full).read())
                except (OSError, SyntaxError, ValueError) as ex:
                    sys.stderr.write('extract_mmeas: cannot parse %s (star-imported by %s): %s\n' % (c, path, ex))
                    sys.exit(1)
                names, all_ = [], None
                for n in mod.body:
                    if isinstance(n, ast.ImportFrom):
                        for a in n.names:
                            if a.name == '*':
                                sys.stderr.write('extract_mmeas: nested star import in %s (star-imported by %s)\n' % (c, path))
                                sys.exit(1)
                            names.append(a.asname or a.name)
                    elif isinstance(n, ast.Import):
                        names += [(a.asname or a.name).split('.')[0] for a in n.names]
                    elif isinstance(n, (ast.FunctionDef, ast.ClassDef)):
                        names.append(n.name)
                    elif isinstance(n, ast.Expr) and isinstance(n.value, ast.Constant):
                        pass
                    else:
                        for m in ast.walk(n):
                            if isinstance(m, ast.Name) and isinstance(m.ctx, ast.Store):
                                names.append(m.id)
                            elif isinstance(m, (ast.FunctionDef, ast.ClassDef)):
                                names.append(m.name)
                        if isinstance(n, ast.Assign) and any(isinstance(t, ast.Name) and t.id == '__all__' for t in n.targets):
                            if isinstance(n.value, (ast.List, ast.Tuple)) and all(
                                    isinstance(x, ast.Constant) and isinstance(x.value, str) for x in n.value.elts):
                                all_ = [x.value for x in n.value.elts]
                            else:
                                sys.stderr.write('extract_mmeas: non-literal __all__ in %s\n' % c)
                                sys.exit(1)
                return all_ if all_ is not None else [x for x in names if not x.startswith('_')]
        sys.stderr.write('extract_mmeas: cannot find the module star-imported by %s (%s)\n' % (path, node.module))
        sys.exit(1)

    def find(self, key):
        path, cls, name = SPEC[key][0], SPEC[key][1], SPEC[key][2]
        body = self.mods[path].body
        if self.subclassed:
            return None, self.subclassed + ' (method calls on it would be dynamically dispatched)'
        if cls:
            cs = [n for n in body if isinstance(n, ast.ClassDef) and n.name == cls]
            if len(cs) != 1 or self.bound[path].get(cls) != 'class':
                return None, 'expected exactly one class %s in %s' % (cls, path)
            body = cs[0].body
            for n in body:
                if isinstance(n, ast.Assign) and any(isinstance(t, ast.Name) and t.id == name for t in n.targets):
                    return None, 'the class attribute `%s` is also assigned in the body of class %s' % (name, cls)
        defs = [n for n in body if isinstance(n, ast.FunctionDef) and n.name == name]
        if len(defs) != 1:
            return None, 'expected exactly one definition in %s, found %d' % (path, len(defs))
        if not cls and self.bound[path].get(name) != 'def':
            return None, '`%s` is rebound at module level of %s' % (name, path)
        return defs[0], None

    def result(self, key):
        if key in self.results:
            return self.results[key]
        if key in self.busy:
            return Result(key, error='%s: recursion between different functions of the group' % key)
        self.busy.add(key)
        node, err = self.find(key)
        label = (SPEC[key][1] + '.' + SPEC[key][2]) if SPEC[key][1] else SPEC[key][2]
        if err:
            r = Result(key, error='%s: %s' % (label, err))
        else:
            try:
                fn = Fn(self, key, node)
                r = Result(key, fn=fn, text=fn.translate())
            except Fail as ex:
                r = Result(key, error=str(ex))
        self.busy.discard(key)
        self.results[key] = r
        self.order.append(key)
        return r

    def run(self):
        for f in FUNCS:
            self.result(key_of(f[1], f[2]))
        out = ['import G3D.Model.MeasRt',
               '/-! GENERATED by tools/extract_mmeas.py from %s — do not edit' % ', '.join(FILES),
               '',
               '    One definition `m_<Class>_<method>` / `m_<function>` per measure body, translated statement by statement from',
               '    the Python AST (table in the docstring of tools/extract_mmeas.py; vocabulary: G3D/Model/MeasRt.lean).  A body that',
               '    could not be translated appears as `m_<..>_EXTRACTION_FAILED : String` instead.',
               '    Trusted reading: floats are reals, ints are integers; the records `MPolygon` … hold exactly the attributes the',
               '    bodies read, `plane.n` being the STORED (normalised) normal; the sets `pyramid_set` / `segment_set` are read as',
               '    lists in an arbitrary order; `xs[i]` out of range, `x / 0` and `math.sqrt` of a negative number (Python: IndexError,',
               '    ZeroDivisionError, ValueError) take the values `default`, `0`, `0` — excluded by the hypotheses of the ties.',
               '    G3D/Proofs/MeasTie*.lean prove every definition below equal to the measure model G3D/Model/Measure.lean. -/',
               'set_option linter.unusedVariables false',
               'namespace G3D.Extracted',
               'open G3D G3D.MeasRt',
               '']
        failed = []
        for k in self.order:
            r = self.results[k]
            if r.ok:
                out.append(r.text)
            else:
                failed.append(k)
                sys.stderr.write('extract_mmeas: %s\n' % r.error)
                out.append('/-- `%s` could NOT be translated -/' % k)
                out.append('def m_%s_EXTRACTION_FAILED : String := "%s"\n'
                           % (k, r.error.replace('\\', '\\\\').replace('"', '\\"')))
        out.append('/-- the bodies, in emission order -/')
        out.append('def mmeasNames : List String := [%s]' % ', '.join('"%s"' % k for k in self.order))
        out.append('/-- those that could not be translated -/')
        out.append('def mmeasFailed : List String := [%s]' % ', '.join('"%s"' % k for k in failed))
        out.append('end G3D.Extracted')
        sys.stdout.write('\n'.join(out) + '\n')


if __name__ == '__main__':
    sys.dont_write_bytecode = True
    if len(sys.argv) != 2:
        sys.stderr.write('usage: extract_mmeas.py <repo>\n')
        sys.exit(1)
    Engine(sys.argv[1]).run()
