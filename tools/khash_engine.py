#!/venv/bin/python
"""Engine of translator T3, group `khash`: symbolic execution of the `__hash__` METHOD BODIES (and of the helpers they
call: `_get_point_hash_sum`, `_get_polygon_hash_sum`, `hash_with_normal`).

Built on tools/kernels_engine.py (which is left untouched: symbolic numbers `K`, recorder of comparisons, per-kernel fault
isolation with the marker `impl_<kernel>_EXTRACTION_FAILED`).  In addition to `get_eps` / `math` / `float`, the library
modules that define a `__hash__` get, in their module globals (process-local, no source edited),

    hash             tuple            -> symbolic integer `H [item, ...]` (H = the uninterpreted tuple hash; items: tag string,
                                         symbolic number, symbolic integer; a nested tuple is refused)
                     library object   -> the symbolic integer `impl_<kernel of its class> <oracles> <its attributes>`: a CALL of
                                         the definition extracted from the `__hash__` of that class (the Python delegates, the
                                         Lean text delegates; a callee whose own walk failed makes the caller fail too)
    round            round(x, get_sig_figures())        -> `rnd x`  (x a symbolic number) / `rndI x` (x a symbolic integer)
                     round(x, get_sig_figures() + k)    -> `rndO k x` / `rndIO k x`
                     any other second argument (a literal, a frozen module constant, none) is refused
    get_sig_figures  -> the symbolic digit count `Sig(0)`

Symbolic integers (`HK`) know `+` and `*` (among themselves and with Python ints) and nothing else.

Comparisons.  A `__hash__` body may compare symbolic numbers (the sign canonicalisation of Line / Plane:
`abs(c) > get_eps()`, `c < 0`).  Instead of one scripted path per definition the walk EXPLORES every path (depth first,
the answer True first; at most 64 leaves): the definition is the decision tree, with one uninterpreted ORACLE per comparison
shape as a parameter —
    "abs(R) > eps" -> `sig R`      "R < 0" -> `neg R`      any other one-operand shape -> `cmp<k> R`  (changes the signature)
and the generated file pins `impl_<kernel>_oracles` (oracle name, shape), `impl_<kernel>_paths` (every walked path as
a list of (shape, answer)) and `impl_<kernel>_roundings` (the digit counts, relative to the live `get_sig_figures()`, of the
`round` calls of the body itself: [0] = every rounding reads the live setting, [] = the body rounds nothing itself).  The exact reading (`sig x := x ≠ 0`, `neg x := x < 0`) is chosen on the Lean side.

Purity.  `__hash__` is called on an object whose attribute tree is snapshotted before and after: a body that writes to
the object (memoising its result in a field, ...) is refused.

Objects.  Point, Vector, Line, Plane, Segment, HalfLine are built by their real constructors (permissive mode, as in the
other groups; the Plane's stored normal is then overwritten by the raw symbolic vector: `__hash__` is extracted as a
function of the ATTRIBUTES p, n it reads).  ConvexPolygon / ConvexPolyhedron are assembled from the attributes the hash
bodies read (`points`, `plane`; `convex_polygons`, `point_set` — a tuple stands in for the set: its iteration order is
arbitrary anyway) for a fixed small number of symbolic vertices / faces; an attribute the body reads beyond those
(a memo field set by the constructor, ...) raises AttributeError and the kernel is withheld."""
import sys, os, re, importlib
sys.dont_write_bytecode = True
sys.path.insert(0, os.path.dirname(os.path.abspath(__file__)))
import kernels_engine as ke
from kernels_engine import K, REC, EPS, Unscripted, shape, variables


class NeedMore(BaseException):
    """the explored path is longer than the answers chosen so far (BaseException: no `except Exception` of the library swallows it)"""


class Sig:
    """symbolic `get_sig_figures()` (+ / - a literal int)"""
    def __init__(self, off=0):
        self.off = off

    def _lit(self, o):
        if isinstance(o, bool) or not isinstance(o, int):
            raise TypeError('arithmetic of get_sig_figures() with %r' % (o,))
        return o

    def __add__(self, o):
        return Sig(self.off + self._lit(o))
    __radd__ = __add__

    def __sub__(self, o):
        return Sig(self.off - self._lit(o))

    def __index__(self):
        raise TypeError('get_sig_figures() used as a concrete number')
    __int__ = __float__ = __bool__ = __index__
    __hash__ = None

    def __eq__(self, o):
        raise TypeError('== on get_sig_figures()')


def hk_embed(o):
    if isinstance(o, HK):
        return o.e
    if isinstance(o, int) and not isinstance(o, bool):
        return ('hc', o)
    return None


class HK:
    """symbolic Python int (a hash value): + and * only"""
    __slots__ = ('e',)

    def __init__(self, e):
        self.e = e

    def _bin(op):
        def f(self, o):
            oe = hk_embed(o)
            if oe is None:
                return NotImplemented
            return HK((op, self.e, oe))

        def r(self, o):
            oe = hk_embed(o)
            if oe is None:
                return NotImplemented
            return HK((op, oe, self.e))
        return f, r
    __add__, __radd__ = _bin('h+')
    __mul__, __rmul__ = _bin('h*')

    def _no(what):
        def f(self, *a):
            raise TypeError('%s of a symbolic hash value' % what)
        return f
    __eq__ = _no('==')
    __ne__ = _no('!=')
    __lt__ = __le__ = __gt__ = __ge__ = _no('ordering')
    __bool__ = _no('truth value')
    __int__ = __index__ = __float__ = _no('conversion to a number')
    __round__ = _no('builtin round()')
    __neg__ = __abs__ = __sub__ = __rsub__ = __mod__ = __rmod__ = __xor__ = __rxor__ = _no('an operation other than + and *')
    __hash__ = None

    def __format__(self, spec):
        return 'symhash'

    def __repr__(self):
        return 'HK'

    def __deepcopy__(self, memo):
        return self

    def __copy__(self):
        return self


ORACLE_OF_SHAPE = {'abs(R) > eps': 'sig', 'R < 0': 'neg'}
PARAM_ORDER = ['H', 'rnd', 'rndO', 'rndI', 'rndIO']
PARAM_TYPE = {'H': 'List (HItem ℝ) → Int', 'rnd': 'ℝ → ℝ', 'rndO': 'Int → ℝ → ℝ', 'rndI': 'Int → Int', 'rndIO': 'Int → Int → Int'}
MAX_LEAVES = 64


class HEmit(ke.Emit):
    """numbers with the uninterpreted rounding"""
    def __init__(self):
        ke.Emit.__init__(self, True)
        self.used = None     # set of parameter names met while emitting one definition

    def term(self, e):
        if e[0] == 'rnd':
            if e[1] == 0:
                self.used.add('rnd')
                return '(rnd %s)' % self.term(e[2])
            self.used.add('rndO')
            return '(rndO (%d) %s)' % (e[1], self.term(e[2]))
        return ke.Emit.term(self, e)


def lean_string(s):
    if not isinstance(s, str) or re.search(r'[^ -~]', s):
        raise TypeError('tag %r is not a printable ASCII string' % (s,))
    return '"%s"' % s.replace('\\', '\\\\').replace('"', '\\"')


class HWalker(ke.Walker):
    def __init__(self, repo):
        ke.Walker.__init__(self, repo, True)
        self.em = HEmit()
        g = importlib.import_module
        self.m['polyhedron'] = g('Geometry3D.geometry.polyhedron')
        pm = self.m['polyhedron']
        if hasattr(pm, 'get_eps'):
            pm.get_eps = lambda: K(EPS)
        if hasattr(pm, 'math'):
            pm.math = ke.MathShim()
        pm.float = ke.ident_float
        self.ConvexPolygon = self.m['polygon'].ConvexPolygon
        self.ConvexPolyhedron = pm.ConvexPolyhedron
        for k in ('point', 'vector', 'line', 'plane', 'segment', 'halfline', 'polygon', 'polyhedron'):
            mod = self.m[k]
            mod.hash = self.shim_hash
            mod.round = self.shim_round
            mod.get_sig_figures = lambda: Sig(0)
        self.kinfo = {}          # kernel -> dict(params=[...], oracles=[(name, shape)], nvec=int)
        self.summaries = {}      # class -> function(obj) -> (kernel, [component lists])

    def kernel(self, name, fn):
        kinfo, summ = dict(self.kinfo), dict(self.summaries)
        ke.Walker.kernel(self, name, fn)
        if name in self.failed:
            self.kinfo, self.summaries = kinfo, summ
            self.em.used = None

    # ------------------------------------------------------------------ shims
    def shim_round(self, x, nd=None):
        if not isinstance(nd, Sig):
            raise TypeError('round() whose number of digits is not get_sig_figures() (+/- a literal): %r' % (nd,))
        if isinstance(x, K):
            return K(('rnd', nd.off, x.e))
        xe = hk_embed(x)
        if xe is None:
            raise TypeError('round() of %r' % (x,))
        return HK(('hrnd', nd.off, xe))

    def item(self, o):
        if isinstance(o, str):
            lean_string(o)
            return ('tag', o)
        if isinstance(o, K):
            return ('num', o.e)
        oe = hk_embed(o)
        if oe is not None:
            return ('int', oe)
        if isinstance(o, tuple):
            raise TypeError('nested tuple inside a hashed tuple')
        raise TypeError('item %r inside a hashed tuple' % (o,))

    def shim_hash(self, o):
        if isinstance(o, tuple):
            return HK(('H', tuple(self.item(i) for i in o)))
        f = self.summaries.get(type(o))
        if f is None:
            raise TypeError('hash() of %r' % (type(o).__name__,))
        kernel, vecs = f(o)
        if kernel not in self.kinfo:
            raise Unscripted('delegates to hash(%s), whose own kernel %s is withheld or not walked' % (type(o).__name__, kernel))
        trees = []
        for v in vecs:
            v = list(v)
            if len(v) != 3 or not all(isinstance(c, K) for c in v):
                raise TypeError('hash(%s): an attribute left the symbolic type' % type(o).__name__)
            trees.append(tuple(c.e for c in v))
        if len(trees) != self.kinfo[kernel]['nvec']:
            raise TypeError('hash(%s): %d attribute triples, kernel %s takes %d' % (type(o).__name__, len(trees), kernel, self.kinfo[kernel]['nvec']))
        return HK(('call', kernel, tuple(trees)))

    # ------------------------------------------------------------------ objects
    def pt(self, p):
        return [p.x, p.y, p.z]

    def plane_attr(self, pn, nn):
        return ke.raw_plane(self, self.P(pn), self.V(nn))

    def polygon(self, pts, pn, nn):
        """ConvexPolygon assembled from the attributes its hash reads"""
        P = object.__new__(self.ConvexPolygon)
        P.points = [self.P(n) for n in pts]
        P.plane = self.plane_attr(pn, nn)
        return P

    def polyhedron(self, faces, verts):
        B = object.__new__(self.ConvexPolyhedron)
        B.convex_polygons = list(faces)
        B.point_set = tuple(self.P(n) for n in verts)
        return B

    # ------------------------------------------------------------------ walking
    def snap(self, o, depth=0):
        if depth > 6:
            return ('deep',)
        if isinstance(o, K) or isinstance(o, HK):
            return ('sym', o.e)
        if isinstance(o, (list, tuple)):
            return (type(o).__name__,) + tuple(self.snap(i, depth + 1) for i in o)
        if isinstance(o, (int, float, str, bool, type(None))):
            return ('lit', repr(o))
        if hasattr(o, '__dict__'):
            return (type(o).__name__,) + tuple((k, self.snap(v, depth + 1)) for k, v in sorted(vars(o).items()))
        return ('other', type(o).__name__)

    def pure(self, obj, call):
        """-> a thunk running `call` on `obj` and refusing a change of the attribute tree of `obj`"""
        def f():
            before = self.snap(obj)
            r = call(obj)
            if self.snap(obj) != before:
                raise TypeError('the body writes to the object it hashes (attribute tree changed)')
            return r
        return f

    def explore(self, f):
        """every path of f: -> [(asked, result)] in depth-first order, the answer True first"""
        leaves, todo = [], [[]]
        while todo:
            s = todo.pop()
            REC.start(s)
            REC.default = None
            grow = Grow(REC)
            try:
                with grow:
                    res = f()
            except NeedMore:
                REC.reset()
                todo.append(s + [False])
                todo.append(s + [True])
                if len(todo) + len(leaves) > MAX_LEAVES:
                    raise Unscripted('more than %d paths' % MAX_LEAVES)
                continue
            except BaseException:
                REC.reset()
                raise
            leaves.append((REC.stop(), res))
        return leaves

    # ------------------------------------------------------------------ emission
    def hterm(self, e):
        t = e[0]
        if t == 'H':
            self.em.used.add('H')
            return '(H [%s])' % ', '.join(self.hitem(i) for i in e[1])
        if t in ('h+', 'h*'):
            return '(%s %s %s)' % (self.hterm(e[1]), t[1], self.hterm(e[2]))
        if t == 'hc':
            return '(%d : Int)' % e[1]
        if t == 'hrnd':
            if e[1] == 0:
                self.em.used.add('rndI')
                return '(rndI %s)' % self.hterm(e[2])
            self.em.used.add('rndIO')
            return '(rndIO (%d) %s)' % (e[1], self.hterm(e[2]))
        if t == 'call':
            info = self.kinfo[e[1]]
            self.em.used.update(info['params'])
            for nm, sh in info['oracles']:
                self.oracle(sh)
            args = []
            for comps in e[2]:
                o = None
                if all(c[0] == 'v' for c in comps):
                    os_ = [c[1].split('.') for c in comps]
                    if [x[1] for x in os_] == ['x', 'y', 'z'] and len({x[0] for x in os_}) == 1:
                        o = os_[0][0]
                args.append(o if o else '⟨%s⟩' % ', '.join(self.em.term(c) for c in comps))
            return '(impl_%s %s)' % (e[1], ' '.join(info['params'] + [nm for nm, _ in info['oracles']] + args))
        raise TypeError('cannot emit hash node %s' % t)

    def hitem(self, i):
        if i[0] == 'tag':
            return '.tag %s' % lean_string(i[1])
        if i[0] == 'num':
            return '.num %s' % self.em.term(i[1])
        if i[0] == 'int':
            return '.int %s' % self.hterm(i[1])
        raise TypeError('cannot emit item %s' % i[0])

    def oracle(self, sh):
        for nm, s in self.oracles:
            if s == sh:
                return nm
        nm = ORACLE_OF_SHAPE.get(sh) or 'cmp%d' % sum(1 for n, _ in self.oracles if n.startswith('cmp'))
        self.oracles.append((nm, sh))
        return nm

    def dtree(self, leaves, depth, ind):
        """Lean text of the decision tree over the leaves that agree on their first `depth` answers"""
        if len(leaves) == 1 and len(leaves[0][0]) == depth:
            r = leaves[0][1]
            if not isinstance(r, HK):
                raise TypeError('the result is not a symbolic hash value: %r' % (r,))
            return self.hterm(r.e)
        c0 = leaves[0][0][depth]
        for asked, _ in leaves:
            if len(asked) <= depth or asked[depth][:3] != c0[:3]:
                raise TypeError('paths with the same answers ask different comparisons')
        sh, holes = shape(c0)
        if len(holes) != 1:
            raise TypeError('comparison %s: %d tolerance-free operands, one expected' % (sh, len(holes)))
        yes = [l for l in leaves if l[0][depth][3]]
        no = [l for l in leaves if not l[0][depth][3]]
        if not yes or not no:
            raise TypeError('comparison %s explored on one side only' % sh)
        cond = '%s %s' % (self.oracle(sh), self.em.term(holes[0]))
        pad = '\n' + '  ' * ind
        return '(if %s then%s  %s%s else%s  %s)' % (cond, pad, self.dtree(yes, depth + 1, ind + 1), pad, pad, self.dtree(no, depth + 1, ind + 1))

    def define_hash(self, name, order, leaves, nvec=None):
        """noncomputable def impl_<name> <params> <oracles> (<order> : RVec) : Int := <decision tree>
        plus impl_<name>_oracles and impl_<name>_paths"""
        if name in self.names:
            raise TypeError('duplicate definition %s' % name)
        self.em.used, self.oracles = set(), []
        nums = []

        def numbers(e):
            # the number trees inside a hash tree (items, arguments of calls) / a comparison
            if e[0] == 'H':
                for i in e[1]:
                    if i[0] == 'num':
                        nums.append(i[1])
                    elif i[0] == 'int':
                        numbers(i[1])
            elif e[0] in ('h+', 'h*'):
                numbers(e[1]), numbers(e[2])
            elif e[0] == 'hrnd':
                numbers(e[2])
            elif e[0] == 'call':
                for comps in e[2]:
                    nums.extend(comps)
        for asked, r in leaves:
            if not isinstance(r, HK):
                raise TypeError('the result is not a symbolic hash value: %r' % (r,))
            numbers(r.e)
            for c in asked:
                nums.extend([c[1], c[2]])

        def no_rnd_under_sqrt(e, inside):
            if e[0] == 'rnd' and inside:
                raise TypeError('a rounded number under a square root')
            for s_ in e[1:]:
                if isinstance(s_, tuple):
                    no_rnd_under_sqrt(s_, inside or e[0] == 'sqrt')
        for t in nums:
            no_rnd_under_sqrt(t, False)
        self.share_sqrts(name, order, nums)
        body = self.dtree(leaves, 0, 1)
        self.unshare()
        trees = []

        def collect(e):
            if isinstance(e, tuple):
                if len(e) == 2 and e[0] == 'v' and isinstance(e[1], str):
                    trees.append(e)
                else:
                    for s_ in e:
                        collect(s_)
        for asked, r in leaves:
            collect(r.e)
            for c in asked:
                collect((c[1], c[2]))
        self.binder(trees, order)       # every variable belongs to a declared argument
        params = [p for p in PARAM_ORDER if p in self.em.used]
        sig = ' '.join('(%s : %s)' % (p, PARAM_TYPE[p]) for p in params)
        if self.oracles:
            sig += ' (%s : ℝ → Bool)' % ' '.join(nm for nm, _ in self.oracles)
        self.names.add(name)
        self.out.append('noncomputable def impl_%s %s (%s : RVec) : Int :=\n  %s' % (name, sig, ' '.join(order), body))
        self.out.append('def impl_%s_oracles : List (String × String) := [%s]'
                        % (name, ', '.join('("%s", "%s")' % o for o in self.oracles)))
        self.out.append('def impl_%s_paths : List (List (String × Bool)) := [%s]'
                        % (name, ', '.join('[%s]' % ', '.join('("%s", %s)' % (shape(c)[0], 'true' if c[3] else 'false') for c in asked)
                                           for asked, _ in leaves)))
        offs = []

        def offsets(e):
            if isinstance(e, tuple):
                if len(e) == 3 and e[0] in ('rnd', 'hrnd') and isinstance(e[1], int):
                    if e[1] not in offs:
                        offs.append(e[1])
                for s_ in e:
                    offsets(s_)
        for asked, r in leaves:
            offsets(r.e)
            for c in asked:
                offsets((c[1], c[2]))
        self.out.append('def impl_%s_roundings : List Int := [%s]' % (name, ', '.join(str(o) for o in sorted(offs))))
        self.kinfo[name] = dict(params=params, oracles=list(self.oracles), nvec=len(order) if nvec is None else nvec)
        self.em.used = None


class Grow:
    """while active, running out of scripted answers raises NeedMore instead of Unscripted"""
    def __init__(self, rec):
        self.rec = rec

    def __enter__(self):
        self.orig = self.rec.ask
        rec = self.rec

        def ask(op, l, r):
            if rec.script is None:
                raise Unscripted('comparison outside a walk')
            for c in rec.asked:
                if c[:3] == (op, l, r):
                    return c[3]      # the same comparison again on this path: the same answer, not a new branch
            if not rec.script:
                raise NeedMore()
            ans = rec.script.pop(0)
            rec.asked.append((op, l, r, ans))
            return ans
        rec.ask = ask

    def __exit__(self, *a):
        del self.rec.ask
        return False


# ================================================================================================ the kernels
def hash_of(w, cls, obj):
    fn = cls.__dict__.get('__hash__')
    if fn is None:
        raise TypeError('%s does not define __hash__ itself' % cls.__name__)
    return w.explore(w.pure(obj, fn))


def k_hash_Point(w):
    w.comment('`Point.__hash__`')
    p = w.P('p')
    w.define_hash('hash_Point', ['p'], hash_of(w, w.Point, p))
    w.summaries[w.Point] = lambda o: ('hash_Point', [w.pt(o)])


def k_hash_Vector(w):
    w.comment('`Vector.__hash__`')
    v = w.V('v')
    w.define_hash('hash_Vector', ['v'], hash_of(w, w.Vector, v))
    w.summaries[w.Vector] = lambda o: ('hash_Vector', [list(o)])


def k_hash_Plane(w):
    w.comment('`Plane.__hash__` as a function of the attributes it reads: the point `p` and the STORED normal `n` (a unit vector in')
    w.comment('every constructed Plane).  Paths: first significant component of n at index 0 / 1 / 2, negative / positive; none.')
    pl = w.plane_attr('p', 'n')
    w.define_hash('hash_Plane', ['p', 'n'], hash_of(w, w.Plane, pl))
    w.summaries[w.Plane] = lambda o: ('hash_Plane', [w.pt(o.p), list(o.n)])


def k_hash_Line(w):
    w.comment('`Line.__hash__` as a function of the attributes sv, dv: `d = dv.normalized()`, sign canonicalisation, foot of the origin')
    l = w.line_pv(w.P('sv'), w.V('dv'))
    w.define_hash('hash_Line', ['sv', 'dv'], hash_of(w, w.Line, l))
    w.summaries[w.Line] = lambda o: ('hash_Line', [list(o.sv), list(o.dv)])


def k_hash_Segment(w):
    w.comment('`Segment.__hash__`: `hash(("Segment", hash(a) + hash(b), hash(a) * hash(b)))`')
    s = w.segment_pp(w.P('a'), w.P('b'))
    w.define_hash('hash_Segment', ['a', 'b'], hash_of(w, w.Segment, s))
    w.summaries[w.Segment] = lambda o: ('hash_Segment', [w.pt(o.start_point), w.pt(o.end_point)])


def k_hash_HalfLine(w):
    w.comment('`HalfLine.__hash__`: `hash(point)` and `hash(vector.normalized())`, sum and product')
    h = w.halfline_pv(w.P('p'), w.V('v'))
    w.define_hash('hash_HalfLine', ['p', 'v'], hash_of(w, w.HalfLine, h))
    w.summaries[w.HalfLine] = lambda o: ('hash_HalfLine', [w.pt(o.point), list(o.vector)])


POLY_NAMES = 'abcdefgh'


def polygon_summary(w):
    def f(o):
        k = len(o.points)
        return ('hash_ConvexPolygon%d' % k, [w.pt(p) for p in o.points] + [w.pt(o.plane.p), list(o.plane.n)])
    return f


def k_polygon(k):
    def walk(w):
        names = list(POLY_NAMES[:k])
        order = names + ['pp', 'pn']
        w.comment('ConvexPolygon with %d vertices (attributes `points` = [%s], `plane` = (pp, pn), pn the stored unit normal)'
                  % (k, ', '.join(names)))
        P = w.polygon(names, 'pp', 'pn')
        cls = w.ConvexPolygon
        w.comment('`ConvexPolygon._get_point_hash_sum`')
        w.define_hash('pointHashSum_ConvexPolygon%d' % k, order, w.explore(w.pure(P, cls.__dict__['_get_point_hash_sum'])))
        w.comment('`ConvexPolygon.__hash__`: `-self.plane` is built by the real `Plane.__neg__` / constructor (normalises -n)')
        w.define_hash('hash_ConvexPolygon%d' % k, order, hash_of(w, cls, P))
        w.summaries[cls] = polygon_summary(w)
    return walk


def k_polygonWithNormal(k):
    def walk(w):
        names = list(POLY_NAMES[:k])
        order = names + ['pp', 'pn']
        w.comment('`ConvexPolygon.hash_with_normal`, %d vertices' % k)
        P = w.polygon(names, 'pp', 'pn')
        w.define_hash('hashWithNormal_ConvexPolygon%d' % k, order, w.explore(w.pure(P, w.ConvexPolygon.__dict__['hash_with_normal'])))
    return walk


def k_polyhedron(tag, sizes, nverts):
    def walk(w):
        faces, order = [], []
        for i, k in enumerate(sizes):
            names = ['f%d%s' % (i, c) for c in POLY_NAMES[:k]]
            faces.append(w.polygon(names, 'f%dp' % i, 'f%dn' % i))
            order += names + ['f%dp' % i, 'f%dn' % i]
        verts = ['v%d' % i for i in range(nverts)]
        order += verts
        w.comment('ConvexPolyhedron with faces of %s vertices and %d vertices (attributes `convex_polygons`, `point_set`; face i has'
                  % (', '.join(str(k) for k in sizes), nverts))
        w.comment('points f<i>a.., plane (f<i>p, f<i>n); the vertex list v0.. stands in for the set `point_set`)')
        B = w.polyhedron(faces, verts)
        cls = w.ConvexPolyhedron
        w.comment('`ConvexPolyhedron._get_polygon_hash_sum`')
        w.define_hash('polygonHashSum_ConvexPolyhedron_%s' % tag, order, w.explore(w.pure(B, cls.__dict__['_get_polygon_hash_sum'])))
        w.comment('`ConvexPolyhedron._get_point_hash_sum`')
        w.define_hash('pointHashSum_ConvexPolyhedron_%s' % tag, order, w.explore(w.pure(B, cls.__dict__['_get_point_hash_sum'])))
        w.comment('`ConvexPolyhedron.__hash__`')
        w.define_hash('hash_ConvexPolyhedron_%s' % tag, order, hash_of(w, cls, B))
    return walk


KERNELS = [('hash_Point', k_hash_Point), ('hash_Vector', k_hash_Vector), ('hash_Plane', k_hash_Plane), ('hash_Line', k_hash_Line),
           ('hash_Segment', k_hash_Segment), ('hash_HalfLine', k_hash_HalfLine),
           ('hash_ConvexPolygon3', k_polygon(3)), ('hash_ConvexPolygon4', k_polygon(4)),
           ('hashWithNormal_ConvexPolygon3', k_polygonWithNormal(3)),
           ('hash_ConvexPolyhedron_tetra', k_polyhedron('tetra', [3, 3, 3, 3], 4)),
           ('hash_ConvexPolyhedron_pyramid', k_polyhedron('pyramid', [4, 3, 3, 3, 3], 5))]
WHAT = '__hash__ of Point, Vector, Plane, Line, Segment, HalfLine, ConvexPolygon (3, 4 vertices), ConvexPolyhedron (tetrahedron, square pyramid)'


def main(repo):
    w = HWalker(repo)
    w.failed = []
    for kname, fn in KERNELS:
        w.kernel(kname, fn)
    head = ['import G3D.Model.VecR', 'import G3D.Model.HashTree', 'import Mathlib.Analysis.Real.Sqrt',
            '/-! GENERATED by tools/extract_khash.py (engine tools/khash_engine.py on tools/kernels_engine.py): %s' % WHAT,
            '    The real method bodies are run on symbolic numbers with `hash`, `round`, `get_sig_figures`, `get_eps` shimmed in the module',
            '    globals.  H = the uninterpreted hash of a tuple, rnd / rndI = the uninterpreted `round(., get_sig_figures())` on numbers /',
            '    on integers (rndO k / rndIO k: `get_sig_figures() + k` digits), sig / neg = the uninterpreted answers to the comparisons',
            '    `abs(R) > eps` / `R < 0` — do not edit.',
            '    kernels: %s -/' % ', '.join(k for k, _ in KERNELS),
            'set_option linter.unusedVariables false', 'namespace G3D.Extracted', 'open G3D', '']
    sys.stdout.write('\n'.join(head + w.out + ['', 'end G3D.Extracted', '']))
    if w.failed:
        sys.stderr.write('kernels withheld: %s\n' % ', '.join(w.failed))


def run_as_script(path):
    if len(sys.argv) != 2:
        raise SystemExit('usage: extract_khash.py <repo>')
    main(sys.argv[1])
