#!/usr/bin/env python3
"""copies the meta.json files written by the eval_matrix workers back into /verif/seeded"""
import glob, os, shutil
n = 0
for mp in glob.glob('/tmp/vf_*/seeded/*/meta.json'):
    sid = os.path.basename(os.path.dirname(mp))
    import json
    m = json.load(open(mp))
    if 'detected_by' in m or ('confirmed' in m and not m['confirmed'].get('ok')):
        dst = os.path.join('/verif/seeded', sid, 'meta.json')
        old = json.load(open(dst))
        if 'detected_by' not in old or old.get('matrix_stamp') != m.get('matrix_stamp'):
            shutil.copy(mp, dst)
            n += 1
print('merged', n)
