#!/venv/bin/python
"""Translator T5, group `hpolyhedron`: handler bodies -> lean/G3D/Extracted/Hpolyhedron.lean  (engine and documentation: tools/hextract.py)
usage: extract_hpolyhedron.py <repo>      (Lean source on stdout)"""
import os, sys
sys.dont_write_bytecode = True
sys.path.insert(0, os.path.dirname(os.path.abspath(__file__)))
import hextract
hextract.main('hpolyhedron', sys.argv)
