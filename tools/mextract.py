#!/venv/bin/python
"""Translator T6 (shared engine): the BODIES of the METHODS of the geometry classes (Geometry3D/geometry/*.py)
->  lean/G3D/Extracted/M{flat,polygon,polyhedron,calc}.lean.  Used through the thin wrappers tools/extract_mflat.py,
extract_mpolygon.py, extract_mpolyhedron.py, extract_mcalc.py (module-level `parallel` / `orthogonal` of calc/angle.py: no `self`;
a call of the function itself with swapped operands is the model's `pyGeo_<name>`, like every generic inner call) (`extract_<group>.py <repo>`: Lean source of ONE group on stdout).
The groups are independent: no generated file imports another one, so an edit of one Python class rewrites exactly one
generated file.  The engine extends tools/hextract.py (same statement / expression table, same fault isolation: a method
that cannot be translated becomes `def m_<Class>_<method>_EXTRACTION_FAILED : String`, the message also goes to stderr,
exit status 0; a method of the same class that calls it fails likewise; exit 1 only when a source file cannot be parsed).

Every method `Class.meth(self, a, ..)` becomes ONE Lean definition `m_<Class>_<meth> (self : Self) (a : Val) ..`
over the vocabulary of lean/G3D/Model/PyRt.lean + PyRtM.lean.  Additions to the table of hextract.py:

  Python                                   Lean
  ---------------------------------------  ------------------------------------------------------------------
  self.x   (read)                          (← pyFld self.f_x)                     (attribute record `Self`, see PyRtM.lean)
  self.x = e                               self := { self with f_x := some ⟦e⟧ }
  self.x[i] = e                            x assigned from list(..) in this method: pySetItemM; from tuple(..): ⟦e⟧ is
                                           evaluated, then `throw BErr.typeMismatch` (TypeError: tuples are immutable)
  self.x[i] += e                           pySetItemM (pyFld self.f_x) i (pyAdd (pyIndexM .. i) ⟦e⟧)    (in-place on a Vector)
  self.x.move(v)        (statement)        self := { self with f_x := some (← pyMoveInPlace (← pyFld self.f_x) ⟦v⟧) }
  self.x.add(e) / .append(e)               self := { self with f_x := some (← pySetAddM / pyListAppend ..) }
  self                  (as a value)       (← pyPack_<Class> self)
  self.class_level                         the constant of the class body
  self.meth(a)          (own class)        m_<Class>_<meth> self ⟦a⟧; a method that assigns attributes returns
                                           (self', result): `let r ← ..; self := r.1` (statement or whole right-hand side only)
  self.parallel(o)      (GeoBody)          pyGeo_parallel (← pyPack_<Class> self) ⟦o⟧
  return e   in a method assigning attrs   return (self, ⟦e⟧)           (falling off the end: (self, None))
  yield e                                  the generator is read eagerly: appended to a list that is returned
  p = e      (p a parameter)               `let mut p := p` at the top, then an ordinary rebinding
  x, y, z = (0, 0, 0)                      three bindings (constants only)
  i0 = i     (i a range-loop variable / int local)   alias of an immutable value: allowed
  raise ValueError(..) / NotImplementedError / IndexError / TypeError
                                           throw (BErr.ctor CErr.value) / BErr.notImpl / (BErr.ctor CErr.index) / BErr.typeMismatch
  return NotImplementedError("")           throw BErr.typeMismatch   (an exception INSTANCE as a value: not modelled; reported)
  a < c + get_eps(), a > -get_eps(), ..    pyCmpTol op plus ⟦a⟧ ⟦c⟧   (eps = positive infinitesimal; c = 0 when absent)
  u.length() < get_eps()                   pyCmpTol .lt true (← pyMeth_normSq ⟦u⟧) 0
  a / u.length() / u.length()              pyDivLenSq ⟦a⟧ ⟦u⟧
  (u.normalized() - w.normalized()).length() < get_eps()          pySameDir ⟦u⟧ ⟦w⟧
  hash(a) == hash(b)                       REJECTED: equal hashes are not equality (CPython: hash(-1) == hash(-2); defect D12)
  sorted(set(p), key=p.index)              pyDedupFirst ⟦p⟧
  d = dict(); [a = math.atan2(z, y); if a < 0: a += 2 * math.pi; d[a] = p]; [d[k] for k in sorted(d)]
                                           d : AngDict := pyAngDictNew; d ← pyAngDictSet d ⟦y⟧ ⟦z⟧ ⟦p⟧; pyAngDictSortedValues d
  acc += s.length()                        acc ← pySqrtSumAdd acc ⟦s⟧
  u * v, a / b, -x, x[i], a == b, a in b   pyMulM, pyDiv, pyNegM, pyIndexM, pyEqM, pyInM
  abs(x) float(x) p.pv() u.cross(v) u.normalized() u.orthogonal(v) o.in_(c) x.move(v)
                                           pyAbs pyFloat pyMeth_pv pyMeth_cross pyMeth_normalized pyMeth_orthogonal pyMeth_in_ pyMoveRet
  Point(v) Point(a,b,c) Vector.zero() Line(a,b) Plane(p,n) Plane(a,b,c) Segment(a,b) HalfLine(a,b) Pyramid(cp,p,direct_call=d)
                                           pyPoint1 pyPoint3 pyVectorZero pyLineM pyPlane2 pyPlane3 pySegmentM pyHalfLineM pyPyramid

Scoping: as in hextract.py, plus HOISTING: a variable first assigned inside an `if` / `for` and read after it is declared
(`let mut x : Val := Val.none`) in front of that statement; a read of such a variable is accepted only where it is
definitely assigned on every path (else Python could raise UnboundLocalError: rejected).
`x.move(v)` used as an EXPRESSION yields the returned object; its in-place effect on `x` is dropped, which is accepted only
when `x` iterates over an attribute of `self`, every attribute of the class is re-assigned afterwards at the top level of the
same statement list, and no statement in between reads an attribute before its re-assignment (the mutated objects are dead:
nothing can observe them); otherwise rejected.
Besides the definition, every method gets `m_<Class>_<meth>_effects : List String`: the provenance of every value stored into
an attribute or returned (`copy` = rooted in copy.deepcopy, `new` = freshly computed, `param:x` = the caller's object,
`self.x` = an attribute's referent, `new Line(..)` = a reference-keeping constructor applied to ..), the in-place mutations
and the dropped effects.  The tie modules pin these lists (a missing deepcopy changes them)."""
import ast, sys, os
sys.dont_write_bytecode = True
sys.path.insert(0, os.path.dirname(os.path.abspath(__file__)))
import hextract
from hextract import Fail, Result, CMP

G = 'Geometry3D/geometry/'
ANGLE = 'Geometry3D/calc/angle.py'
LINE, PLANE, SEG, HL, PG, PH, PYR = (G + 'line.py', G + 'plane.py', G + 'segment.py', G + 'halfline.py',
                                     G + 'polygon.py', G + 'polyhedron.py', G + 'pyramid.py')
# group -> (file, class, method) in emission order preference (a callee is always emitted before its callers)
GROUPS = {
    'mflat': [
        (LINE, 'Line', '__init__'), (LINE, 'Line', '__contains__'), (LINE, 'Line', '__eq__'), (LINE, 'Line', 'move'),
        (PLANE, 'Plane', '_init_pn'), (PLANE, 'Plane', '__contains__'), (PLANE, 'Plane', '__eq__'),
        (PLANE, 'Plane', '__neg__'), (PLANE, 'Plane', 'move'),
        (SEG, 'Segment', '__init__'), (SEG, 'Segment', '__contains__'), (SEG, 'Segment', 'in_'),
        (SEG, 'Segment', '__eq__'), (SEG, 'Segment', 'move'),
        (HL, 'HalfLine', '__init__'), (HL, 'HalfLine', '__contains__'), (HL, 'HalfLine', 'in_'),
        (HL, 'HalfLine', '__eq__'), (HL, 'HalfLine', 'move'),
    ],
    'mpolygon': [
        (PG, 'ConvexPolygon', '_get_center_point'), (PG, 'ConvexPolygon', '_check_and_sort_points'),
        (PG, 'ConvexPolygon', '__init__'), (PG, 'ConvexPolygon', 'segments'), (PG, 'ConvexPolygon', '__contains__'),
        (PG, 'ConvexPolygon', 'in_'), (PG, 'ConvexPolygon', '__eq__'), (PG, 'ConvexPolygon', '__neg__'),
        (PG, 'ConvexPolygon', 'length'), (PG, 'ConvexPolygon', 'move'),
    ],
    'mpolyhedron': [
        (PYR, 'Pyramid', '__init__'),
        (PH, 'ConvexPolyhedron', '_get_center_point'), (PH, 'ConvexPolyhedron', '_check_normal'),
        (PH, 'ConvexPolyhedron', '_euler_check'), (PH, 'ConvexPolyhedron', '__init__'),
        (PH, 'ConvexPolyhedron', '__contains__'), (PH, 'ConvexPolyhedron', '__eq__'), (PH, 'ConvexPolyhedron', 'move'),
    ],
    # module-level functions (pseudo-class `@<module>`): the non-dispatch predicates of calc/angle.py
    'mcalc': [
        (ANGLE, '@angle', 'parallel'), (ANGLE, '@angle', 'orthogonal'),
    ],
}
# the attribute slots of `Self` (PyRtM.lean)
FIELDS = ['sv', 'dv', 'p', 'n', 'line', 'start_point', 'end_point', 'point', 'vector', 'points', 'plane', 'center_point',
          'convex_polygons', 'point_set', 'segment_set', 'pyramid_set', 'convex_polygon']
PACKABLE = ['Line', 'Plane', 'Segment', 'HalfLine', 'ConvexPolygon', 'ConvexPolyhedron', 'Pyramid']
MATTRS = ['x', 'y', 'z', 'class_level']
GEOBODY = {'parallel': 'pyGeo_parallel', 'orthogonal': 'pyGeo_orthogonal'}
KEEPS_REFS = ('Line', 'Plane', 'Pyramid')       # constructors that store the references they are given
BINOP = {ast.Mult: 'pyMulM', ast.Add: 'pyAdd', ast.Sub: 'pySub', ast.Div: 'pyDiv'}
FLIP = {ast.Lt: ast.Gt, ast.Gt: ast.Lt, ast.LtE: ast.GtE, ast.GtE: ast.LtE}
PURE_FMT = (ast.Constant, ast.Name, ast.Tuple, ast.BinOp, ast.Mod, ast.Call, ast.Attribute, ast.Load)


def is_self(e):
    return isinstance(e, ast.Name) and e.id == 'self'


def self_field(e):
    """e is `self.<f>` -> f"""
    return e.attr if isinstance(e, ast.Attribute) and is_self(e.value) else None


def is_call(e, name, nargs=None):
    return (isinstance(e, ast.Call) and isinstance(e.func, ast.Name) and e.func.id == name and not e.keywords
            and (nargs is None or len(e.args) == nargs))


def is_meth(e, name, nargs=None):
    return (isinstance(e, ast.Call) and isinstance(e.func, ast.Attribute) and e.func.attr == name and not e.keywords
            and (nargs is None or len(e.args) == nargs))


def is_eps(e):
    return is_call(e, 'get_eps', 0)


def same(a, b):
    return ast.dump(a) == ast.dump(b)


def pos(n):
    return (n.lineno, n.col_offset)


def endpos(n):
    return (n.end_lineno, n.end_col_offset)


class MFn(hextract.Fn):
    """translation of one method"""

    def __init__(self, eng, path, cls, node):
        super().__init__(eng, path, node)
        self.cls = cls
        self.modfn = cls.startswith('@')          # a module-level function (no self)
        self.name = '%s.%s' % (cls.lstrip('@'), node.name)
        self.lname = 'm_%s_%s' % (cls.lstrip('@'), node.name)
        self.mut = eng.mutates(cls, node.name)
        self.gen = any(isinstance(n, (ast.Yield, ast.YieldFrom)) for n in ast.walk(node))
        self.vtypes = {}          # local name -> 'AngDict'
        self.immut = set()        # local names known to hold an int
        self.fstatus = {}         # field -> 'list' | 'tuple'   (what this method last stored there)
        self.effects = []
        self.provs = {}
        self.depth = 0
        self.maybe_unbound = set()
        self.tmp = 0
        self.loopvars = {}        # loop variable -> the iterated expression
        self.stack = []           # enclosing statement lists with the index of the current statement
        self.loads = sorted((pos(n), n.id) for n in ast.walk(node) if isinstance(n, ast.Name) and isinstance(n.ctx, ast.Load))
        self.allnames = {n.id for n in ast.walk(node) if isinstance(n, ast.Name)}

    # ------------------------------------------------------------------ provenance (for the *_effects lists)
    def prov(self, e):
        if isinstance(e, ast.Constant):
            return {'const'}
        if isinstance(e, ast.Name):
            if e.id == 'self':
                return {'self'}
            if e.id in self.provs:
                return set(self.provs[e.id])
            if e.id in self.params:
                return {'param:' + e.id}
            return {'?' + e.id}
        if self_field(e):
            return {'self.' + e.attr}
        if isinstance(e, (ast.Attribute, ast.Subscript)):
            return {'ref:' + ast.unparse(e)}
        if isinstance(e, ast.Call):
            f = e.func
            if isinstance(f, ast.Attribute) and f.attr == 'deepcopy' and isinstance(f.value, ast.Name) and f.value.id == 'copy':
                return {'copy'}
            if isinstance(f, ast.Name) and f.id in KEEPS_REFS:
                return {'new %s(%s)' % (f.id, ', '.join(self.provstr(a) for a in e.args))}
            if isinstance(f, ast.Name) and f.id in ('list', 'tuple', 'sorted', 'set') and e.args:
                # a new container holding the SAME element objects
                return {'new[%s]' % self.provstr(e.args[0])}
            return {'new'}
        return {'new'}

    def provstr(self, e):
        return '|'.join(sorted(self.prov(e)))

    def note_local(self, name, e):
        p = self.prov(e)
        if self.depth > 0 and name in self.provs:
            p |= self.provs[name]
        elif self.depth > 0 and name in self.params:
            p |= {'param:' + name}
        self.provs[name] = p

    # ------------------------------------------------------------------ expressions
    def pack(self):
        if self.cls not in PACKABLE:
            self.fail(self.node, 'class %s cannot be packed into a value' % self.cls)
        return 'pyPack_%s self' % self.cls

    def is_normalized(self, e):
        return is_meth(e, 'normalized', 0)

    def eps_side(self, e):
        """e is `get_eps()`, `-get_eps()`, `c + get_eps()`, `get_eps() + c`, `c - get_eps()` -> (c or None, plus)"""
        if is_eps(e):
            return (None, True)
        if isinstance(e, ast.UnaryOp) and isinstance(e.op, ast.USub) and is_eps(e.operand):
            return (None, False)
        if isinstance(e, ast.BinOp) and isinstance(e.op, ast.Add):
            if is_eps(e.right):
                return (e.left, True)
            if is_eps(e.left):
                return (e.right, True)
        if isinstance(e, ast.BinOp) and isinstance(e.op, ast.Sub) and is_eps(e.right):
            return (e.left, False)
        return None

    def has_eps(self, e):
        return any(is_eps(n) for n in ast.walk(e))

    def expr(self, e):
        if isinstance(e, ast.Name) and isinstance(e.ctx, ast.Load):
            if e.id == 'self':
                return self.pack(), True
            if e.id in self.maybe_unbound:
                self.fail(e, 'variable %s may be unbound here (assigned only on some paths)' % e.id)
            if e.id in self.vtypes:
                self.fail(e, 'the %s %s is used as a value' % (self.vtypes[e.id], e.id))
            return super().expr(e)
        if isinstance(e, ast.Attribute):
            if is_self(e.value):
                if e.attr == 'class_level':
                    lv = self.eng.classes[self.cls]['level']
                    if lv is None:
                        self.fail(e, 'class %s has no constant class_level' % self.cls)
                    return '(Val.int %d)' % lv, False
                if e.attr not in FIELDS:
                    self.fail(e, 'unknown attribute self.%s' % e.attr)
                return 'pyFld self.f_%s' % e.attr, True
            if e.attr in hextract.ATTRS:
                return 'pyAttr_%s %s' % (e.attr, self.val(e.value)), True
            if e.attr in MATTRS:
                return 'pyAttrM_%s %s' % (e.attr, self.val(e.value)), True
            self.fail(e, 'unknown attribute .%s' % e.attr)
        if isinstance(e, ast.UnaryOp) and isinstance(e.op, ast.USub) and not isinstance(e.operand, ast.Constant):
            if self.has_eps(e):
                self.fail(e, 'get_eps() outside a tolerance comparison')
            return 'pyNegM %s' % self.val(e.operand), True
        if isinstance(e, ast.BinOp):
            if type(e.op) not in BINOP:
                self.fail(e, 'unsupported binary operator %s' % type(e.op).__name__)
            if isinstance(e.op, ast.Div) and isinstance(e.left, ast.BinOp) and isinstance(e.left.op, ast.Div) \
                    and is_meth(e.right, 'length', 0) and is_meth(e.left.right, 'length', 0) \
                    and same(e.right.func.value, e.left.right.func.value):
                return 'pyDivLenSq %s %s' % (self.val(e.left.left), self.val(e.right.func.value)), True
            if isinstance(e.op, (ast.Add, ast.Sub)) and (self.is_normalized(e.left) or self.is_normalized(e.right)):
                self.fail(e, 'sum / difference of normalised vectors (not homogeneous: the unnormalised reading would be wrong)')
            return '%s %s %s' % (BINOP[type(e.op)], self.val(e.left), self.val(e.right)), True
        if isinstance(e, ast.Compare):
            if len(e.ops) != 1:
                self.fail(e, 'chained comparison')
            op, a, b = e.ops[0], e.left, e.comparators[0]
            if type(op) in CMP and (self.has_eps(a) or self.has_eps(b)):
                if self.has_eps(a) and not self.has_eps(b):
                    if not (is_eps(a) or (isinstance(a, ast.UnaryOp) and is_eps(a.operand))):
                        self.fail(e, 'get_eps() on the left-hand side of a comparison together with another operand '
                                     '(evaluation order)')
                    op, a, b = FLIP[type(op)](), b, a
                side = self.eps_side(b)
                if side is None or self.has_eps(a):
                    self.fail(e, 'get_eps() in an unsupported position of a comparison')
                c, plus = side
                ctext = '(Val.int 0)' if c is None else self.val(c)
                plus = 'true' if plus else 'false'
                if c is None and isinstance(op, ast.Lt) and plus == 'true' and is_meth(a, 'length', 0):
                    inner = a.func.value
                    if isinstance(inner, ast.BinOp) and isinstance(inner.op, ast.Sub) and self.is_normalized(inner.left) \
                            and self.is_normalized(inner.right):
                        return 'pySameDir %s %s' % (self.val(inner.left.func.value), self.val(inner.right.func.value)), True
                    return 'pyCmpTol .lt true (← pyMeth_normSq %s) (Val.int 0)' % self.val(inner), True
                return 'pyCmpTol %s %s %s %s' % (CMP[type(op)], plus, self.val(a), ctext), True
            if isinstance(op, (ast.Eq, ast.NotEq)) and is_call(a, 'hash', 1) and is_call(b, 'hash', 1):
                self.fail(e, 'hash(..) == hash(..) used as equality: equal hashes do not imply equal objects (not modelled)')
            if isinstance(op, ast.Eq):
                return 'pyEqM %s %s' % (self.val(a), self.val(b)), True
            if isinstance(op, ast.NotEq):
                return 'pyNeM %s %s' % (self.val(a), self.val(b)), True
            if isinstance(op, ast.In):
                return 'pyInM %s %s' % (self.val(a), self.val(b)), True
            if isinstance(op, ast.NotIn):
                return '(pyNot (← pyInM %s %s))' % (self.val(a), self.val(b)), False
            return super().expr(e)
        if isinstance(e, ast.Subscript):
            if isinstance(e.slice, (ast.Slice, ast.Tuple)):
                self.fail(e, 'slice / tuple subscript')
            if isinstance(e.value, ast.Name) and e.value.id in self.vtypes:
                self.fail(e, 'subscript of the %s %s outside the recognised idiom' % (self.vtypes[e.value.id], e.value.id))
            return 'pyIndexM %s %s' % (self.val(e.value), self.val(e.slice)), True
        if isinstance(e, (ast.Yield, ast.YieldFrom, ast.ListComp, ast.Dict, ast.Lambda, ast.IfExp)):
            self.fail(e, 'unsupported expression %s' % type(e).__name__)
        return super().expr(e)

    def own_call(self, e):
        """e is `self.m(args)` with m translated in this group -> (callee Result) or None"""
        f = e.func
        if isinstance(f, ast.Attribute) and is_self(f.value) and (self.cls, f.attr) in self.eng.keys:
            return self.eng.result(self.cls, f.attr)
        return None

    def own_call_text(self, e, callee):
        if not callee.ok:
            self.fail(e, 'calls the method %s whose extraction failed' % callee.name)
        a = self.args(e, len(callee.fn.params))
        if callee.name not in self.calls:
            self.calls.append(callee.name)
        return '%s self%s' % (callee.fn.lname, ''.join(' ' + x for x in a))

    def call(self, e):
        f = e.func
        if isinstance(f, ast.Name) and not self.declared(f.id):
            n = f.id
            if self.modfn and n in self.eng.classes[self.cls]['methods']:
                if n == self.node.name and n in GEOBODY:
                    # self-recursion is accepted only as the call with the two operands SWAPPED (it lands on another,
                    # non-recursive branch); it is read as the model's function, as every generic inner call
                    if not (len(self.params) == 2 and len(e.args) == 2 and not e.keywords
                            and all(isinstance(x, ast.Name) for x in e.args)
                            and [x.id for x in e.args] == self.params[::-1]):
                        self.fail(e, 'recursive call of %s other than with the two operands swapped' % n)
                    a = self.args(e, len(self.params))
                    return '%s %s' % (GEOBODY[n], ' '.join(a)), True
                if (self.cls, n) in self.eng.keys and n != self.node.name:
                    callee = self.eng.result(self.cls, n)
                    if not callee.ok:
                        self.fail(e, 'calls the function %s whose extraction failed' % n)
                    a = self.args(e, len(callee.fn.params))
                    return '%s %s' % (callee.fn.lname, ' '.join(a)), True
                self.fail(e, 'call of the function %s of the same module, which is not translated' % n)
            if n == 'null':
                return 'pyNull %s' % self.args(e, 1)[0], True
            if n == 'abs':
                return 'pyAbs %s' % self.args(e, 1)[0], True
            if n == 'float':
                return 'pyFloat %s' % self.args(e, 1)[0], True
            if n == 'Point':
                a = self.args(e, (1, 3))
                return ('pyPoint1 %s' % a[0] if len(a) == 1 else 'pyPoint3 %s %s %s' % tuple(a)), True
            if n == 'Line':
                return 'pyLineM %s %s' % tuple(self.args(e, 2)), True
            if n == 'Plane':
                a = self.args(e, (2, 3))
                return ('pyPlane2 %s %s' % tuple(a) if len(a) == 2 else 'pyPlane3 %s %s %s' % tuple(a)), True
            if n == 'Segment':
                return 'pySegmentM %s %s' % tuple(self.args(e, 2)), True
            if n == 'HalfLine':
                return 'pyHalfLineM %s %s' % tuple(self.args(e, 2)), True
            if n == 'Pyramid':
                a = self.args(e, 2, kw=('direct_call',))
                kws = {k.arg: self.val(k.value) for k in e.keywords}
                return 'pyPyramid %s %s %s' % (a[0], a[1], kws.get('direct_call', '(Val.bool true)')), True
            if n == 'sorted':
                if (len(e.args) == 1 and len(e.keywords) == 1 and e.keywords[0].arg == 'key' and is_call(e.args[0], 'set', 1)
                        and isinstance(e.keywords[0].value, ast.Attribute) and e.keywords[0].value.attr == 'index'
                        and same(e.keywords[0].value.value, e.args[0].args[0])):
                    return 'pyDedupFirst %s' % self.val(e.args[0].args[0]), True
                self.fail(e, 'sorted(..) outside the recognised idioms')
            if n == 'get_eps':
                self.fail(e, 'get_eps() outside a tolerance comparison')
            if n in ('intersection', 'dict', 'hash', 'round', 'type') or n in hextract.GROUP_OF or n in hextract.HANDLERS \
                    or n == 'get_relative_projection_length':
                self.fail(e, 'call of %s is not part of the method fragment' % n)
            return super().call(e)
        if isinstance(f, ast.Attribute):
            m = f.attr
            if isinstance(f.value, ast.Name) and f.value.id == 'Vector' and not self.declared('Vector'):
                if m == 'zero':
                    self.args(e, 0)
                    return 'pyVectorZero', False
                self.fail(e, 'unknown function Vector.%s' % m)
            if isinstance(f.value, ast.Name) and f.value.id == 'copy' and not self.declared('copy'):
                return super().call(e)
            if is_self(f.value):
                callee = self.own_call(e)
                if callee is not None:
                    if callee.ok and callee.fn.mut:
                        self.fail(e, 'the attribute-assigning method self.%s() is used inside an expression' % m)
                    return self.own_call_text(e, callee), True
                if m in self.eng.classes[self.cls]['methods']:
                    self.fail(e, 'self.%s() is a method of %s that is not translated' % (m, self.cls))
                if m in GEOBODY:
                    a = self.args(e, 1)
                    return '%s (← %s) %s' % (GEOBODY[m], self.pack(), a[0]), True
                self.fail(e, 'unknown method self.%s()' % m)
            if m == 'pv':
                self.args(e, 0)
                return 'pyMeth_pv %s' % self.val(f.value), True
            if m == 'normalized':
                self.args(e, 0)
                return 'pyMeth_normalized %s' % self.val(f.value), True
            if m == 'cross':
                a = self.args(e, 1)
                return 'pyMeth_cross %s %s' % (self.val(f.value), a[0]), True
            if m == 'orthogonal':
                a = self.args(e, 1)
                return 'pyMeth_orthogonal %s %s' % (self.val(f.value), a[0]), True
            if m == 'in_':
                a = self.args(e, 1)
                return 'pyMeth_in_ %s %s' % (self.val(f.value), a[0]), True
            if m == 'length':
                self.fail(e, '.length() outside a tolerance comparison / the recognised idioms (a square root)')
            if m == 'move':
                r = f.value
                if isinstance(r, ast.Call):
                    return super().call(e)
                a = self.args(e, 1)
                self.check_dropped_move(e, r)
                return 'pyMoveRet %s %s' % (self.val(r), a[0]), True
            if m in ('intersection', 'union'):
                self.fail(e, 'call of .%s() is not part of the method fragment' % m)
            return super().call(e)
        return super().call(e)

    def check_dropped_move(self, e, r):
        """`x.move(v)` as an expression: the in-place effect on x is dropped; x must iterate over an attribute of self and
        every attribute of the class must be re-assigned later at the top level of the method"""
        if not (isinstance(r, ast.Name) and r.id in self.loopvars and self_field(self.loopvars[r.id])):
            self.fail(e, '.move() as an expression on something that is not a loop variable over an attribute of self '
                         '(its in-place effect cannot be dropped)')
        after = set()
        # the statement list that contains the loop at its top level: every later statement may read an attribute only
        # after that attribute has been re-assigned (the old referents were mutated in place, which this reading drops)
        for lst, k in self.stack:
            if pos(lst[k]) <= pos(e) <= endpos(lst[k]) and isinstance(lst[k], ast.For) \
                    and same(lst[k].iter, self.loopvars[r.id]):
                for s in lst[k + 1:]:
                    target = None
                    if isinstance(s, ast.Assign) and len(s.targets) == 1 and self_field(s.targets[0]):
                        target = s.targets[0].attr
                    stale = sorted(self.eng.field_reads(self.cls, s.value if target else s) - after)
                    if stale:
                        self.fail(e, 'the in-place effect of %s.move() cannot be dropped: self.%s is read before it is re-assigned'
                                  % (r.id, ', self.'.join(stale)))
                    if target:
                        after.add(target)
        fields = self.eng.classes[self.cls]['fields']
        missing = [x for x in fields if x not in after]
        if missing:
            self.fail(e, 'the in-place effect of %s.move() cannot be dropped: self.%s is not re-assigned afterwards'
                      % (r.id, ', self.'.join(missing)))
        self.effects.append('dropped: in-place effect of %s.move(..) on the elements of self.%s (dead: self.%s re-assigned afterwards)'
                            % (r.id, self_field(self.loopvars[r.id]), ', self.'.join(fields)))

    # ------------------------------------------------------------------ statements
    def setfld(self, f, text, out, ind):
        out.append('%sself := { self with f_%s := some %s }' % (ind, f, text))

    def need_mut(self, s):
        if not self.mut:
            self.fail(s, 'internal: attribute store in a method not classified as attribute-assigning')

    def fresh(self):
        self.tmp += 1
        n = 'ret_m%d' % self.tmp
        if n in self.allnames:
            self.fail(self.node, 'the name %s is reserved' % n)
        return n

    def bind(self, node, name, text, monadic, out, ind, ty='Val'):
        ln = self.lean_name(name)
        self.maybe_unbound.discard(name)
        if self.declared(name):
            out.append('%s%s %s %s' % (ind, ln, '←' if monadic else ':=', text))
        else:
            self.scopes[-1].add(name)
            out.append('%slet mut %s : %s %s %s' % (ind, ln, ty, '←' if monadic else ':=', text))

    def assigned_names(self, s):
        r = set()
        for n in ast.walk(s):
            if isinstance(n, ast.Name) and isinstance(n.ctx, ast.Store):
                r.add(n.id)
        if isinstance(s, ast.For):
            for n in ast.walk(s.target):
                if isinstance(n, ast.Name):
                    r.discard(n.id)
        return r

    @staticmethod
    def da(stmts):
        """names definitely assigned when control falls through this statement list; None = cannot fall through"""
        out = set()
        for s in stmts:
            if isinstance(s, (ast.Return, ast.Raise, ast.Continue, ast.Break)):
                return None
            if isinstance(s, (ast.Assign, ast.AugAssign)):
                for t in (s.targets if isinstance(s, ast.Assign) else [s.target]):
                    for n in ast.walk(t):
                        if isinstance(n, ast.Name) and isinstance(n.ctx, ast.Store):
                            out.add(n.id)
            if isinstance(s, ast.If):
                a, b = MFn.da(s.body), MFn.da(s.orelse)
                if a is None and b is None:
                    return None
                out |= b if a is None else a if b is None else (a & b)
        return out

    def atan2_idiom(self, stmts, k):
        """stmts[k:k+3] = `a = math.atan2(z, y)`; `if a < 0: a += 2 * math.pi`; `d[a] = p`  -> (a, z, y, d, p) or None"""
        if k + 2 >= len(stmts):
            return None
        s0, s1, s2 = stmts[k:k + 3]
        if not (isinstance(s0, ast.Assign) and len(s0.targets) == 1 and isinstance(s0.targets[0], ast.Name)
                and is_meth(s0.value, 'atan2', 2) and isinstance(s0.value.func.value, ast.Name) and s0.value.func.value.id == 'math'):
            return None
        a = s0.targets[0].id
        two_pi = lambda x: (isinstance(x, ast.BinOp) and isinstance(x.op, ast.Mult)
                            and sorted([ast.unparse(x.left), ast.unparse(x.right)]) == ['2', 'math.pi'])
        if not (isinstance(s1, ast.If) and not s1.orelse and len(s1.body) == 1 and isinstance(s1.test, ast.Compare)
                and len(s1.test.ops) == 1 and isinstance(s1.test.ops[0], ast.Lt) and isinstance(s1.test.left, ast.Name)
                and s1.test.left.id == a and isinstance(s1.test.comparators[0], ast.Constant) and s1.test.comparators[0].value == 0
                and isinstance(s1.body[0], ast.AugAssign) and isinstance(s1.body[0].op, ast.Add)
                and isinstance(s1.body[0].target, ast.Name) and s1.body[0].target.id == a and two_pi(s1.body[0].value)):
            return None
        if not (isinstance(s2, ast.Assign) and len(s2.targets) == 1 and isinstance(s2.targets[0], ast.Subscript)
                and isinstance(s2.targets[0].value, ast.Name) and isinstance(s2.targets[0].slice, ast.Name)
                and s2.targets[0].slice.id == a and self.vtypes.get(s2.targets[0].value.id) == 'AngDict'):
            return None
        # the angle variable must not be used anywhere else
        uses = [p for p, n in self.loads if n == a]
        inside = [p for p in uses if pos(s0) <= p <= endpos(s2)]
        if len(uses) != len(inside):
            return None
        return (a, s0.value.args[0], s0.value.args[1], s2.targets[0].value.id, s2.value)

    def block(self, stmts, ind, new_scope=None):
        self.scopes.append(set(new_scope or ()))
        out = []
        k = 0
        self.stack.append([stmts, 0])
        while k < len(stmts):
            s = stmts[k]
            self.stack[-1][1] = k
            idi = self.atan2_idiom(stmts, k)
            if idi is not None:
                a, z, y, d, p = idi
                self.provs[d] = self.provs.get(d, set()) | self.prov(p)
                out.append('%s%s ← pyAngDictSet %s %s %s %s' % (ind, self.lean_name(d), self.lean_name(d),
                                                               self.val(y), self.val(z), self.val(p)))
                k += 3
                continue
            if isinstance(s, (ast.If, ast.For)):
                names = sorted(n for n in self.assigned_names(s) if not self.declared(n) and n not in self.vtypes)
                end = endpos(s)
                hoist = [n for n in names if any(p > end and m == n for p, m in self.loads)]
                for n in hoist:
                    self.scopes[-1].add(n)
                    out.append('%slet mut %s : Val := Val.none' % (ind, self.lean_name(n)))
                before = set(self.maybe_unbound)
                self.stmt(s, out, ind)
                d = self.da([s])
                for n in hoist:
                    if d is not None and n not in d:
                        self.maybe_unbound.add(n)
                    else:
                        self.maybe_unbound.discard(n)
            else:
                self.stmt(s, out, ind)
            k += 1
        self.stack.pop()
        self.scopes.pop()
        if all(x.strip().startswith('--') for x in out):
            out.append(ind + 'pure ()')
        return out

    def pure_format(self, x):
        """an exception argument that only formats a message"""
        for n in ast.walk(x):
            if isinstance(n, ast.Call):
                f = n.func
                if not ((isinstance(f, ast.Name) and f.id in ('type', 'str', 'repr'))
                        or (isinstance(f, ast.Attribute) and f.attr == 'format')):
                    return False
            elif not isinstance(n, (ast.Constant, ast.Name, ast.Tuple, ast.BinOp, ast.Mod, ast.Attribute, ast.Load,
                                    ast.expr_context, ast.operator)):
                return False
        return True

    def raise_text(self, s, x):
        if not (isinstance(x, ast.Call) and isinstance(x.func, ast.Name) and not x.keywords
                and all(self.pure_format(a) for a in x.args)):
            self.fail(s, 'unsupported exception expression %s' % ast.unparse(x))
        table = {'ValueError': 'throw (BErr.ctor CErr.value)', 'NotImplementedError': 'throw BErr.notImpl',
                 'IndexError': 'throw (BErr.ctor CErr.index)', 'TypeError': 'throw BErr.typeMismatch',
                 'ZeroDivisionError': 'throw (BErr.ctor CErr.zeroDiv)'}
        if x.func.id not in table:
            self.fail(s, 'raise of %s' % ast.unparse(x))
        return table[x.func.id]

    def ret(self, text, out, ind):
        if self.gen:
            out.append('%sreturn gen_acc' % ind)
        elif self.mut:
            out.append('%sreturn (self, %s)' % (ind, text))
        else:
            out.append('%sreturn %s' % (ind, text))

    def stmt(self, s, out, ind):
        if isinstance(s, ast.Expr):
            v = s.value
            if isinstance(v, ast.Yield):
                if v.value is None:
                    self.fail(s, 'bare yield')
                out.append('%sgen_acc ← pyListAppend gen_acc %s' % (ind, self.val(v.value)))
                return
            if isinstance(v, ast.Call) and isinstance(v.func, ast.Attribute) and not self.is_logger_call(s):
                f = v.func
                callee = self.own_call(v)
                if callee is not None:
                    t = self.own_call_text(v, callee)
                    if callee.fn.mut:
                        self.need_mut(s)
                        r = self.fresh()
                        out.append('%slet %s ← %s' % (ind, r, t))
                        out.append('%sself := %s.1' % (ind, r))
                        self.effects.append('call self.%s() (assigns attributes)' % f.attr)
                    else:
                        out.append('%slet _ ← %s' % (ind, t))
                    return
                fld = self_field(f.value)
                if fld is not None and f.attr in ('add', 'append', 'move'):
                    self.need_mut(s)
                    if fld not in FIELDS:
                        self.fail(s, 'unknown attribute self.%s' % fld)
                    a = self.args(v, 1)
                    if f.attr == 'move':
                        self.setfld(fld, '(← pyMoveInPlace (← pyFld self.f_%s) %s)' % (fld, a[0]), out, ind)
                        self.effects.append('inplace: self.%s.move(..)' % fld)
                    else:
                        prim = 'pySetAddM' if f.attr == 'add' else 'pyListAppend'
                        self.setfld(fld, '(← %s (← pyFld self.f_%s) %s)' % (prim, fld, a[0]), out, ind)
                    return
                if f.attr == 'move':
                    self.fail(s, '.move() statement on something that is not an attribute of self (aliasing is not modelled)')
            return super().stmt(s, out, ind)
        if isinstance(s, ast.Assign):
            if len(s.targets) != 1:
                self.fail(s, 'multiple assignment targets')
            t, v = s.targets[0], s.value
            fld = self_field(t)
            if fld is not None:
                self.need_mut(s)
                if fld not in FIELDS:
                    self.fail(s, 'unknown attribute self.%s' % fld)
                callee = self.own_call(v) if isinstance(v, ast.Call) else None
                if callee is not None and callee.ok and callee.fn.mut:
                    r = self.fresh()
                    out.append('%slet %s ← %s' % (ind, r, self.own_call_text(v, callee)))
                    out.append('%sself := %s.1' % (ind, r))
                    self.setfld(fld, '%s.2' % r, out, ind)
                else:
                    self.setfld(fld, self.val(v), out, ind)
                self.fstatus.pop(fld, None)
                if is_call(v, 'tuple', 1):
                    self.fstatus[fld] = 'tuple'
                elif is_call(v, 'list', 1) or isinstance(v, ast.List):
                    self.fstatus[fld] = 'list'
                self.effects.append('store: self.%s = %s' % (fld, self.provstr(v)))
                return
            if isinstance(t, ast.Subscript) and self_field(t.value) is not None:
                self.need_mut(s)
                fld = self_field(t.value)
                st = self.fstatus.get(fld)
                if st == 'list':
                    r = self.fresh()     # Python evaluates the right-hand side first
                    out.append('%slet %s : Val := %s' % (ind, r, self.val(v)))
                    self.setfld(fld, '(← pySetItemM (← pyFld self.f_%s) %s %s)' % (fld, self.val(t.slice), r), out, ind)
                    self.effects.append('store: self.%s[..] = %s' % (fld, self.provstr(v)))
                elif st == 'tuple':
                    out.append('%slet _ := %s' % (ind, self.val(v)))
                    out.append('%slet _ ← pyFld self.f_%s' % (ind, fld))
                    out.append('%slet _ := %s' % (ind, self.val(t.slice)))
                    out.append('%sthrow BErr.typeMismatch  -- item assignment to a tuple (TypeError)' % ind)
                    self.effects.append('store: self.%s[..] on a tuple (TypeError)' % fld)
                else:
                    self.fail(s, 'item assignment to self.%s, which this method did not assign from list(..) / tuple(..)' % fld)
                return
            if isinstance(t, ast.Tuple):
                if not (all(isinstance(x, ast.Name) for x in t.elts) and isinstance(v, ast.Tuple) and len(v.elts) == len(t.elts)
                        and all(isinstance(x, ast.Constant) and isinstance(x.value, int) for x in v.elts)):
                    self.fail(s, 'tuple assignment other than names = integer constants')
                for x, c in zip(t.elts, v.elts):
                    if x.id in self.params:
                        self.fail(s, 'tuple assignment to the parameter %s' % x.id)
                    self.bind(s, x.id, self.val(c), False, out, ind)
                    self.immut.add(x.id)
                    self.provs[x.id] = {'const'}
                return
            if not isinstance(t, ast.Name):
                self.fail(s, 'assignment to something that is not a variable or an attribute of self')
            n = t.id
            if n == 'self':
                self.fail(s, 'assignment to self')
            if is_call(v, 'dict', 0):
                if self.declared(n) or n in self.params:
                    self.fail(s, 'dict() re-assigned to an existing variable')
                self.vtypes[n] = 'AngDict'
                self.scopes[-1].add(n)
                out.append('%slet mut %s : AngDict := pyAngDictNew' % (ind, self.lean_name(n)))
                return
            if (isinstance(v, ast.ListComp) and len(v.generators) == 1 and not v.generators[0].ifs
                    and isinstance(v.generators[0].target, ast.Name) and is_call(v.generators[0].iter, 'sorted', 1)
                    and isinstance(v.generators[0].iter.args[0], ast.Name)
                    and self.vtypes.get(v.generators[0].iter.args[0].id) == 'AngDict'
                    and isinstance(v.elt, ast.Subscript) and isinstance(v.elt.value, ast.Name)
                    and v.elt.value.id == v.generators[0].iter.args[0].id and isinstance(v.elt.slice, ast.Name)
                    and v.elt.slice.id == v.generators[0].target.id):
                self.bind(s, n, 'pyAngDictSortedValues %s' % self.lean_name(v.elt.value.id), False, out, ind)
                self.provs[n] = {'new[%s]' % '|'.join(sorted(self.provs.get(v.elt.value.id, {'?'})))}
                return
            if isinstance(v, ast.Name) and v.id != 'self':
                if v.id not in self.immut:
                    self.fail(s, 'alias assignment %s = %s (mutation through aliases is not modelled)' % (n, v.id))
                self.immut.add(n)
            elif isinstance(v, ast.Constant) and isinstance(v.value, int) or is_call(v, 'len', 1):
                self.immut.add(n)
            else:
                self.immut.discard(n)
            callee = self.own_call(v) if isinstance(v, ast.Call) else None
            if callee is not None and callee.ok and callee.fn.mut:
                self.need_mut(s)
                r = self.fresh()
                out.append('%slet %s ← %s' % (ind, r, self.own_call_text(v, callee)))
                out.append('%sself := %s.1' % (ind, r))
                text, m = '%s.2' % r, False
            else:
                text, m = self.expr(v)
            self.note_local(n, v)
            self.bind(s, n, text, m, out, ind)
            return
        if isinstance(s, ast.AugAssign):
            t = s.target
            if isinstance(t, ast.Subscript) and self_field(t.value) is not None:
                self.need_mut(s)
                fld = self_field(t.value)
                if fld not in FIELDS:
                    self.fail(s, 'unknown attribute self.%s' % fld)
                if type(s.op) not in BINOP:
                    self.fail(s, 'unsupported augmented assignment %s' % type(s.op).__name__)
                i = self.val(t.slice)
                cur = '(← pyIndexM (← pyFld self.f_%s) %s)' % (fld, i)
                new = '(← %s %s %s)' % (BINOP[type(s.op)], cur, self.val(s.value))
                self.setfld(fld, '(← pySetItemM (← pyFld self.f_%s) %s %s)' % (fld, i, new), out, ind)
                self.effects.append('inplace: self.%s[..] %s= ..' % (fld, {ast.Add: '+', ast.Sub: '-', ast.Mult: '*', ast.Div: '/'}[type(s.op)]))
                return
            if not isinstance(t, ast.Name):
                self.fail(s, 'augmented assignment to something that is not a variable or an item of an attribute of self')
            n = t.id
            if n in self.maybe_unbound:
                self.fail(s, 'variable %s may be unbound here' % n)
            if not self.declared(n):
                self.fail(s, 'variable %s is used where it is not (definitely) bound' % n)
            if n in self.vtypes:
                self.fail(s, 'augmented assignment to the %s %s' % (self.vtypes[n], n))
            if isinstance(s.op, ast.Add) and is_meth(s.value, 'length', 0):
                self.bind(s, n, 'pySqrtSumAdd %s %s' % (self.lean_name(n), self.val(s.value.func.value)), True, out, ind)
                return
            if isinstance(s.op, ast.BitOr):
                prim = 'pySetUnion'
            elif type(s.op) in BINOP:
                prim = BINOP[type(s.op)]
            else:
                self.fail(s, 'unsupported augmented assignment %s' % type(s.op).__name__)
            self.bind(s, n, '%s %s %s' % (prim, self.lean_name(n), self.val(s.value)), True, out, ind)
            return
        if isinstance(s, ast.For):
            if isinstance(s.target, ast.Name):
                self.loopvars[s.target.id] = s.iter
                if is_call(s.iter, 'range'):
                    self.immut.add(s.target.id)
                else:
                    self.immut.discard(s.target.id)
                self.provs[s.target.id] = {'elem:' + self.provstr(s.iter)}
            for n in ast.walk(s):
                if isinstance(n, ast.Assign) and len(n.targets) == 1 and self_field(n.targets[0]):
                    self.fstatus.pop(n.targets[0].attr, None)      # re-assigned somewhere in the loop: status unknown
            self.depth += 1
            r = super().stmt(s, out, ind)
            self.depth -= 1
            return r
        if isinstance(s, ast.If):
            self.depth += 1
            saved = dict(self.fstatus)
            r = super().stmt(s, out, ind)
            if self.fstatus != saved:
                # keep only what holds on every path: forget
                self.fstatus = {k: v for k, v in self.fstatus.items() if saved.get(k) == v}
            self.depth -= 1
            return r
        if isinstance(s, ast.Return):
            if s.value is None:
                self.ret('Val.none', out, ind)
                return
            if self.gen:
                self.fail(s, 'return with a value inside a generator')
            v = s.value
            if is_call(v, 'NotImplementedError') or is_call(v, 'ValueError') or is_call(v, 'TypeError'):
                out.append('%sthrow BErr.typeMismatch  -- returns an exception INSTANCE as a value (not modelled)' % ind)
                self.effects.append('anomaly: returns %s (an exception instance) instead of raising it' % ast.unparse(v))
                return
            callee = self.own_call(v) if isinstance(v, ast.Call) else None
            if callee is not None and callee.ok and callee.fn.mut:
                self.fail(s, 'return of an attribute-assigning own method')
            if self.prov(v) - {'new', 'const'}:
                self.effects.append('return: %s' % self.provstr(v))
            self.ret(self.val(v), out, ind)
            return
        if isinstance(s, ast.Raise):
            if s.cause is not None or s.exc is None:
                self.fail(s, 'unsupported raise form')
            out.append(ind + self.raise_text(s, s.exc))
            return
        return super().stmt(s, out, ind)

    def translate(self):
        a = self.node.args
        if a.vararg or a.kwarg or a.kwonlyargs or a.posonlyargs or self.node.decorator_list:
            self.fail(self.node, 'unsupported signature')
        if not self.modfn and (not a.args or a.args[0].arg != 'self'):
            self.fail(self.node, 'first parameter is not self')
        for d in a.defaults:
            if not (isinstance(d, ast.Constant) and (d.value is None or isinstance(d.value, (bool, int)))):
                self.fail(self.node, 'non-constant default value')
        self.params = [x.arg for x in (a.args if self.modfn else a.args[1:])]
        ndef = len(a.defaults)
        defaults = {p.arg: ast.unparse(d) for p, d in zip(a.args[len(a.args) - ndef:], a.defaults)} if ndef else {}
        reassigned = sorted({n.id for n in ast.walk(self.node) if isinstance(n, ast.Name) and isinstance(n.ctx, ast.Store)
                             and n.id in self.params})
        pre = []
        if self.mut:
            pre.append('  let mut self : Self := self')
        for p in reassigned:
            pre.append('  let mut %s : Val := %s' % (self.lean_name(p), self.lean_name(p)))
        if self.gen:
            if 'gen_acc' in self.allnames:
                self.fail(self.node, 'the name gen_acc is reserved')
            pre.append('  let mut gen_acc : Val := Val.seq []')
        lines = self.block(self.node.body, '  ', new_scope=self.params)
        if lines == ['  pure ()']:
            lines = []
        if self.falls_through(self.node.body):
            tmp = []
            self.ret('Val.none', tmp, '  ')
            lines.extend(tmp)
        rty = 'PyM Val' if not self.mut or self.gen else 'PyM (Self × Val)'
        if self.gen and self.mut:
            self.fail(self.node, 'a generator that assigns attributes')
        sig = ', '.join(([] if self.modfn else ['self']) + [p + ('=' + defaults[p] if p in defaults else '') for p in self.params])
        head = '/-- %s `%s.%s(%s)`%s -/\ndef %s %s%s: %s := do' % (
            self.path, self.cls.lstrip('@'), self.node.name, sig,
            ' — assigns attributes: returns (self\', result)' if self.mut else
            ' — generator, read eagerly' if self.gen else '',
            self.lname, '' if self.modfn else '(self : Self) ', ''.join('(%s : Val) ' % self.lean_name(p) for p in self.params), rty)
        eff = 'def %s_effects : List String := [%s]' % (
            self.lname, ', '.join('"%s"' % x.replace('\\', '\\\\').replace('"', '\\"') for x in self.effects))
        return head + '\n' + '\n'.join(pre + lines) + '\n' + eff + '\n'


class Engine:
    def __init__(self, group, repo):
        self.group, self.repo = group, repo
        self.results, self.busy, self.order = {}, set(), []
        self.mods, self.classes = {}, {}
        self.keys = [(c, m) for _, c, m in GROUPS[group]]
        for path in sorted({p for p, _, _ in GROUPS[group]}):
            try:
                self.mods[path] = ast.parse(open(os.path.join(repo, path)).read())
            except (OSError, SyntaxError, ValueError) as ex:
                sys.stderr.write('extract_%s: cannot parse %s: %s\n' % (group, path, ex))
                sys.exit(1)
        for path, cls, _ in GROUPS[group]:
            if cls in self.classes:
                continue
            if cls.startswith('@'):
                info = {'path': path, 'node': self.mods[path], 'methods': {}, 'level': None, 'fields': []}
                for n in self.mods[path].body:
                    if isinstance(n, ast.FunctionDef):
                        info['methods'].setdefault(n.name, []).append(n)
                self.classes[cls] = info
                continue
            defs = [n for n in self.mods[path].body if isinstance(n, ast.ClassDef) and n.name == cls]
            info = {'path': path, 'node': defs[0] if len(defs) == 1 else None, 'methods': {}, 'level': None, 'fields': []}
            if info['node'] is not None:
                for n in info['node'].body:
                    if isinstance(n, ast.FunctionDef):
                        info['methods'].setdefault(n.name, []).append(n)
                    if (isinstance(n, ast.Assign) and len(n.targets) == 1 and isinstance(n.targets[0], ast.Name)
                            and n.targets[0].id == 'class_level' and isinstance(n.value, ast.Constant)
                            and isinstance(n.value.value, int)):
                        info['level'] = n.value.value
                flds = []
                for n in ast.walk(info['node']):
                    if isinstance(n, ast.Attribute) and is_self(n.value) and isinstance(n.ctx, ast.Store) and n.attr not in flds:
                        flds.append(n.attr)
                info['fields'] = sorted(flds)
            self.classes[cls] = info
        self._mut = {}

    def mutates(self, cls, meth, seen=()):
        """does the method assign attributes of self (directly or through own methods)?"""
        if (cls, meth) in self._mut:
            return self._mut[(cls, meth)]
        nodes = self.classes[cls]['methods'].get(meth, [])
        r = False
        for node in nodes:
            for n in ast.walk(node):
                if isinstance(n, ast.Attribute) and is_self(n.value) and isinstance(n.ctx, ast.Store):
                    r = True
                if isinstance(n, ast.Subscript) and isinstance(n.ctx, ast.Store) and self_field(n.value):
                    r = True
                if isinstance(n, ast.Expr) and isinstance(n.value, ast.Call) and isinstance(n.value.func, ast.Attribute) \
                        and n.value.func.attr in ('add', 'append', 'move', 'extend', 'remove', 'pop', 'clear', 'update', 'sort') \
                        and self_field(n.value.func.value):
                    r = True
                if isinstance(n, ast.Call) and isinstance(n.func, ast.Attribute) and is_self(n.func.value) \
                        and n.func.attr in self.classes[cls]['methods'] and (cls, n.func.attr) not in seen \
                        and n.func.attr != meth:
                    if self.mutates(cls, n.func.attr, seen + ((cls, meth),)):
                        r = True
        self._mut[(cls, meth)] = r
        return r

    def field_reads(self, cls, node, seen=()):
        """attributes of self that evaluating `node` may read (through own methods too)"""
        r = set()
        for n in ast.walk(node):
            if isinstance(n, ast.Attribute) and is_self(n.value):
                if n.attr in self.classes[cls]['methods']:
                    if (cls, n.attr) not in seen:
                        for d in self.classes[cls]['methods'][n.attr]:
                            r |= self.field_reads(cls, d, seen + ((cls, n.attr),))
                elif isinstance(n.ctx, ast.Load):
                    r.add(n.attr)
        return r - {'class_level'}

    def result(self, cls, meth):
        key = (cls, meth)
        name = '%s.%s' % (cls.lstrip('@'), meth)
        if key in self.results:
            return self.results[key]
        if key in self.busy:
            return Result(name, error='%s:0: direct recursion between extracted methods' % name)
        self.busy.add(key)
        info = self.classes[cls]
        defs = info['methods'].get(meth, []) if info['node'] is not None else []
        if len(defs) != 1:
            r = Result(name, error='%s:0: expected exactly one definition in class %s of %s, found %d'
                                   % (name, cls.lstrip('@'), info['path'], len(defs)))
        else:
            fn = MFn(self, info['path'], cls, defs[0])
            try:
                r = Result(name, fn=fn, text=fn.translate())
            except Fail as ex:
                r = Result(name, fn=fn, error=str(ex))
        self.busy.discard(key)
        self.results[key] = r
        self.order.append(key)
        return r

    def run(self):
        for _, c, m in GROUPS[self.group]:
            self.result(c, m)
        files = ' and '.join(sorted({p for p, _, _ in GROUPS[self.group]}))
        out = ['import G3D.Model.PyRtM',
               '/-! GENERATED by tools/extract_%s.py (engine tools/mextract.py) from %s — do not edit' % (self.group, files),
               '',
               '    One definition `m_<Class>_<method>` per Python method, translated statement by statement from the Python AST',
               '    into the vocabulary of G3D/Model/PyRt.lean + PyRtM.lean (tables: docstrings of tools/hextract.py, mextract.py).',
               '    `self` is the record of attributes `Self`; a method that assigns attributes returns (self\', result);',
               '    `new_<Class>` = `__init__` on the blank record, then the packed object.  `m_.._effects` lists the provenance',
               '    of every stored / returned reference, in-place mutations and dropped effects.  A method that could not be',
               '    translated appears as `m_<Class>_<method>_EXTRACTION_FAILED : String` instead.',
               '    Trusted reading: see the header of G3D/Model/PyRtM.lean (aliasing, tolerance, normalisation, angle dictionary).',
               '    G3D/Proofs/MethodsTie*.lean prove every definition below equal to the hand-written model. -/',
               'set_option linter.unusedVariables false',
               'namespace G3D.Extracted',
               'open G3D G3D.PyRt',
               '']
        failed = []
        for key in self.order:
            r = self.results[key]
            lname = 'm_%s_%s' % (key[0].lstrip('@'), key[1])
            if r.ok:
                out.append(r.text)
                if key[1] == '__init__' and r.fn.mut and key[0] in PACKABLE:
                    ps = r.fn.params
                    out.append('/-- `%s(%s)`: `__init__` on the blank record, then the object with these attributes -/'
                               % (key[0], ', '.join(ps)))
                    out.append('def new_%s %s: PyM Val := do' % (key[0], ''.join('(%s : Val) ' % r.fn.lean_name(p) for p in ps)))
                    out.append('  let r ← %s Self.empty%s' % (lname, ''.join(' ' + r.fn.lean_name(p) for p in ps)))
                    out.append('  pyPack_%s r.1\n' % key[0])
            else:
                failed.append(lname)
                sys.stderr.write('extract_%s: %s\n' % (self.group, r.error))
                out.append('/-- `%s.%s` could NOT be translated -/' % (key[0].lstrip('@'), key[1]))
                out.append('def %s_EXTRACTION_FAILED : String := "%s"\n'
                           % (lname, r.error.replace('\\', '\\\\').replace('"', '\\"')))
        out.append('/-- the Python methods of this group, in emission order -/')
        out.append('def %sNames : List String := [%s]' % (self.group, ', '.join('"%s.%s"' % (k[0].lstrip('@'), k[1]) for k in self.order)))
        out.append('/-- those that could not be translated -/')
        out.append('def %sFailed : List String := [%s]' % (self.group, ', '.join('"%s"' % n for n in failed)))
        out.append('end G3D.Extracted')
        sys.stdout.write('\n'.join(out) + '\n')


def main(group, argv):
    if len(argv) != 2:
        sys.stderr.write('usage: extract_%s.py <repo>\n' % group)
        sys.exit(1)
    Engine(group, argv[1]).run()
