#!/venv/bin/python
"""Replays the baseline defects D1..D12 (DESIGN.md section 3) against the
real code in /repo (or G3D_SRC).  For each defect prints `Dk HOLDS` when the
property holds on that witness and `Dk FAILS <what>` otherwise.  Used to show
the failing input against the real code before a `fix:` commit and its absence
afterwards; the same witnesses live in harness/corpus and run first in every
check."""
import sys, os, logging
sys.path.insert(0, os.environ.get("G3D_SRC", "/repo"))
sys.dont_write_bytecode = True
import Geometry3D as g
from Geometry3D import *
from Geometry3D.utils.solver import solve
import Geometry3D.utils.constant as const
logging.disable(logging.CRITICAL)


def d1():
    sq = ConvexPolygon((Point(0, 0, 0), Point(1, 0, 0), Point(1, 1, 0), Point(0, 1, 0)))
    r = intersection(sq, Plane(Point(.5, 0, 0), Vector(1, 0, 0)))
    assert isinstance(r, Segment), r
    r2 = sq.intersection(Plane(Point(.5, 0, 0), Vector(1, 0, 0)))
    assert r2 == r


def d2():
    s = Segment(Point(0, 0, 0), Point(1, 0, 0))
    s.move(Vector(0, 1, 0))
    assert Point(.5, 1, 0) in s
    h = HalfLine(Point(0, 0, 0), Vector(1, 0, 0))
    h.move(Vector(0, 1, 0))
    assert Point(.5, 1, 0) in h


def d3():
    try:
        r = Plane(origin(), Vector(0, 0, 1)).move(3)
    except (NotImplementedError, TypeError, ValueError):
        return
    raise AssertionError("move(3) returned %r" % (r,))


def d4():
    assert not bool(solve([[0, 1, 1], [0, 1, 2]])), "inconsistent system reported solvable"
    s = solve([[0, 1, 2, 3]])
    t = s(1, 1)
    assert None not in t, t
    assert abs(0 * t[0] + 1 * t[1] + 2 * t[2] - 3) < 1e-9, t


def d5():
    p = Plane(0, 1, 2, 3)
    assert Point(0, 3, 0) in p and Point(5, 1, 1) in p
    u, v, w = Plane(origin(), Vector(0, 1, 1)).parametric()
    assert Plane(Point(u), v, w) == Plane(origin(), Vector(0, 1, 1))


def d6():
    d = distance(Line(origin(), Vector(1, 0, 0)), Line(Point(0, 1, 0), Vector(1, 0, 0)))
    assert abs(d - 1) < 1e-9, d


def d7():
    import math
    a = angle(Vector(3, 3, 0), Vector(-21, -21, 0))      # acute angle of the directions
    assert abs(a) < 1e-6, a
    b = Vector(3, 3, 0).angle(Vector(-21, -21, 0))       # Vector.angle is in [0, pi]
    assert abs(b - math.pi) < 1e-6, b


def d8():
    c = Circle(Point(1, 2, 3), Vector(-1, 0, 0), 2, 7)
    assert len(c.points) == 7


def d9():
    a, b = Line(origin(), Vector(1, 2, 3)), Line(Point(1, 2, 3), Vector(2, 4, 6))
    assert a == b and hash(a) == hash(b), "Line == but hash differs"
    p, q = Plane(Point(0, 0, 1), Vector(0, 0, 1)), Plane(Point(3, 4, 1), Vector(0, 0, -2))
    assert p == q and hash(p) == hash(q), "Plane == but hash differs"


def d10():
    try:
        set_eps(1e-5)
        a = Line(origin(), Vector(1, 0, 0))
        b = Line(Point(0, 1e-8, 0), Vector(1, 0, 0))
        assert a == b and hash(a) == hash(b), "lines 1e-8 apart at eps=1e-5: == %s hash-equal %s" % (a == b, hash(a) == hash(b))
        pa = ConvexPolygon((Point(0, 0, 0), Point(1, 0, 0), Point(1, 1, 0), Point(0, 1, 0)))
        pb = ConvexPolygon((Point(0, 0, 1e-8), Point(1, 0, 0), Point(1, 1, 0), Point(0, 1, 0)))
        assert pa == pb, "polygons 1e-8 apart at eps=1e-5 compare unequal"
    finally:
        set_eps()


def d11():
    sq = ConvexPolygon((Point(0, 0, 0), Point(1, 0, 0), Point(1, 1, 0), Point(0, 1, 0)))
    far = Line(Point(5, 5, 5), Vector(0, 0, 1))          # misses the square
    try:
        r = far in sq
    except (NotImplementedError, TypeError, ValueError):
        return
    assert not (r and intersection(far, sq) is None), "Line in ConvexPolygon is %r although intersection(line, polygon) is None" % (r,)


def d12():
    a = ConvexPolygon((Point(-2, 0, 0), Point(-2, 0, 1), Point(-2, 1, 1), Point(-2, 1, 0)))
    b = ConvexPolygon((Point(-1, 0, 0), Point(-1, 0, 1), Point(-1, 1, 1), Point(-1, 1, 0)))
    assert not (a == b), "the unit squares in the planes x = -2 and x = -1 compare equal (hash(-1) == hash(-2))"
    assert len({a, b}) == 2
    outer = Parallelepiped(Point(-2, -2, -2), Vector(4, 0, 0), Vector(0, 4, 0), Vector(0, 0, 4))
    inner = Parallelepiped(Point(-2, 0, 0), Vector(1, 0, 0), Vector(0, 1, 0), Vector(0, 0, 1))
    r = intersection(outer, inner)      # used to raise the Euler-check ValueError: one face was lost in a set
    assert r == inner and abs(r.volume() - 1) < 1e-9
    assert not (inner == Parallelepiped(Point(-1, 0, 0), Vector(1, 0, 0), Vector(0, 1, 0), Vector(0, 0, 1)))


ALL = dict(D12=d12, D11=d11, D1=d1, D2=d2, D3=d3, D4=d4, D5=d5, D6=d6, D7=d7, D8=d8, D9=d9, D10=d10)
if __name__ == "__main__":
    which = sys.argv[1:] or list(ALL)
    bad = 0
    for k in which:
        try:
            ALL[k]()
            print(k, "HOLDS")
        except BaseException as e:
            bad += 1
            print(k, "FAILS", type(e).__name__, str(e)[:120])
    sys.exit(1 if bad else 0)
