#!/venv/bin/python
"""Translator T1 (volume): the isinstance dispatch chain(s) -> Lean table(s); engine in tools/dispatch_engine.py.
usage: extract_dispvol.py <repo>      (Lean source on stdout; fails closed on unknown syntax)"""
import os, sys
sys.path.insert(0, os.path.dirname(os.path.abspath(__file__)))
import dispatch_engine
dispatch_engine.emit('vol', sys.argv[1])
