#!/venv/bin/python
"""Translator T3, file `khash`: the `__hash__` method bodies of Point, Vector, Plane, Line, Segment, HalfLine, ConvexPolygon,
ConvexPolyhedron run on symbolic numbers with `hash` / `round` / `get_sig_figures` / `get_eps` shimmed: see tools/khash_engine.py
(KERNELS) for the kernels walked.
usage: extract_khash.py <repo>      (Lean source for lean/G3D/Extracted/Khash.lean on stdout; a kernel whose walk fails is
replaced by `impl_<kernel>_EXTRACTION_FAILED`; a non-zero exit only for engine-level failures)"""
import sys, os
sys.dont_write_bytecode = True
sys.path.insert(0, os.path.dirname(os.path.abspath(__file__)))
import khash_engine
khash_engine.run_as_script(__file__)
