#!/venv/bin/python
"""Translator T5 (write effects): 
  (1) every syntactic mutation site in the package OUTSIDE the mutators themselves (`move`, `__setitem__`, `__init__`,
      and utils/constant.py): `.move(...)` calls, attribute / subscript stores, augmented assignments — each with the form
      of its receiver: `deepcopy` (rooted in copy.deepcopy(...), possibly through chained .move calls), `local`
      (a name bound in the same function to a freshly constructed object / list / dict / set / number), or `other`;
  (2) for the owning constructors (Segment, HalfLine, ConvexPolygon, ConvexPolyhedron): whether every data parameter is
      deep-copied before any other use.
usage: extract_effects.py <repo>"""
import ast, sys, os
repo = sys.argv[1]
pkg = os.path.join(repo, 'Geometry3D')
MUTATORS = {'move', '__setitem__', '__init__', '__neg__'}
sites = []


def ctor_helpers():
    """method names all of whose call sites (self.<name>(...)) are inside __init__ or inside another such helper"""
    calls = {}       # name -> set of enclosing function names
    for root, _, files in os.walk(pkg):
        for f in files:
            if not f.endswith('.py'):
                continue
            tree = ast.parse(open(os.path.join(root, f)).read())
            for fn in ast.walk(tree):
                if isinstance(fn, ast.FunctionDef):
                    for n in ast.walk(fn):
                        if isinstance(n, ast.Call) and isinstance(n.func, ast.Attribute) and isinstance(n.func.value, ast.Name) and n.func.value.id == 'self':
                            calls.setdefault(n.func.attr, set()).add(fn.name)
    helpers = set()
    changed = True
    while changed:
        changed = False
        for name, encl in calls.items():
            if name.startswith('_') and not name.startswith('__') and name not in helpers and encl and all(e == '__init__' or e in helpers for e in encl):
                helpers.add(name)
                changed = True
    return helpers


MUTATORS |= ctor_helpers()


def solve_args_fresh():
    """every call solve(<arg>) in the package passes a freshly built list (literal / list(...) / comprehension)"""
    ok = True
    n = 0
    for root, _, files in os.walk(pkg):
        for f in files:
            if not f.endswith('.py'):
                continue
            tree = ast.parse(open(os.path.join(root, f)).read())
            for c in ast.walk(tree):
                if isinstance(c, ast.Call) and isinstance(c.func, ast.Name) and c.func.id in ('solve', 'gaussian_elimination') and c.args:
                    a = c.args[0]
                    n += 1
                    fresh = isinstance(a, (ast.List, ast.ListComp)) or (isinstance(a, ast.Call) and isinstance(a.func, ast.Name) and a.func.id == 'list')
                    inside_solver = f == 'solver.py' and isinstance(a, ast.Name) and a.id == 'matrix'
                    if not (fresh or inside_solver):
                        ok = False
    return ok and n > 0


def root_form(expr, fresh_locals):
    """classify the receiver expression of a mutation"""
    e = expr
    while True:
        if isinstance(e, ast.Call) and isinstance(e.func, ast.Attribute) and e.func.attr == 'move':
            e = e.func.value
            continue
        break
    if isinstance(e, ast.Call) and isinstance(e.func, ast.Attribute) and e.func.attr == 'deepcopy':
        return 'deepcopy'
    if isinstance(e, ast.Call) and isinstance(e.func, ast.Name) and e.func.id == 'deepcopy':
        return 'deepcopy'
    if isinstance(e, ast.Name) and e.id in fresh_locals:
        return 'local'
    return 'other'


def fresh_names(fn):
    """names assigned in fn from literals / constructor-like calls / comprehensions (never from a parameter or attribute)"""
    params = {a.arg for a in fn.args.args + fn.args.kwonlyargs}
    fresh = set()
    tainted = set()
    for n in ast.walk(fn):
        if isinstance(n, (ast.Assign, ast.AugAssign, ast.AnnAssign)):
            targets = n.targets if isinstance(n, ast.Assign) else [n.target]
            v = n.value
            ok = isinstance(v, (ast.List, ast.Dict, ast.Set, ast.Tuple, ast.Constant, ast.ListComp, ast.BinOp, ast.UnaryOp, ast.Compare, ast.BoolOp)) or \
                (isinstance(v, ast.Call) and isinstance(v.func, ast.Name) and v.func.id in ('list', 'set', 'dict', 'tuple', 'len', 'sum', 'abs', 'float', 'int', 'round', 'min', 'max'))
            for t in targets:
                if isinstance(t, ast.Name):
                    (fresh if ok else tainted).add(t.id)
        if isinstance(n, ast.For) and isinstance(n.target, ast.Name):
            tainted.add(n.target.id)
    return (fresh - tainted) - params


class V(ast.NodeVisitor):
    def __init__(self, rel):
        self.rel = rel
        self.fn = []
        self.cls = []

    def visit_ClassDef(self, node):
        self.cls.append(node.name)
        self.generic_visit(node)
        self.cls.pop()

    def visit_FunctionDef(self, node):
        self.fn.append((node, fresh_names(node)))
        self.generic_visit(node)
        self.fn.pop()

    def cur(self):
        return self.fn[-1][0].name if self.fn else '<module>'

    def inside_mutator(self):
        return any(f.name in MUTATORS for f, _ in self.fn)

    def add(self, kind, node, recv):
        if not self.fn or self.inside_mutator():
            return
        form = root_form(recv, self.fn[-1][1])
        sites.append((self.rel, '.'.join(self.cls + [self.cur()]), node.lineno, kind, form))

    def visit_Call(self, node):
        if isinstance(node.func, ast.Attribute) and node.func.attr == 'move':
            self.add('move-call', node, node.func.value)
        if isinstance(node.func, ast.Name) and node.func.id == 'setattr':
            self.add('setattr', node, node.args[0])
        self.generic_visit(node)

    def store(self, t, node):
        if isinstance(t, ast.Attribute):
            self.add('attr-store', node, t.value)
        elif isinstance(t, ast.Subscript):
            self.add('item-store', node, t.value)
        elif isinstance(t, (ast.Tuple, ast.List)):
            for x in t.elts:
                self.store(x, node)

    def visit_Assign(self, node):
        for t in node.targets:
            self.store(t, node)
        self.generic_visit(node)

    def visit_AugAssign(self, node):
        self.store(node.target, node)
        self.generic_visit(node)


for root, _, files in os.walk(pkg):
    if 'visualization' in root:
        continue
    for f in sorted(files):
        if not f.endswith('.py'):
            continue
        path = os.path.join(root, f)
        rel = os.path.relpath(path, repo)
        if rel.endswith('utils/constant.py') or rel.endswith('utils/logger.py') or rel.endswith('__init__.py'):
            continue
        V(rel).visit(ast.parse(open(path).read()))


def ctor_copies(relpath, cls, data_params):
    tree = ast.parse(open(os.path.join(pkg, relpath)).read())
    c = next(n for n in tree.body if isinstance(n, ast.ClassDef) and n.name == cls)
    fn = next(n for n in c.body if isinstance(n, ast.FunctionDef) and n.name == '__init__')
    raw = set(data_params)
    ok = True
    allowed_wrappers = {'isinstance', 'len', 'type'}

    def is_deepcopy_of(call, name):
        return (isinstance(call, ast.Call) and ((isinstance(call.func, ast.Attribute) and call.func.attr == 'deepcopy') or (isinstance(call.func, ast.Name) and call.func.id == 'deepcopy'))
                and len(call.args) == 1 and isinstance(call.args[0], ast.Name) and call.args[0].id == name)

    def check_expr(e):
        nonlocal ok
        # parent-aware walk
        def walk(n, parent):
            nonlocal ok
            if isinstance(n, ast.Name) and isinstance(n.ctx, ast.Load) and n.id in raw:
                good = parent is not None and isinstance(parent, ast.Call) and (
                    is_deepcopy_of(parent, n.id) or (isinstance(parent.func, ast.Name) and parent.func.id in allowed_wrappers))
                if not good:
                    ok = False
            for ch in ast.iter_child_nodes(n):
                walk(ch, n)
        walk(e, None)
    for st in fn.body:
        if isinstance(st, ast.Assign) and len(st.targets) == 1 and isinstance(st.targets[0], ast.Name) and st.targets[0].id in raw and is_deepcopy_of(st.value, st.targets[0].id):
            raw.discard(st.targets[0].id)
            continue
        check_expr(st)
    return ok


ctors = [('Segment', 'geometry/segment.py', ['a', 'b']), ('HalfLine', 'geometry/halfline.py', ['a', 'b']),
         ('ConvexPolygon', 'geometry/polygon.py', ['pts']), ('ConvexPolyhedron', 'geometry/polyhedron.py', ['convex_polygons'])]
L = ['/-! GENERATED by tools/extract_effects.py — do not edit -/', 'namespace G3D.Extracted', '',
     'structure EffectSite where', '  file : String', '  fn : String', '  line : Nat', '  kind : String', '  receiver : String', 'deriving Repr, DecidableEq', '',
     '/-- mutation sites outside the mutators (`move`, `__setitem__`, `__init__`, `__neg__`) -/', 'def effectSites : List EffectSite := [']
L.append(',\n'.join('  ⟨"%s", "%s", %d, "%s", "%s"⟩' % s for s in sorted(set(sites))))
L += [']', '', '/-- methods treated as constructor code: every call site is inside __init__ -/',
      'def ctorHelpers : List String := [' + ', '.join('"%s"' % h for h in sorted(MUTATORS - {'move', '__setitem__', '__init__', '__neg__'})) + ']', '',
      '/-- every call of solve / gaussian_elimination (which eliminates in place) receives a freshly built matrix -/',
      'def solveArgsFresh : Bool := %s' % ('true' if solve_args_fresh() else 'false'), '',
      '/-- owning constructors: every data parameter is deep-copied before any other use -/',
      'def ownerCopies : List (String × Bool) := [' + ', '.join('("%s", %s)' % (c, 'true' if ctor_copies(p, c, ps) else 'false') for c, p, ps in ctors) + ']',
      '', 'end G3D.Extracted', '']
sys.stdout.write('\n'.join(L))
