#!/venv/bin/python
"""Engine of translator T3: symbolic execution of the ARITHMETIC KERNELS of the predicates and constructions.

A symbolic number type `K` (expression trees with + - * / neg abs sqrt pow, the tolerance as the
distinguished leaf `eps`) is pushed through the REAL methods of <repo>.  Every comparison the code
performs on a `K` is RECORDED (both operands as trees) and answered from the list of branch choices
scripted for the path to be walked; a comparison that was not scripted, a scripted answer that was
not consumed, a conversion to float/int/bool, an `==` on a symbolic number: all raise.
The library source is not edited: `get_eps` is replaced in the module globals by a function
returning the leaf `eps`, and the modules that call `float(x)` / `math.sqrt` / `math.acos` on
numbers get the shims `float = identity`, `math = shim` in their globals (process-local: the
extractor process ends after printing).

Fault isolation.  The kernels are split into GROUPS, one generated file per group and number type
(tools/extract_<file>.py -> lean/G3D/Extracted/<File>.lean):
    kvec  / kvecr      Vector.__eq__, Point.__eq__, orthogonal  /  length, normalized, parallel (+ shortcuts), angle cosine
    kmember / kmemberr Plane.__contains__(Point / Line), HalfLine.__contains__ (projection)  /
                       Line.__contains__, Segment.__contains__, HalfLine carrier line, Plane.__contains__ on the stored unit normal
    kinter / kinterr   inter_line_plane  /  inter_plane_plane
    kdist              Point.distance and calc/distance.py          (reals)
    kforms             general_form, point_normal, Line forms, Line constructor rejection   (rationals)
    karea              get_triangle_area, projection lengths        (reals)
Inside a file every KERNEL is walked on its own: when the walk of one kernel raises (unscripted
comparison, changed number of branches, unknown construct) the extractor still exits 0 and prints, for
that kernel only,
    def impl_<kernel>_EXTRACTION_FAILED : String := "<reason>"
INSTEAD of its definitions, so that exactly the tie theorems of that kernel stop compiling.  Only
engine-level problems (library not importable, ...) make the extractor fail as a whole.
Objects that a kernel merely needs (a Line to test membership in, ...) are built by the real
constructors in permissive mode (every comparison the constructor asks is answered False = "not
rejected"; should the constructor itself raise, the Line / Segment / HalfLine / raw Plane is assembled
from its attributes and a comment in the generated file says so); the constructors' own comparisons
and results are pinned by dedicated kernels (lineCtor,
lineCtorReject in kforms; halfLineCtor in kmember; segCtor, halfLineCtorLength in kmemberr).

Plane normals.  `Plane(p, n)` stores `n.normalized()`.  In the rational files the planes are built by
the real constructor and then `pl.n` is overwritten by the raw `Vector(n)` (the model keeps the
normal unnormalised; every predicate extracted there is homogeneous in n).  In the real files the
planes are used exactly as constructed: the factor `1/sqrt(n.n)` stays in the terms and the Lean
side cancels it.

For every kernel the generated file has
    impl_<kernel>_<piece>   one definition per maximal tolerance-free operand of a comparison / result component
    impl_<kernel>_path      List (String × Bool): the shape of EVERY comparison met on the path, in order, with the
                            scripted answer (shape = the operand trees with the tolerance-free parts replaced by R, S, ..)
    impl_<kernel>_shape     the shape of the deciding comparison (when there is one)"""
import sys, os, re, logging, importlib

sys.dont_write_bytecode = True


# ------------------------------------------------------------------------------------------------ symbolic numbers
class Unscripted(Exception):
    pass


class Recorder:
    """answers the comparisons from a script and keeps what was asked"""
    def __init__(self):
        self.script = None
        self.asked = []
        self.default = None

    def start(self, script, default=None):
        if self.script is not None:
            raise Unscripted('nested walk')
        self.script = list(script)
        self.asked = []
        self.default = default

    def reset(self):
        self.script, self.asked, self.default = None, [], None

    def stop(self):
        if self.script is None:
            raise Unscripted('stop without start')
        left, self.script = self.script, None
        if left:
            raise Unscripted('the code asked fewer comparisons than scripted: %d answers left (asked %r)'
                             % (len(left), [shape(c)[0] for c in self.asked]))
        asked, self.asked = self.asked, []
        return asked

    def ask(self, op, l, r):
        if self.script is None:
            raise Unscripted('comparison outside a scripted walk: %s' % shape((op, l, r, None))[0])
        if not self.script and self.default is None:
            raise Unscripted('the code asked more comparisons than scripted: %s (after %r)'
                             % (shape((op, l, r, None))[0], [shape(c)[0] for c in self.asked]))
        ans = self.script.pop(0) if self.script else self.default
        self.asked.append((op, l, r, ans))
        return ans


REC = Recorder()
EPS = ('eps',)


def embed(o):
    """tree of a python number that may meet a symbolic number"""
    if isinstance(o, K):
        return o.e
    if isinstance(o, bool):
        raise TypeError('bool met a symbolic number')
    if isinstance(o, int):
        return ('c', o, str(o))
    if isinstance(o, float):
        if o != o or o in (float('inf'), float('-inf')) or o != int(o):
            raise TypeError('non-integral float constant %r met a symbolic number' % (o,))
        return ('c', int(o), repr(o))
    raise TypeError('cannot embed %r' % (o,))


def ok(o):
    return isinstance(o, (K, int, float)) and not isinstance(o, bool)


class K:
    """expression tree; refuses conversion to float / int / bool and refuses `==`"""
    __slots__ = ('e',)

    def __init__(self, e):
        if not isinstance(e, tuple):
            e = embed(e)
        self.e = e

    def _bin(op):
        def f(self, o):
            if not ok(o):
                return NotImplemented
            return K((op, self.e, embed(o)))

        def r(self, o):
            if not ok(o):
                return NotImplemented
            return K((op, embed(o), self.e))
        return f, r
    __add__, __radd__ = _bin('+')
    __sub__, __rsub__ = _bin('-')
    __mul__, __rmul__ = _bin('*')
    __truediv__, __rtruediv__ = _bin('/')

    def __neg__(self):
        return K(('neg', self.e))

    def __pos__(self):
        return self

    def __abs__(self):
        return K(('abs', self.e))

    def __pow__(self, o):
        if isinstance(o, float) and o == 0.5:
            return K(('sqrt', self.e))
        if isinstance(o, int) and not isinstance(o, bool) and o >= 0:
            return K(('pow', self.e, o))
        raise TypeError('unsupported exponent %r' % (o,))

    def _cmp(op):
        def f(self, o):
            if not ok(o):
                return NotImplemented
            return REC.ask(op, self.e, embed(o))
        return f
    __lt__ = _cmp('<')
    __le__ = _cmp('<=')
    __gt__ = _cmp('>')
    __ge__ = _cmp('>=')

    def __eq__(self, o):
        raise TypeError('== on a symbolic number')

    def __ne__(self, o):
        raise TypeError('!= on a symbolic number')
    __hash__ = None

    def __bool__(self):
        raise TypeError('truth value of a symbolic number')

    def __float__(self):
        raise TypeError('float() of a symbolic number')

    def __int__(self):
        raise TypeError('int() of a symbolic number')

    def __index__(self):
        raise TypeError('index from a symbolic number')

    def __round__(self, n=None):
        raise TypeError('round() of a symbolic number')

    def __format__(self, spec):
        return 'sym'

    def __repr__(self):
        return 'K'

    def __deepcopy__(self, memo):
        return self

    def __copy__(self):
        return self


class MathShim:
    """stands in for the `math` module inside the library modules that apply it to numbers"""
    pi = K(('pi',))

    @staticmethod
    def sqrt(x):
        if not isinstance(x, K):
            raise TypeError('math.sqrt of a non-symbolic %r' % (x,))
        return K(('sqrt', x.e))

    @staticmethod
    def acos(x):
        if isinstance(x, (int, float)) and not isinstance(x, bool):
            # a literal reaches acos (the clamp of Vector.angle replaced the symbolic cosine): kept as a tagged leaf that
            # no emitter renders, for the kernel that asks for it (k_angleClamp)
            return K(('acos_literal', x))
        if not isinstance(x, K):
            raise TypeError('math.acos of a non-symbolic %r' % (x,))
        return K(('acos', x.e))

    def __getattr__(self, name):
        raise TypeError('math.%s is not modelled' % name)


def ident_float(x):
    if not isinstance(x, K):
        raise TypeError('float() of a non-symbolic %r' % (x,))
    return x


# ------------------------------------------------------------------------------------------------ trees -> text
def has(e, tag):
    return e[0] == tag or any(isinstance(s, tuple) and has(s, tag) for s in e[1:])


def shape(cmp_):
    """-> (shape string, [tolerance-free operand trees in order of appearance]).
    The tolerance-free maximal subtrees become R, S, T, ..; abs / unary minus / constants / eps stay visible."""
    op, l, r, _ = cmp_
    names = 'RSTUVW'
    holes = []

    def go(e):
        if e[0] == 'eps':
            return 'eps'
        if e[0] == 'c':
            return e[2]
        if e[0] == 'abs':
            return 'abs(%s)' % go(e[1])
        if e[0] == 'neg':
            return '-%s' % go(e[1])
        if not has(e, 'eps'):
            if e in holes:
                return names[holes.index(e)]
            holes.append(e)
            return names[len(holes) - 1]
        if e[0] in '+-*/':
            return '(%s %s %s)' % (go(e[1]), e[0], go(e[2]))
        raise TypeError('tolerance inside %s' % e[0])
    ls = go(l)
    rs = go(r)
    return '%s %s %s' % (ls, op, rs), holes


class Emit:
    """Lean text of a tree over Rat (sqrt-free) or over the reals"""
    def __init__(self, real):
        self.real = real
        self.ty = 'ℝ' if real else 'Rat'
        self.shared = {}     # sqrt tree -> text of the call of its auxiliary definition

    def term(self, e):
        t = e[0]
        if e in self.shared:
            return self.shared[e]
        if t == 'c':
            return '(%d : %s)' % (e[1], self.ty)
        if t == 'v':
            return e[1]
        if t in '+-*/' and len(e) == 3:
            return '(%s %s %s)' % (self.term(e[1]), t, self.term(e[2]))
        if t == 'neg':
            return '(-%s)' % self.term(e[1])
        if t == 'pow':
            return '(%s ^ %d)' % (self.term(e[1]), e[2])
        if not self.real:
            raise TypeError('%s node in a term meant for the rational file' % t)
        if t == 'abs':
            return '(abs %s)' % self.term(e[1])
        if t == 'sqrt':
            return '(Real.sqrt %s)' % self.term(e[1])
        raise TypeError('cannot emit node %s' % t)


def variables(e, acc=None):
    acc = [] if acc is None else acc
    if e[0] == 'v':
        if e[1] not in acc:
            acc.append(e[1])
    else:
        for s in e[1:]:
            if isinstance(s, tuple):
                variables(s, acc)
    return acc


# ------------------------------------------------------------------------------------------------ the walks
class Walker:
    def __init__(self, repo, real):
        self.real = real
        self.em = Emit(real)
        self.vt = 'RVec' if real else 'V3'
        self.out = []
        self.names = set()
        sys.path.insert(0, repo)
        logging.disable(logging.CRITICAL)
        import Geometry3D  # noqa
        g = importlib.import_module
        self.m = dict(vector=g('Geometry3D.utils.vector'), solver=g('Geometry3D.utils.solver'),
                      point=g('Geometry3D.geometry.point'), line=g('Geometry3D.geometry.line'),
                      plane=g('Geometry3D.geometry.plane'), segment=g('Geometry3D.geometry.segment'),
                      halfline=g('Geometry3D.geometry.halfline'), polygon=g('Geometry3D.geometry.polygon'),
                      intersection=g('Geometry3D.calc.intersection'), distance=g('Geometry3D.calc.distance'),
                      angle=g('Geometry3D.calc.angle'), acute=g('Geometry3D.calc.acute'),
                      aux=g('Geometry3D.calc.aux_calc'), constant=g('Geometry3D.utils.constant'))
        for k, mod in self.m.items():
            if k == 'constant':
                continue
            if hasattr(mod, 'get_eps'):
                mod.get_eps = lambda: K(EPS)
            # modules applying float()/math to numbers
            if hasattr(mod, 'math'):
                mod.math = MathShim()
            mod.float = ident_float
        self.Vector, self.Point = self.m['vector'].Vector, self.m['point'].Point
        self.Line, self.Plane = self.m['line'].Line, self.m['plane'].Plane
        self.Segment, self.HalfLine = self.m['segment'].Segment, self.m['halfline'].HalfLine

    # -- symbolic inputs
    def V(self, n):
        return self.Vector(K(('v', n + '.x')), K(('v', n + '.y')), K(('v', n + '.z')))

    def P(self, n):
        return self.Point(K(('v', n + '.x')), K(('v', n + '.y')), K(('v', n + '.z')))

    def walk(self, script, f):
        REC.start(script)
        try:
            res = f()
        except BaseException:
            REC.reset()
            raise
        return res, REC.stop()

    def build(self, f, fallback=None, what='object'):
        """construction of an object a kernel merely needs: every comparison of the constructor is answered False.
        When the real constructor RAISES (a change inside it that the symbolic run cannot follow) and a fallback is
        given, the object is assembled from its attributes instead and a comment says so: the constructor's own
        behaviour is the business of the dedicated constructor kernels, which fail in that case."""
        REC.start([], default=False)
        try:
            res = f()
        except Exception as e:      # noqa
            REC.reset()
            if fallback is None:
                raise
            reason = re.sub(r'0x[0-9a-fA-F]+', '0x..', '%s: %s' % (type(e).__name__, e))
            reason = re.sub(r'[^ -~]', '?', reason)[:200]
            self.out.append('-- note: the constructor of the %s raised (%s); the object was assembled from its attributes' % (what, reason))
            return fallback()
        except BaseException:
            REC.reset()
            raise
        REC.stop()
        return res

    def line_pv(self, p, v):
        """Line(Point, Vector) as a carrier of (sv, dv)"""
        def assembled():
            l = object.__new__(self.Line)
            l.sv, l.dv = p.pv(), v
            return l
        return self.build(lambda: self.Line(p, v), assembled, 'Line')

    def segment_pp(self, a, b):
        """Segment(Point, Point) as a carrier of (start_point, end_point, line)"""
        def assembled():
            s = object.__new__(self.Segment)
            s.start_point, s.end_point = a, b
            s.line = self.line_pv(a, self.Vector(a, b))
            return s
        return self.build(lambda: self.Segment(a, b), assembled, 'Segment')

    def halfline_pv(self, p, v):
        """HalfLine(Point, Vector) as a carrier of (point, vector, line)"""
        def assembled():
            h = object.__new__(self.HalfLine)
            h.point, h.vector = p, v
            h.line = self.line_pv(p, v)
            return h
        return self.build(lambda: self.HalfLine(p, v), assembled, 'HalfLine')

    def rejected(self, script, f, exc):
        """walk that must end in the exception `exc`; -> the comparisons asked"""
        REC.start(script)
        try:
            f()
        except exc:
            if REC.script:
                left = len(REC.script)
                REC.reset()
                raise Unscripted('rejection after fewer comparisons than scripted (%d answers left)' % left)
            asked = REC.asked
            REC.reset()
            return asked
        except BaseException:
            REC.reset()
            raise
        REC.reset()
        raise TypeError('the construction was accepted, a rejection was expected')

    # -- emission
    def binder(self, trees, order):
        vs = []
        for t in trees:
            variables(t, vs)
        objs = []
        for v in vs:
            o = v.split('.')[0]
            if '.' not in v:
                raise TypeError('scalar variable %s' % v)
            if o not in objs:
                objs.append(o)
        for o in objs:
            if o not in order:
                raise TypeError('term mentions %s, not among the declared arguments %s' % (o, order))
        return '(%s : %s)' % (' '.join(order), self.vt)

    def share_sqrts(self, base, order, trees):
        """big terms: every distinct sqrt node of `trees` (inner ones first, in order of first appearance) becomes an
        auxiliary definition impl_<base>_sqrt<k>, and the terms emitted from now on mention it by name"""
        found = []

        def go(e):
            for s_ in e[1:]:
                if isinstance(s_, tuple):
                    go(s_)
            if e[0] == 'sqrt' and e not in found:
                found.append(e)
        for t in trees:
            go(t)
        k = sum(1 for v in self.em.shared.values() if v.startswith('(impl_%s_sqrt' % base))
        for e in found:
            if e in self.em.shared:
                continue
            nm = '%s_sqrt%d' % (base, k)
            k += 1
            self.names.add(nm)
            b = self.binder([e], order)
            self.out.append('noncomputable def impl_%s %s : %s := (Real.sqrt %s)' % (nm, b, self.em.ty, self.em.term(e[1])))
            self.em.shared[e] = '(impl_%s %s)' % (nm, ' '.join(order))

    def unshare(self):
        self.em.shared = {}

    def define(self, name, order, tree):
        """scalar definition impl_<name> (<order> : V3) : Rat := tree"""
        if name in self.names:
            raise TypeError('duplicate definition %s' % name)
        self.names.add(name)
        if not isinstance(tree, tuple):
            raise TypeError('%s: not a symbolic number: %r' % (name, tree))
        b = self.binder([tree], order)
        pre = 'noncomputable def' if self.real else 'def'
        self.out.append('%s impl_%s %s : %s := %s' % (pre, name, b, self.em.ty, self.em.term(tree)))

    def define_vec(self, name, order, comps):
        if name in self.names:
            raise TypeError('duplicate definition %s' % name)
        self.names.add(name)
        trees = []
        for c in comps:
            if not isinstance(c, K):
                raise TypeError('%s: a component left the symbolic type: %r' % (name, c))
            trees.append(c.e)
        b = self.binder(trees, order)
        pre = 'noncomputable def' if self.real else 'def'
        self.out.append('%s impl_%s %s : %s := ⟨%s⟩' % (pre, name, b, self.vt, ', '.join(self.em.term(t) for t in trees)))

    def define_path(self, name, asked, deciding=None):
        if name + '_path' in self.names:
            raise TypeError('duplicate path %s' % name)
        self.names.add(name + '_path')
        items = ', '.join('("%s", %s)' % (shape(c)[0], 'true' if c[3] else 'false') for c in asked)
        self.out.append('def impl_%s_path : List (String × Bool) := [%s]' % (name, items))
        if deciding is not None:
            self.out.append('def impl_%s_shape : String := "%s"' % (name, shape(asked[deciding])[0]))

    def holes(self, cmp_, n):
        hs = shape(cmp_)[1]
        if len(hs) != n:
            raise TypeError('comparison %s: expected %d tolerance-free operands, found %d' % (shape(cmp_)[0], n, len(hs)))
        return hs

    def comment(self, s):
        self.out.append('-- %s' % s)

    def num(self, x, what):
        if not isinstance(x, K):
            raise TypeError('%s left the symbolic type: %r' % (what, x))
        return x.e


    # -- per-kernel isolation
    def kernel(self, name, fn):
        """walk one kernel; on any exception its partial output is dropped and replaced by the marker definition"""
        mark, names = len(self.out), set(self.names)
        try:
            fn(self)
            if REC.script is not None:
                raise Unscripted('a walk was left open')
        except Exception as e:      # noqa  (KeyboardInterrupt / SystemExit pass through)
            REC.reset()
            self.em.shared = {}
            del self.out[mark:]
            self.names = names
            reason = '%s: %s' % (type(e).__name__, e)
            reason = re.sub(r'0x[0-9a-fA-F]+', '0x..', reason)
            reason = re.sub(r'[^ -~]', '?', reason).replace('\\', '/').replace('"', "'")[:300]
            self.out.append('-- kernel %s: the walk failed; its definitions are withheld' % name)
            self.out.append('def impl_%s_EXTRACTION_FAILED : String := "%s"' % (name, reason))
            self.failed.append(name)


def same(t1, t2, what):
    if t1 != t2:
        raise TypeError('%s: two places that should hold the same expression differ' % what)


def residuals(w, name, order, asked, idxs, label='residual'):
    """one definition per listed comparison: its single tolerance-free operand"""
    for k, i in enumerate(idxs):
        w.define('%s_%s%d' % (name, label, k), order, w.holes(asked[i], 1)[0])


def expect(r, val, what):
    if r is not val:
        raise TypeError('%s: expected the python value %r, got %r' % (what, val, r))


def raw_plane(w, p, n):
    """plane built by the real constructor, stored normal replaced by the raw one (rational files)"""
    def assembled():
        q = object.__new__(w.Plane)
        q.p = p
        return q
    pl = w.build(lambda: w.Plane(p, n), assembled, 'Plane')
    pl.n = w.Vector(*[c for c in n])
    return pl


# ================================================================================================ kvec (rationals)
def k_orthogonal(w):
    w.comment('`Vector.orthogonal`: `abs(self * other) < get_eps()`')
    a, b = w.V('a'), w.V('b')
    r, asked = w.walk([True], lambda: a.orthogonal(b))
    expect(r, True, 'Vector.orthogonal')
    w.define('orthogonal_residual', ['a', 'b'], w.holes(asked[0], 1)[0])
    w.define_path('orthogonal', asked, 0)


def k_vectorEq(w):
    w.comment('`Vector.__eq__`: `abs(a[i] - b[i]) < get_eps()` for i = 0, 1, 2 (conjunction, all three asked on the True path)')
    a, b = w.V('a'), w.V('b')
    r, asked = w.walk([True, True, True], lambda: a == b)
    expect(r, True, 'Vector.__eq__')
    residuals(w, 'vectorEq', ['a', 'b'], asked, [0, 1, 2])
    w.define_path('vectorEq', asked)


def k_pointEq(w):
    w.comment('`Point.__eq__`')
    p, q = w.P('p'), w.P('q')
    r, asked = w.walk([True, True, True], lambda: p == q)
    expect(r, True, 'Point.__eq__')
    residuals(w, 'pointEq', ['p', 'q'], asked, [0, 1, 2])
    w.define_path('pointEq', asked)


# ================================================================================================ kvecr (reals)
def k_length(w):
    w.comment('`Vector.length`: `(self * self) ** 0.5`')
    a = w.V('a')
    r, asked = w.walk([], lambda: a.length())
    w.define('length', ['a'], w.num(r, 'length'))


def k_normalized(w):
    w.comment('`Vector.normalized`: `float(1 / self.length()) * self`')
    a = w.V('a')
    r, asked = w.walk([], lambda: a.normalized())
    w.define_vec('normalized', ['a'], list(r))


def k_parallel(w):
    w.comment('`Vector.parallel`: zero / equal shortcuts, then `abs(abs(a*b) - |a|*|b|) < get_eps() * |a|`')
    a, b = w.V('a'), w.V('b')
    r, asked = w.walk([False, False, False, True], lambda: a.parallel(b))
    expect(r, True, 'Vector.parallel')
    hs = w.holes(asked[3], 2)
    w.define('parallel_residual', ['a', 'b'], hs[0])
    w.define('parallel_scale', ['a', 'b'], hs[1])
    residuals(w, 'parallel', ['a', 'b'], asked, [0, 1, 2], 'pre')
    w.define_path('parallel', asked, 3)


def k_parallelShortcuts(w):
    w.comment('`Vector.parallel`: the three shortcuts (self zero, other zero, equal) return True')
    a, b = w.V('a'), w.V('b')
    for nm, script in (('parallelSelfZero', [True, True, True]), ('parallelOtherZero', [False, True, True, True]),
                       ('parallelEqual', [False, False, True, True, True])):
        r, asked = w.walk(script, lambda: a.parallel(b))
        expect(r, True, nm)
        residuals(w, nm, ['a', 'b'], asked, [len(script) - 3, len(script) - 2, len(script) - 1])
        w.define_path(nm, asked)


def k_angle(w):
    w.comment('`Vector.angle`: `cosine = a*b / (|a|*|b|)`, clamped by `max(-1.0, min(1.0, cosine))`, `math.acos`')
    a, b = w.V('a'), w.V('b')
    r, asked = w.walk([True, True], lambda: a.angle(b))
    t = w.num(r, 'angle')
    if t[0] != 'acos':
        raise TypeError('Vector.angle is not an acos')
    same(t[1], w.holes(asked[0], 1)[0], 'cosine'), same(t[1], w.holes(asked[1], 1)[0], 'cosine')
    w.define('angle_cosine', ['a', 'b'], t[1])
    w.define_path('angle', asked)


def k_angleClamp(w):
    w.comment('`Vector.angle`, the two paths on which the clamp replaces the cosine: `cosine < 1.0` false -> acos(hi);')
    w.comment('`cosine < 1.0` true and `... > -1.0` false -> acos(lo).  hi / lo are the literals that reach math.acos.')
    a, b = w.V('a'), w.V('b')
    r0, asked0 = w.walk([True, True], lambda: a.angle(b))
    t0 = w.num(r0, 'angle')
    if t0[0] != 'acos':
        raise TypeError('Vector.angle is not an acos')
    for nm, script in (('angleClampHi', [False]), ('angleClampLo', [True, False])):
        r, asked = w.walk(script, lambda: a.angle(b))
        t = w.num(r, 'angle')
        if t[0] != 'acos_literal':
            raise TypeError('%s: the argument of math.acos is not a literal on this path: %r' % (nm, t[0]))
        v = t[1]
        if v != int(v):
            raise TypeError('%s: non-integral clamp bound %r' % (nm, v))
        for c in asked:
            same(t0[1], w.holes(c, 1)[0], 'cosine')
        w.out.append('def impl_%s : Int := %d' % (nm, int(v)))
        w.define_path(nm, asked)


# ================================================================================================ kmember (rationals)
def k_planeContains(w):
    w.comment('`Plane.__contains__(Point)`: `abs(other.pv() * self.n - self.p.pv() * self.n) < get_eps()`')
    p, n = w.P('p'), w.V('n')
    pl, asked = w.walk([], lambda: w.Plane(p, n))
    pl.n = w.Vector(*[c for c in n])
    w.define_path('planeCtor', asked)
    x = w.P('x')
    r, asked = w.walk([True], lambda: x in pl)
    expect(r, True, 'Plane.__contains__')
    w.define('planeContains_residual', ['p', 'n', 'x'], w.holes(asked[0], 1)[0])
    w.define_path('planeContains', asked, 0)


def k_planeContainsLine(w):
    w.comment('`Plane.__contains__(Line)`: `Point(other.sv) in self and self.parallel(other)` (parallel(Plane, Line) = `l.dv.orthogonal(n)`)')
    pl = raw_plane(w, w.P('p'), w.V('n'))
    l = w.line_pv(w.P('sv'), w.V('dv'))
    r, asked = w.walk([True, True], lambda: l in pl)
    expect(r, True, 'Plane.__contains__(Line)')
    residuals(w, 'planeContainsLine', ['p', 'n', 'sv', 'dv'], asked, [0, 1])
    w.define_path('planeContainsLine', asked)


def k_halfLineCtor(w):
    w.comment('`HalfLine(Point, Vector)`: `b.length() < get_eps()` rejects, then `Line(a, b)` (its zero-direction test)')
    h, asked = w.walk([False, False], lambda: w.HalfLine(w.P('p'), w.V('v')))
    w.define_path('halfLineCtor', asked)


def k_halfLineContains(w):
    w.comment('`HalfLine.__contains__(Point)`: `r1 = other in self.line; if r1: v1 * self.vector > -get_eps()`')
    h = w.halfline_pv(w.P('p'), w.V('v'))
    x = w.P('x')
    r, asked = w.walk([False, False, False, True, True], lambda: x in h)
    expect(r, True, 'HalfLine.__contains__')
    w.define('halfLineContains_proj', ['p', 'v', 'x'], w.holes(asked[4], 1)[0])
    w.define_path('halfLineContains', asked, 4)
    r, asked = w.walk([False, False, False, False], lambda: x in h)
    expect(r, False, 'HalfLine.__contains__ off the line')
    w.define_path('halfLineContainsOffLine', asked)


# ================================================================================================ kmemberr (reals)
def k_lineContains(w):
    w.comment('`Line.__contains__(Point)`: `(other.pv() - self.sv).parallel(self.dv)`')
    l = w.line_pv(w.P('sv'), w.V('dv'))
    x = w.P('x')
    r, asked = w.walk([False, False, False, True], lambda: x in l)
    expect(r, True, 'Line.__contains__')
    hs = w.holes(asked[3], 2)
    w.define('lineContains_residual', ['sv', 'dv', 'x'], hs[0])
    w.define('lineContains_scale', ['sv', 'dv', 'x'], hs[1])
    w.define_path('lineContains', asked, 3)


def k_segCtor(w):
    w.comment('`Segment(Point, Point)`: `a == b` rejects, then `Line(a, b)` (its zero-direction test)')
    s, asked = w.walk([False, False], lambda: w.Segment(w.P('a'), w.P('b')))
    w.define_path('segCtor', asked)


def k_segContains(w):
    w.comment('`Segment.__contains__(Point)`: `r1 = other in self.line`; `|v1| < eps` -> True; else `rel = v1*v / |v| / |v|`, `r1 and rel > -eps and rel < 1 + eps`')
    s = w.segment_pp(w.P('a'), w.P('b'))
    x = w.P('x')
    r, asked = w.walk([False, False, False, True, False, True, True], lambda: x in s)
    expect(r, True, 'Segment.__contains__')
    hs = w.holes(asked[3], 2)
    w.define('segContains_lineResidual', ['a', 'b', 'x'], hs[0])
    w.define('segContains_lineScale', ['a', 'b', 'x'], hs[1])
    w.define('segContains_startDist', ['a', 'b', 'x'], w.holes(asked[4], 1)[0])
    rel = w.holes(asked[5], 1)[0]
    same(rel, w.holes(asked[6], 1)[0], 'relative length')
    w.define('segContains_rel', ['a', 'b', 'x'], rel)
    w.define_path('segContains', asked)
    r, asked = w.walk([False, False, False, False, True], lambda: x in s)
    expect(r, True, 'Segment.__contains__ at the start point')
    w.define_path('segContainsStart', asked)
    r, asked = w.walk([False, False, False, False, False], lambda: x in s)
    expect(r, False, 'Segment.__contains__ off the line')
    w.define_path('segContainsOffLine', asked)


def k_halfLineCtorLength(w):
    w.comment('`HalfLine(Point, Vector)`: the operand of the rejection test `b.length() < get_eps()`')
    h, asked = w.walk([False, False], lambda: w.HalfLine(w.P('p'), w.V('v')))
    w.define('halfLineCtor_length', ['p', 'v'], w.holes(asked[0], 1)[0])


def k_halfLineCarrier(w):
    w.comment('`HalfLine.__contains__(Point)`: the carrier-line test (the projection test is in Kmember.lean)')
    h = w.halfline_pv(w.P('p'), w.V('v'))
    x = w.P('x')
    r, asked = w.walk([False, False, False, True, True], lambda: x in h)
    w.define('halfLineContains_lineResidual', ['p', 'v', 'x'], w.holes(asked[3], 2)[0])


def k_planeContainsN(w):
    w.comment('`Plane.__contains__(Point)` on a plane exactly as constructed (`self.n = normale.normalized()`)')
    pl = w.build(lambda: w.Plane(w.P('p'), w.V('n')))
    w.define_vec('planeCtor_n', ['p', 'n'], list(pl.n))
    x = w.P('x')
    r, asked = w.walk([True], lambda: x in pl)
    expect(r, True, 'Plane.__contains__')
    w.define('planeContainsN_residual', ['p', 'n', 'x'], w.holes(asked[0], 1)[0])
    w.define_path('planeContainsN', asked, 0)


# ================================================================================================ kinter (rationals)
def k_interLinePlane(w):
    w.comment('`inter_line_plane(l, p)` on the path "not contained, not parallel": `mu = (n*p - n*sv) / (n*dv)`, `Point(sv + mu*dv)`')
    inter = w.m['intersection']
    pl = raw_plane(w, w.P('p'), w.V('n'))
    l = w.line_pv(w.P('sv'), w.V('dv'))
    o4 = ['sv', 'dv', 'p', 'n']
    r, asked = w.walk([False, False], lambda: inter.inter_line_plane(l, pl))
    if not isinstance(r, w.Point):
        raise TypeError('inter_line_plane: expected a Point')
    residuals(w, 'interLinePlane', o4, asked, [0], 'containsResidual')
    residuals(w, 'interLinePlane', o4, asked, [1], 'parallelResidual')
    w.define_path('interLinePlane', asked)
    comps = [w.num(c, 'inter_line_plane point') for c in (r.x, r.y, r.z)]
    mus = []
    for c, nm in zip(comps, 'xyz'):
        # sv.i + dv.i * mu
        if not (c[0] == '+' and c[1] == ('v', 'sv.' + nm) and c[2][0] == '*' and c[2][1] == ('v', 'dv.' + nm)):
            raise TypeError('inter_line_plane: result component is not sv + dv*mu')
        mus.append(c[2][2])
    same(mus[0], mus[1], 'mu'), same(mus[0], mus[2], 'mu')
    w.define('interLinePlane_mu', o4, mus[0])
    w.define_vec('interLinePlane_point', o4, [r.x, r.y, r.z])
    r, asked = w.walk([True, True], lambda: inter.inter_line_plane(l, pl))
    if r is not l:
        raise TypeError('inter_line_plane: contained line is not returned as is')
    w.define_path('interLinePlaneContained', asked)
    r, asked = w.walk([False, True], lambda: inter.inter_line_plane(l, pl))
    expect(r, None, 'inter_line_plane, parallel')
    w.define_path('interLinePlaneParallel', asked)
    r, asked = w.walk([True, False, False], lambda: inter.inter_line_plane(l, pl))
    if not isinstance(r, w.Point):
        raise TypeError('inter_line_plane: expected a Point')
    w.define_path('interLinePlaneSvInPlane', asked)


# ================================================================================================ kinterr (reals)
def k_interPlanePlane(w):
    w.comment('`inter_plane_plane(a, b)` on the path "different, not parallel": `line_v = a.n.cross(b.n).normalized()`, '
              '`aux = Line(a.p, line_v.cross(a.n).normalized())`, `Line(inter_line_plane(aux, b), line_v)`   (unit normals as stored)')
    inter = w.m['intersection']
    pa = w.build(lambda: w.Plane(w.P('p1'), w.V('n1')))
    pb = w.build(lambda: w.Plane(w.P('p2'), w.V('n2')))
    r, asked = w.walk([False] * 9, lambda: inter.inter_plane_plane(pa, pb))
    if not isinstance(r, w.Line):
        raise TypeError('inter_plane_plane: expected a Line')
    o4 = ['p1', 'n1', 'p2', 'n2']
    w.share_sqrts('interPlanePlane', o4, [w.num(c, 'inter_plane_plane') for c in list(r.dv) + list(r.sv)])
    w.define_vec('interPlanePlane_dv', o4, list(r.dv))
    w.define_vec('interPlanePlane_sv', o4, list(r.sv))
    w.unshare()
    w.define_path('interPlanePlane', asked)


# ================================================================================================ kdist (reals)
def k_pointDistance(w):
    w.comment('`Point.distance`: `math.sqrt((x-x\')**2 + (y-y\')**2 + (z-z\')**2)`')
    p, q = w.P('p'), w.P('q')
    r, asked = w.walk([], lambda: p.distance(q))
    w.define('pointDistance', ['p', 'q'], w.num(r, 'Point.distance'))


def k_distPointPoint(w):
    w.comment('`distance(Point, Point)`: `Vector(a, b).length()`')
    p, q = w.P('p'), w.P('q')
    r, asked = w.walk([], lambda: w.m['distance'].distance(p, q))
    w.define('distPointPoint', ['p', 'q'], w.num(r, 'distance'))


def k_distPointLine(w):
    w.comment('`distance(Point, Line)`: `aux = Plane(a, l.dv); foot = intersection(aux, l); distance(a, foot)`')
    l = w.line_pv(w.P('sv'), w.V('dv'))
    x = w.P('x')
    r, asked = w.walk([False, False], lambda: w.m['distance'].distance(x, l))
    w.define('distPointLine', ['x', 'sv', 'dv'], w.num(r, 'distance'))
    w.define_path('distPointLine', asked)


def k_distPointPlane(w):
    w.comment('`distance(Point, Plane)`: `aux = Line(a, pl.n); foot = intersection(aux, pl); distance(a, foot)`  (unit normal as stored)')
    pl = w.build(lambda: w.Plane(w.P('p'), w.V('n')))
    x = w.P('x')
    r, asked = w.walk([False, False, False], lambda: w.m['distance'].distance(x, pl))
    w.define('distPointPlane', ['x', 'p', 'n'], w.num(r, 'distance'))
    w.define_path('distPointPlane', asked)


def two_lines(w):
    return (w.line_pv(w.P('s1'), w.V('d1')), w.line_pv(w.P('s2'), w.V('d2')))


def k_distLineLineSkew(w):
    w.comment('`distance(Line, Line)`, not parallel: `abs((b.sv - a.sv) * a.dv.cross(b.dv).normalized())`')
    l1, l2 = two_lines(w)
    r, asked = w.walk([False, False, False, False], lambda: w.m['distance'].distance(l1, l2))
    w.define('distLineLineSkew', ['s1', 'd1', 's2', 'd2'], w.num(r, 'distance'))
    w.define_path('distLineLineSkew', asked)


def k_distLineLinePar(w):
    w.comment('`distance(Line, Line)`, parallel: `distance(Point(a.sv), b)`')
    l1, l2 = two_lines(w)
    r, asked = w.walk([False, False, False, True, False, False], lambda: w.m['distance'].distance(l1, l2))
    w.define('distLineLinePar', ['s1', 'd1', 's2', 'd2'], w.num(r, 'distance'))
    w.define_path('distLineLinePar', asked)


def k_distLinePlanePar(w):
    w.comment('`distance(Line, Plane)`, parallel (`dv.orthogonal(n)`): `distance(Point(l.sv), pl)`')
    l = w.line_pv(w.P('sv'), w.V('dv'))
    pl = w.build(lambda: w.Plane(w.P('p'), w.V('n')))
    r, asked = w.walk([True, False, False, False], lambda: w.m['distance'].distance(l, pl))
    w.define('distLinePlanePar', ['sv', 'dv', 'p', 'n'], w.num(r, 'distance'))
    w.define_path('distLinePlanePar', asked)


def k_distLinePlaneCross(w):
    w.comment('`distance(Line, Plane)`, not parallel: the float 0.0')
    l = w.line_pv(w.P('sv'), w.V('dv'))
    pl = w.build(lambda: w.Plane(w.P('p'), w.V('n')))
    r, asked = w.walk([False], lambda: w.m['distance'].distance(l, pl))
    if not (isinstance(r, float) and r == 0.0):
        raise TypeError('distance(Line, Plane) of a crossing pair is not the float 0.0')
    w.out.append('def impl_distLinePlaneCross_value : String := "%r"' % r)
    w.define_path('distLinePlaneCross', asked)


# ================================================================================================ kforms (rationals)
def k_generalForm(w):
    w.comment('`Plane.general_form()` -> (a, b, c, d)   (normal kept raw)')
    pl = raw_plane(w, w.P('p'), w.V('n'))
    gf, asked = w.walk([], lambda: pl.general_form())
    if len(gf) != 4:
        raise TypeError('general_form returned %d values' % len(gf))
    for nm, val in zip('abcd', gf):
        w.define('generalForm_' + nm, ['p', 'n'], w.num(val, 'general_form'))


def k_pointNormal(w):
    w.comment('`Plane.point_normal()` -> (p, n)   (normal kept raw)')
    pl = raw_plane(w, w.P('p'), w.V('n'))
    pn, asked = w.walk([], lambda: pl.point_normal())
    if len(pn) != 2:
        raise TypeError('point_normal returned %d values' % len(pn))
    w.define_vec('pointNormal_p', ['p', 'n'], list(pn[0]))
    w.define_vec('pointNormal_n', ['p', 'n'], list(pn[1]))


def k_lineCtor(w):
    w.comment('`Line(Point, Vector)`: the zero-direction test, answered False after its first comparison')
    l2, asked = w.walk([False], lambda: w.Line(w.P('p'), w.V('v')))
    residuals(w, 'lineCtor', ['p', 'v'], asked, [0])
    w.define_path('lineCtor', asked)


def k_lineParametric(w):
    w.comment('`Line(Point, Vector)` and `Line.parametric()` -> (sv, dv)')
    l2 = w.build(lambda: w.Line(w.P('p'), w.V('v')))
    par, asked0 = w.walk([], lambda: l2.parametric())
    if len(par) != 2:
        raise TypeError('parametric returned %d values' % len(par))
    w.define_vec('lineParametric_sv', ['p', 'v'], list(par[0]))
    w.define_vec('lineParametric_dv', ['p', 'v'], list(par[1]))


def k_lineCtorReject(w):
    w.comment('`Line.__init__` rejects `dv == Vector.zero()` (all three tests True -> ValueError)')
    pp, vv = w.P('p'), w.V('v')
    asked = w.rejected([True, True, True], lambda: w.Line(pp, vv), ValueError)
    residuals(w, 'lineCtorReject', ['p', 'v'], asked, [0, 1, 2])
    w.define_path('lineCtorReject', asked)


def k_linePP(w):
    w.comment('`Line(Point, Point)`: `dv = b.pv() - sv`')
    l3 = w.build(lambda: w.Line(w.P('p'), w.P('q')))
    par, asked0 = w.walk([], lambda: l3.parametric())
    if len(par) != 2:
        raise TypeError('parametric returned %d values' % len(par))
    w.define_vec('linePP_sv', ['p', 'q'], list(par[0]))
    w.define_vec('linePP_dv', ['p', 'q'], list(par[1]))


# ================================================================================================ karea (reals)
def k_triangleArea(w):
    w.comment('`get_triangle_area(pa, pb, pc)` (geometry/polygon.py): Heron with `a = |pa pb|`, `b = |pb pc|`, `c = |pc pa|`')
    A, B, C = w.P('pa'), w.P('pb'), w.P('pc')
    r, asked = w.walk([], lambda: w.m['polygon'].get_triangle_area(A, B, C))
    w.define('triangleArea', ['pa', 'pb', 'pc'], w.num(r, 'get_triangle_area'))


def k_projectionLength(w):
    w.comment('`get_projection_length(v1, v2)`: `v1*v2 / |v2|`; `get_relative_projection_length`: that `/ |v2|` (calc/aux_calc.py)')
    a, b = w.V('a'), w.V('b')
    r, asked = w.walk([], lambda: w.m['aux'].get_projection_length(a, b))
    w.define('projectionLength', ['a', 'b'], w.num(r, 'get_projection_length'))
    r, asked = w.walk([], lambda: w.m['aux'].get_relative_projection_length(a, b))
    w.define('relativeProjectionLength', ['a', 'b'], w.num(r, 'get_relative_projection_length'))


# ================================================================================================ files
# file name -> (over the reals?, what, [(kernel name, walk)])
FILES = {
    'kvec': (False, 'Vector.__eq__, Point.__eq__, Vector.orthogonal',
             [('orthogonal', k_orthogonal), ('vectorEq', k_vectorEq), ('pointEq', k_pointEq)]),
    'kvecr': (True, 'Vector.length, normalized, parallel (with its shortcuts), angle cosine',
              [('length', k_length), ('normalized', k_normalized), ('parallel', k_parallel),
               ('parallelShortcuts', k_parallelShortcuts), ('angle', k_angle), ('angleClamp', k_angleClamp)]),
    'kmember': (False, 'Plane.__contains__(Point / Line), HalfLine.__contains__(Point)',
                [('planeContains', k_planeContains), ('planeContainsLine', k_planeContainsLine),
                 ('halfLineContains', k_halfLineContains), ('halfLineCtor', k_halfLineCtor)]),
    'kmemberr': (True, 'Line.__contains__, Segment.__contains__, HalfLine carrier line, Plane.__contains__ on the stored unit normal',
                 [('lineContains', k_lineContains), ('segContains', k_segContains), ('halfLineCarrier', k_halfLineCarrier),
                  ('planeContainsN', k_planeContainsN), ('segCtor', k_segCtor), ('halfLineCtorLength', k_halfLineCtorLength)]),
    'kinter': (False, 'inter_line_plane', [('interLinePlane', k_interLinePlane)]),
    'kinterr': (True, 'inter_plane_plane', [('interPlanePlane', k_interPlanePlane)]),
    'kdist': (True, 'Point.distance and calc/distance.py',
              [('pointDistance', k_pointDistance), ('distPointPoint', k_distPointPoint), ('distPointLine', k_distPointLine),
               ('distPointPlane', k_distPointPlane), ('distLineLineSkew', k_distLineLineSkew),
               ('distLineLinePar', k_distLineLinePar), ('distLinePlanePar', k_distLinePlanePar),
               ('distLinePlaneCross', k_distLinePlaneCross)]),
    'kforms': (False, 'Plane.general_form, Plane.point_normal, Line forms, Line constructor rejection',
               [('generalForm', k_generalForm), ('pointNormal', k_pointNormal), ('lineParametric', k_lineParametric),
                ('linePP', k_linePP), ('lineCtor', k_lineCtor), ('lineCtorReject', k_lineCtorReject)]),
    'karea': (True, 'get_triangle_area (Heron), projection lengths of calc/aux_calc.py',
              [('triangleArea', k_triangleArea), ('projectionLength', k_projectionLength)]),
}


def main(repo, name):
    real, what, kernels = FILES[name]
    w = Walker(repo, real)
    w.failed = []
    for kname, fn in kernels:
        w.kernel(kname, fn)
    head = ['import G3D.Model.VecR', 'import Mathlib.Analysis.Real.Sqrt'] if real else ['import G3D.Model.Vec']
    head += ['/-! GENERATED by tools/extract_%s.py (engine tools/kernels_engine.py): %s' % (name, what),
             '    run on symbolic numbers, %s — do not edit.' % ('terms with sqrt and |.| over the reals' if real else 'sqrt-free terms over Rat'),
             '    kernels: %s -/' % ', '.join(k for k, _ in kernels),
             'set_option linter.unusedVariables false', 'namespace G3D.Extracted', 'open G3D', '']
    sys.stdout.write('\n'.join(head + w.out + ['', 'end G3D.Extracted', '']))
    if w.failed:
        sys.stderr.write('kernels withheld: %s\n' % ', '.join(w.failed))


def run_as_script(path):
    """tools/extract_<file>.py <repo>"""
    name = os.path.basename(path)[len('extract_'):-len('.py')]
    if name not in FILES:
        raise SystemExit('unknown kernel file %s' % name)
    if len(sys.argv) != 2:
        raise SystemExit('usage: extract_%s.py <repo>' % name)
    main(sys.argv[1], name)
