#!/venv/bin/python
"""Translator T6, group `mpolyhedron`: method bodies -> lean/G3D/Extracted/Mpolyhedron.lean  (engine and documentation: tools/mextract.py)
usage: extract_mpolyhedron.py <repo>      (Lean source on stdout)"""
import os, sys
sys.dont_write_bytecode = True
sys.path.insert(0, os.path.dirname(os.path.abspath(__file__)))
import mextract
mextract.main('mpolyhedron', sys.argv)
