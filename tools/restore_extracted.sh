#!/bin/bash
# regenerates every lean/G3D/Extracted/*.lean from /repo's current tree (use after evaluating a seeded change)
cd "$(dirname "$0")/.."
for e in dispatch dispdist dispangle dispvol khash mmeas doc poly classes sites effects consts kvec kvecr kmember kmemberr kinter kinterr kdist kforms karea hflat hpolygon hpolyhedron hbody builders solver mflat mpolygon mpolyhedron mcalc; do
  n="$(python3 -c "print('$e'.capitalize())")"
  /venv/bin/python -B tools/extract_$e.py ${G3D_SRC:-/repo} > /tmp/.ex_$$ && { cmp -s /tmp/.ex_$$ lean/G3D/Extracted/$n.lean || cp /tmp/.ex_$$ lean/G3D/Extracted/$n.lean; }
  rm -f /tmp/.ex_$$
done
