import G3D.Model.Inter
import G3D.Model.Measure
import G3D.Model.Move
import G3D.Model.Distance
import G3D.Model.Angle
import G3D.Model.PlaneForms
import G3D.Model.Tol
import G3D.Model.Heap
import G3D.Model.Judge
import G3D.Model.K5
import G3D.Model.ExactHyp
import G3D.Model.SameSet
open G3D

/-! Line-protocol driver of the executable model: one case per input line, one result line per case.
    Tokens are separated by blanks, rationals are `n` or `n/d`.
    Objects:  P x y z | L sv dv | PL p n | S a b | H p v | G k pts… | B f (k pts…)… | V x y z | N -/

def parseRat (s : String) : Option Rat :=
  match s.splitOn "/" with
  | [n] => n.toInt?.map (fun i => (i : Rat))
  | [n, d] => do
      let a ← n.toInt?
      let b ← d.toNat?
      if b == 0 then none else some (mkRat a b)
  | _ => none

def showRat (r : Rat) : String := if r.den == 1 then toString r.num else s!"{r.num}/{r.den}"
def showV (v : V3) : String := s!"{showRat v.x} {showRat v.y} {showRat v.z}"

abbrev P := StateT (List String) Option

def tok : P String := do
  match (← get) with
  | [] => failure
  | t :: ts => set ts; pure t
def rat : P Rat := do let t ← tok; match parseRat t with | some r => pure r | none => failure
def nat : P Nat := do let t ← tok; match t.toNat? with | some r => pure r | none => failure
def int : P Int := do let t ← tok; match t.toInt? with | some r => pure r | none => failure
def v3 : P V3 := do pure ⟨← rat, ← rat, ← rat⟩
def many {α} (n : Nat) (p : P α) : P (List α) := do
  let mut acc := []
  for _ in [0:n] do acc := acc ++ [← p]
  pure acc

def polygonP : P (Except CErr Polygon) := do
  let n ← nat
  let pts ← many n v3
  pure (Polygon.mk? pts)

/-- a parsed operand: a geometry object, a bare vector, or None; constructors may reject -/
inductive Arg | obj (o : Obj) | vec (v : V3) | none

def objP : P (Except CErr Arg) := do
  match (← tok) with
  | "P" => do pure (.ok (.obj (.flat (.point (← v3)))))
  | "L" => do
      let sv ← v3; let dv ← v3
      pure ((Line.mk? sv dv).map (fun l => .obj (.flat (.line l))))
  | "PL" => do
      let p ← v3; let n ← v3
      pure ((Plane.ofPN p n).map (fun l => .obj (.flat (.plane l))))
  | "S" => do
      let a ← v3; let b ← v3
      pure ((Seg.mk? a b).map (fun s => .obj (.flat (.seg s))))
  | "H" => do
      let a ← v3; let v ← v3
      pure ((HalfLine.ofVec? a v).map (fun s => .obj (.flat (.halfline s))))
  | "G" => do
      match (← polygonP) with
      | .ok g => pure (.ok (.obj (.polygon g)))
      | .error e => pure (.error e)
  | "B" => do
      let f ← nat
      let faces ← many f polygonP
      match faces.mapM id with
      | .error e => pure (.error e)
      | .ok fs =>
        match Polyhedron.mk? fs with
        | .ok b => pure (.ok (.obj (.polyhedron b)))
        | .error e => pure (.error e)
  | "V" => do pure (.ok (.vec (← v3)))
  | "N" => pure (.ok .none)
  | _ => failure

def showGeo : Geo → String
  | .point p => s!"P {showV p}"
  | .line l => s!"L {showV l.sv} {showV l.dv}"
  | .plane p => s!"PL {showV p.p} {showV p.n}"
  | .seg s => s!"S {showV s.a} {showV s.b}"
  | .halfline h => s!"H {showV h.p} {showV h.v}"

def showObj : Obj → String
  | .flat g => showGeo g
  | .polygon g => s!"G {g.pts.length} " ++ " ".intercalate (g.pts.map showV)
  | .polyhedron b => s!"B {b.verts.length} " ++ " ".intercalate (b.verts.map showV) ++
      s!" VOL {showRat b.volume} F {b.faces.length} E {b.edges.length}"

def showCErr : CErr → String
  | .value => "ValueError" | .zeroDiv => "ZeroDivisionError" | .index => "IndexError" | .notImpl => "NotImplementedError"

def showBErr : BErr → String
  | .bug => "bug" | .notImpl => "NotImplementedError" | .arity => "arity" | .ctor e => "ctor-" ++ showCErr e
  | .value => "ValueError" | .typeMismatch => "typeMismatch"

def showRes : ResB → String
  | .ok none => "none"
  | .ok (some o) => showObj o
  | .error e => s!"err {showBErr e}"

def showBool (b : Bool) : String := if b then "true" else "false"

/-- `x in c` (the supported cases of C05); `none` = the library raises / is not defined here -/
def memObj (x c : Obj) : Option Bool :=
  match x, c with
  | .flat (.point p), .flat (.line l) => some (l.contains p)
  | .flat (.point p), .flat (.halfline h) => some (h.contains p)
  | .flat (.point p), .flat (.seg s) => some (s.contains p)
  | .flat (.point p), .flat (.plane pl) => some (pl.contains p)
  | .flat (.point p), .polygon g => some (g.contains p)
  | .flat (.point p), .polyhedron b => some (b.contains p)
  | .flat (.seg s), .flat (.line l) => some (l.containsSeg s)
  | .flat (.seg s), .flat (.halfline h) => some (h.containsSeg s)
  | .flat (.seg s), .flat (.seg t) => some (t.containsSeg s)
  | .flat (.seg s), .flat (.plane pl) => some (pl.containsSeg s)
  | .flat (.seg s), .polygon g => some (g.containsSeg s)
  | .flat (.seg s), .polyhedron b => some (b.containsSeg s)
  | .flat (.halfline h), .flat (.line l) => some (l.containsHalfLine h)
  | .flat (.halfline h), .flat (.halfline k) => some (k.containsHL h)
  | .flat (.halfline h), .flat (.plane pl) => some (pl.containsHalfLine h)
  | .flat (.line l), .flat (.plane pl) => some (pl.containsLine l)
  | .polygon g, .flat (.plane pl) => some (g.inPlane pl)
  | .polygon g, .polyhedron b => some (b.containsPolygon g)
  | _, _ => none

def aobj : Arg → Option AObj
  | .obj (.flat (.line l)) => some (.line l)
  | .obj (.flat (.plane p)) => some (.plane p)
  | .vec v => some (.vec v)
  | _ => none

def distSq (a b : Obj) : Option (Except DErr Rat) :=
  match a, b with
  | .flat x, .flat y => distSqGeo x y
  | _, _ => none

def showRats (l : List Rat) : String := " ".intercalate (l.map showRat)

def measureObj : Obj → String
  | .flat (.seg s) => s!"seg {showRat s.lenSq}"
  | .polygon g => s!"polygon nn {showRat (V3.normSq g.plane.n)} areanum {showRat g.areaNum} edges {showRats g.edgeLenSqs}"
  | .polyhedron b =>
      s!"polyhedron vol {showRat b.volume} V {b.verts.length} E {b.edges.length} F {b.faces.length} edges {showRats b.edgeLenSqs} faces " ++
        " ".intercalate (b.faceAreaNums.map (fun p => s!"{showRat p.1} {showRat p.2}"))
  | _ => "err measure"

def two : P (Except CErr Arg × Except CErr Arg) := do let a ← objP; let b ← objP; pure (a, b)

def solveOp : P String := do
  let m ← nat; let n ← nat
  let rows ← many m (many (n + 1) rat)
  let k ← nat
  let free ← many k rat
  let s := Solver2.solve rows
  if !Solver2.solvable s then pure "unsolvable"
  else
    let va := Solver2.varargs n s
    match Solver2.call n s free with
    | .ok vals =>
      if vals.all Option.isSome then pure (s!"solvable varargs {va} vals " ++ showRats (vals.map (·.getD 0)))
      else pure s!"solvable varargs {va} err none-in-result"
    | .error e => pure s!"solvable varargs {va} err {repr e}"

/-- judge: does the tuple `x` satisfy every row of the augmented matrix? (`Solver2.Sat`, decided) -/
def satOp : P String := do
  let m ← nat; let n ← nat
  let rows ← many m (many (n + 1) rat)
  let x ← many n rat
  pure (showBool (rows.all (fun row => Solver2.rowDot row (x ++ [-1]) == 0)))

/-- `tol` followed by setter calls: `e <rat>` set_eps, `s <int>` set_sig_figures, `E` set_eps(), `S` set_sig_figures() -/
def tolOps : List String → Option (List Tol.Op)
  | [] => some []
  | "e" :: r :: rest => do let x ← parseRat r; let tl ← tolOps rest; pure (.setEps x :: tl)
  | "s" :: n :: rest => do let x ← n.toInt?; let tl ← tolOps rest; pure (.setSig x :: tl)
  | "E" :: rest => do let tl ← tolOps rest; pure (.setEpsDefault :: tl)
  | "S" :: rest => do let tl ← tolOps rest; pure (.setSigDefault :: tl)
  | _ => none

/-! heap protocol (C20): `heap` followed by operations
      n k x y z                         new Point / Vector cell of kind k
      b kind owning m (i cp)*m d (x y z)*d   build from m sources (cp = 1 deep copy, 0 alias) plus d derived literal cells
      w root k x y z                    overwrite leaf k of root
      m root j (idx)*j dx dy dz d (x y z)*d  move: shift the listed leaves in place, rebuild d derived literal cells
      c root                            deepcopy
      q                                 query
    output: the observation (leaf values) of every object, `|`-separated -/
def triple : P Heap.Triple := do pure (← rat, ← rat, ← rat)
def bit : P Bool := do let n ← nat; pure (n != 0)

partial def heapOps : P (List Heap.Op) := do
  match (← get) with
  | [] => pure []
  | _ =>
    let op ← (do
      match (← tok) with
      | "n" => do let k ← nat; let v ← triple; pure (Heap.Op.new k v)
      | "b" => do
          let kind ← nat; let ow ← bit; let m ← nat
          let srcs ← many m (do let i ← nat; let cp ← bit; pure (i, cp))
          let d ← nat; let lits ← many d triple
          pure (Heap.Op.build kind ow srcs (fun _ => lits))
      | "w" => do let r ← nat; let k ← nat; let v ← triple; pure (Heap.Op.write r k (fun _ => v))
      | "m" => do
          let r ← nat; let j ← nat; let idx ← many j nat; let dv ← triple
          let d ← nat; let lits ← many d triple
          pure (Heap.Op.move r idx (fun t => (t.1 + dv.1, t.2.1 + dv.2.1, t.2.2 + dv.2.2)) (fun _ => lits))
      | "c" => do let r ← nat; pure (Heap.Op.copy r)
      | "q" => pure Heap.Op.query
      | _ => failure : P Heap.Op)
    let rest ← heapOps
    pure (op :: rest)

def showTriple (t : Heap.Triple) : String := s!"{showRat t.1} {showRat t.2.1} {showRat t.2.2}"

def heapRun (toks : List String) : String :=
  match heapOps.run toks with
  | some (ops, _) =>
    let st := Heap.run ⟨[], []⟩ ops
    " | ".intercalate (st.env.map (fun o => s!"{o.kind}:" ++ " ".intercalate ((Heap.obs st o).map showTriple)))
  | none => "bad-op"

def handle (line : String) : String :=
  let toks := (line.trimAscii.toString.splitOn " ").filter (· ≠ "")
  match toks with
  | "inter" :: rest =>
    match two.run rest with
    | some ((.ok (.obj a), .ok (.obj b)), _) => showRes (inter a b)
    | some ((.ok .none, .ok _), _) => showRes (interOpt none none)
    | some ((.ok _, .ok .none), _) => showRes (interOpt none none)
    | some ((.ok _, .ok _), _) => "err NotImplementedError"
    | some _ => "ctor-error"
    | none => "bad-op"
  | "interhyp" :: rest =>      -- hypotheses of the operands (ExactHyp / Valid) and admissibility of a polyhedron result
    match two.run rest with
    | some ((.ok (.obj a), .ok (.obj b)), _) =>
      let h (o : Obj) : Bool := match o with
        | .polyhedron B => B.exactHypB && B.validB
        | .polygon P => P.validB
        | .flat _ => true
      let r := match inter a b with
        | .ok (some (.polyhedron R)) => "result " ++ showBool (R.exactHypB && R.validB)
        | .ok (some (.polygon Q)) => "result " ++ showBool Q.validB
        | .ok _ => "result na"
        | .error _ => "result err"
      s!"operands {showBool (h a)} {showBool (h b)} {r}"
    | some _ => "ctor-error"
    | none => "bad-op"
  | "inter3" :: rest =>
    match (do let a ← objP; let b ← objP; let c ← objP; pure (a, b, c) : P _).run rest with
    | some ((.ok (.obj a), .ok (.obj b), .ok (.obj c)), _) =>
      let l := match inter a b with
        | .ok (some ab) => inter ab c
        | .ok none => .ok none
        | .error e => .error e
      let r := match inter b c with
        | .ok (some bc) => inter a bc
        | .ok none => .ok none
        | .error e => .error e
      showRes l ++ " | " ++ showRes r
    | some _ => "ctor-error"
    | none => "bad-op"
  | "eq" :: rest =>
    match two.run rest with
    | some ((.ok (.obj (.flat a)), .ok (.obj (.flat b))), _) =>
      match a, b with
      | .point p, .point q => showBool (p == q)
      | .line l, .line m => showBool (l.eqv m)
      | .plane l, .plane m => showBool (l.eqv m)
      | .seg l, .seg m => showBool (l.same m)
      | .halfline l, .halfline m => showBool (l.p == m.p && V3.parallel l.v m.v && decide (0 < V3.dot l.v m.v))
      | _, _ => "false"
    | some ((.ok (.vec a), .ok (.vec b)), _) => showBool (a == b)
    | some ((.ok (.obj (.polygon P)), .ok (.obj (.polygon Q))), _) => showBool (P.same Q)
    | some ((.ok (.obj (.polyhedron A)), .ok (.obj (.polyhedron B))), _) => showBool (A.sameB B)
    | some ((.ok (.obj _), .ok (.obj _)), _) => "false"
    | some _ => "ctor-error"
    | none => "bad-op"
  | "mem" :: rest =>
    match two.run rest with
    | some ((.ok (.obj a), .ok (.obj b)), _) =>
      match memObj a b with
      | some r => showBool r
      | none => "undefined"
    | some _ => "ctor-error"
    | none => "bad-op"
  | "distsq" :: rest =>
    match two.run rest with
    | some ((.ok (.obj a), .ok (.obj b)), _) =>
      match distSq a b with
      | some (.ok r) => showRat r
      | some (.error _) => "err internal"
      | none => "err NotImplementedError"
    | some _ => "ctor-error"
    | none => "bad-op"
  | "angle" :: rest =>
    match two.run rest with
    | some ((.ok a, .ok b), _) =>
      match aobj a, aobj b with
      | some x, some y =>
        match angleRep x y, parallelG x y, orthogonalG x y with
        | some (.acute c), some p, some o => s!"acute {showRat c} {showBool p} {showBool o}"
        | some (.compl c), some p, some o => s!"compl {showRat c} {showBool p} {showBool o}"
        | _, _, _ => "err NotImplementedError"
      | _, _ => "err NotImplementedError"
    | some _ => "ctor-error"
    | none => "bad-op"
  | "measure" :: rest =>
    match objP.run rest with
    | some (.ok (.obj a), _) => measureObj a
    | some _ => "ctor-error"
    | none => "bad-op"
  | "show" :: rest =>
    match objP.run rest with
    | some (.ok (.obj a), _) => showObj a
    | some (.error e, _) => "ctor-error " ++ showCErr e
    | some _ => "bad-op"
    | none => "bad-op"
  | "exacthyp" :: rest =>      -- hypotheses of the K3/K5 exactness theorems, judged on the body as the model constructor stores it
    match objP.run rest with
    | some (.ok (.obj (.polyhedron b)), _) => showBool b.exactHypB ++ " " ++ showBool b.validB
    | some (.ok (.obj (.polygon g)), _) => showBool g.validB ++ " " ++ showBool g.validB
    | some (.error e, _) => "ctor-error " ++ showCErr e
    | some _ => "bad-op"
    | none => "bad-op"
  | "planegf" :: rest =>
    match (do let a ← rat; let b ← rat; let c ← rat; let d ← rat; pure (a, b, c, d) : P _).run rest with
    | some ((a, b, c, d), _) =>
      match Plane.ofGF a b c d with
      | .ok pl => showGeo (.plane pl)
      | .error e => "err " ++ showCErr e
    | none => "bad-op"
  | "validG" :: rest =>
    match (do let n ← v3; let k ← nat; let pts ← many k v3; pure (n, pts) : P _).run rest with
    | some ((n, pts), _) => showBool (polygonValidB n pts)
    | none => "bad-op"
  | "validB" :: rest =>
    match (do let f ← nat; many f (do let n ← v3; let k ← nat; let pts ← many k v3; pure (n, pts)) : P _).run rest with
    | some (faces, _) => showBool (polyhedronValidB faces && interiorF faces)
    | none => "bad-op"
  | "mkG" :: rest =>
    match (do let k ← nat; many k v3 : P _).run rest with
    | some (pts, _) =>
      match Polygon.mk? pts with
      | .ok g => s!"G {g.pts.length} " ++ " ".intercalate (g.pts.map showV) ++ s!" N {showV g.plane.n} VALID {showBool g.validB}"
      | .error e => "err " ++ showCErr e
    | none => "bad-op"
  | "mkGr" :: rest =>      -- ConvexPolygon(points, reverse=True)
    match (do let k ← nat; many k v3 : P _).run rest with
    | some (pts, _) =>
      match Polygon.mk? pts true with
      | .ok g => s!"G {g.pts.length} " ++ " ".intercalate (g.pts.map showV) ++ s!" N {showV g.plane.n} VALID {showBool g.validB}"
      | .error e => "err " ++ showCErr e
    | none => "bad-op"
  | "heap" :: rest => heapRun rest
  | "tol" :: rest =>
    match tolOps rest with
    | some ops =>
      match Tol.run Tol.init ops with
      | some c => s!"{showRat c.eps} {c.sig}"
      | none => "err"
    | none => "bad-op"
  | "solve" :: rest => match solveOp.run rest with | some (s, _) => s | none => "bad-op"
  | "sat" :: rest => match satOp.run rest with | some (s, _) => s | none => "bad-op"
  | _ => "bad-op"

partial def loop (h : IO.FS.Stream) : IO Unit := do
  let line ← h.getLine
  if line.isEmpty then return ()
  IO.println (handle line)
  loop h

def main : IO Unit := do loop (← IO.getStdin)
