import G3D.Model.InterBody
import G3D.Model.Measure
open G3D

/-! line protocol driver (prototype): tokens separated by blanks, rationals as n/d -/

def parseRat (s : String) : Option Rat :=
  match s.splitOn "/" with
  | [n] => n.toInt?.map (fun i => (i : Rat))
  | [n, d] => do
      let a ← n.toInt?
      let b ← d.toNat?
      if b == 0 then none else some (mkRat a b)
  | _ => none

def showRat (r : Rat) : String := if r.den == 1 then toString r.num else s!"{r.num}/{r.den}"
def showV (v : V3) : String := s!"{showRat v.x} {showRat v.y} {showRat v.z}"

abbrev P := StateT (List String) Option

def tok : P String := do
  match (← get) with
  | [] => failure
  | t :: ts => set ts; pure t
def rat : P Rat := do let t ← tok; match parseRat t with | some r => pure r | none => failure
def nat : P Nat := do let t ← tok; match t.toNat? with | some r => pure r | none => failure
def v3 : P V3 := do pure ⟨← rat, ← rat, ← rat⟩
def many {α} (n : Nat) (p : P α) : P (List α) := do
  let mut acc := []
  for _ in [0:n] do acc := acc ++ [← p]
  pure acc

def polygonP : P (Except CErr Polygon) := do
  let n ← nat
  let pts ← many n v3
  pure (Polygon.mk? pts)

/-- object syntax:  P x y z | L sv dv | PL p n | S a b | H p v | G k pts… | B f (k pts…)… -/
def objP : P (Except CErr Obj) := do
  match (← tok) with
  | "P" => do pure (.ok (.flat (.point (← v3))))
  | "L" => do pure (.ok (.flat (.line ⟨← v3, ← v3⟩)))
  | "PL" => do pure (.ok (.flat (.plane ⟨← v3, ← v3⟩)))
  | "S" => do pure (.ok (.flat (.seg (Seg.mk' (← v3) (← v3)))))
  | "H" => do pure (.ok (.flat (.halfline (HalfLine.mk' (← v3) (← v3)))))
  | "G" => do
      match (← polygonP) with
      | .ok g => pure (.ok (.polygon g))
      | .error e => pure (.error e)
  | "B" => do
      let f ← nat
      let faces ← many f polygonP
      match faces.mapM id with
      | .error e => pure (.error e)
      | .ok fs =>
        match Polyhedron.mk? fs with
        | .ok b => pure (.ok (.polyhedron b))
        | .error e => pure (.error e)
  | _ => failure

def showGeo : Geo → String
  | .point p => s!"P {showV p}"
  | .line l => s!"L {showV l.sv} {showV l.dv}"
  | .plane p => s!"PL {showV p.p} {showV p.n}"
  | .seg s => s!"S {showV s.a} {showV s.b}"
  | .halfline h => s!"H {showV h.p} {showV h.v}"

def showObj : Obj → String
  | .flat g => showGeo g
  | .polygon g => s!"G {g.pts.length} " ++ " ".intercalate (g.pts.map showV)
  | .polyhedron b => s!"B {b.verts.length} " ++ " ".intercalate (b.verts.map showV) ++ s!" VOL {showRat b.volume}"

def showRes : ResB → String
  | .ok none => "none"
  | .ok (some o) => showObj o
  | .error e => s!"err {repr e}"

def handle (line : String) : String :=
  let toks := (line.trimAscii.toString.splitOn " ").filter (· ≠ "")
  match toks with
  | "inter" :: rest =>
    match (do let a ← objP; let b ← objP; pure (a, b)).run rest with
    | some ((.ok a, .ok b), _) => showRes (inter a b)
    | some _ => "ctor-error"
    | none => "bad-op"
  | _ => "bad-op"

partial def loop (h : IO.FS.Stream) : IO Unit := do
  let line ← h.getLine
  if line.isEmpty then return ()
  IO.println (handle line)
  loop h

def main : IO Unit := do loop (← IO.getStdin)
