import G3D.Proofs.KTieKforms
import G3D.Proofs.KTieKformsCtor
import G3D.Proofs.KTieKformsLine
import G3D.Proofs.SolverTie
import G3D.Proofs.SolverTieGauss
import G3D.Props.C17
#print axioms G3D.Props.C17.general_form_contains_iff
#print axioms G3D.Props.C17.general_form_roundtrip
#print axioms G3D.Props.C17.three_points_contained
#print axioms G3D.Props.C17.neg_plane
#print axioms G3D.Props.C17.parametric_roundtrip
#print axioms G3D.Props.C17.point_normal_roundtrip
#print axioms G3D.Props.C17.line_forms
#print axioms G3D.Props.C17.line_parametric_roundtrip
#print axioms G3D.KTie.Kforms.generalForm_tie
#print axioms G3D.KTie.Kforms.pointNormal_tie
#print axioms G3D.KTie.Kforms.lineParametric_tie
#print axioms G3D.KTie.Kforms.linePP_tie
#print axioms G3D.KTie.Kforms.lineCtorReject_iff
#print axioms G3D.SolverTie.gaussian_elimination_tie
#print axioms G3D.SolverTie.solve_call_tie
#print axioms G3D.SolverTie.solve_bool_tie
