import G3D.Proofs.KernelsTie
import G3D.Props.C17
#print axioms G3D.Props.C17.general_form_contains_iff
#print axioms G3D.Props.C17.general_form_roundtrip
#print axioms G3D.Props.C17.three_points_contained
#print axioms G3D.Props.C17.neg_plane
#print axioms G3D.Props.C17.parametric_roundtrip
#print axioms G3D.Props.C17.point_normal_roundtrip
#print axioms G3D.Props.C17.line_forms
#print axioms G3D.Props.C17.line_parametric_roundtrip
#print axioms G3D.KernelsTie.generalForm_tie
#print axioms G3D.KernelsTie.pointNormal_tie
#print axioms G3D.KernelsTie.lineParametric_tie
#print axioms G3D.KernelsTie.linePP_tie
#print axioms G3D.KernelsTie.lineCtorReject_iff
