import G3D.Proofs.HandlersTieNoErr
import G3D.Props.C04
import G3D.Props.C04b
import G3D.Props.Classes
#print axioms G3D.Props.C04.dispatch_total
#print axioms G3D.Props.C04.dispatch_symmetric
#print axioms G3D.Props.C04.none_guard
#print axioms G3D.Props.C04.rejects_foreign
#print axioms G3D.Props.C04.inter_eq_ref
#print axioms G3D.Props.C04.interOpt_none
#print axioms G3D.Props.C04.inter_comm_of_ne
#print axioms G3D.Props.C04.doc_covers_all_pairs
#print axioms G3D.Props.C04.doc_rows_allow_none
#print axioms G3D.Props.C04.result_type_documented
#print axioms G3D.Props.C04.never_undocumented
#print axioms G3D.Props.Classes.geobody_forwards
#print axioms G3D.Props.Classes.method_form_is_function_form
#print axioms G3D.Props.Classes.point_not_geobody
#print axioms G3D.Props.C04.never_raises_admissible
#print axioms G3D.Props.C04.never_raises_all_of_euler
#print axioms G3D.Props.C04.polyhedron_polyhedron_raises_only_euler
#print axioms G3D.Props.C04.never_raises
#print axioms G3D.Tie.interLineLine_ne_error
#print axioms G3D.Tie.interSegSeg_onlyBug
#print axioms G3D.Tie.interSegHalfLine_onlyBug
#print axioms G3D.Tie.interHalfLineHalfLine_onlyBug
#print axioms G3D.Tie.interLineSeg_onlyBug
#print axioms G3D.Tie.interPlaneSeg_onlyBug
#print axioms G3D.Tie.interPlanePlane_onlyBug
