import G3D.Props.C04
#print axioms G3D.Props.C04.dispatch_total
#print axioms G3D.Props.C04.dispatch_symmetric
#print axioms G3D.Props.C04.none_guard
#print axioms G3D.Props.C04.rejects_foreign
#print axioms G3D.Props.C04.inter_eq_ref
#print axioms G3D.Props.C04.interOpt_none
#print axioms G3D.Props.C04.inter_comm_of_ne
#print axioms G3D.Props.C04.doc_covers_all_pairs
#print axioms G3D.Props.C04.doc_rows_allow_none
