import G3D.Proofs.HandlersTieBody
import G3D.Props.C03
#print axioms G3D.Props.C03.inter_polygon_polygon_noncoplanar_exact
#print axioms G3D.Props.C03.inter_polygon_polygon_noncoplanar_total
#print axioms G3D.Props.C03.inter_body_sound
#print axioms G3D.Props.C03.inter_polygon_polygon_sound
#print axioms G3D.Props.C03.inter_polygon_polygon_exact
#print axioms G3D.Props.C03.inter_polygon_polygon_result_valid
#print axioms G3D.Props.C03.inter_polygon_polygon_total
#print axioms G3D.Props.C03.inter_polygon_polyhedron_exact
#print axioms G3D.Props.C03.inter_polygon_polyhedron_total
#print axioms G3D.Props.C03.inter_polyhedron_polyhedron_exact_of_ok
#print axioms G3D.Props.C03.inter_polyhedron_polyhedron_no_bug
#print axioms G3D.Props.C03.inter_polyhedron_polyhedron_none_iff
#print axioms G3D.Props.C03.inter_polyhedron_polyhedron_total_or_ctor
#print axioms G3D.Props.C03.inter_polyhedron_polyhedron_ok_or_euler
#print axioms G3D.Props.C03.inter_polyhedron_polyhedron_result_valid
#print axioms G3D.Props.C03.inter_polyhedron_polyhedron_exact_of_euler
#print axioms G3D.Props.C03.inter_polyhedron_polyhedron_exact
#print axioms G3D.Props.C03.inter_exact_every_pair
#print axioms G3D.Props.C03.euler_formula
#print axioms G3D.Tie.h_points_in_a_line_eq
#print axioms G3D.Tie.h_get_segment_convexpolygon_intersection_point_set_eq
#print axioms G3D.Tie.h_inter_convexpolygon_convexPolyhedron_eq
#print axioms G3D.Tie.h_inter_convexpolyhedron_convexpolyhedron_eq
#print axioms G3D.Tie.h_inter_convexpolygon_convexpolygon_eq_of_valid
