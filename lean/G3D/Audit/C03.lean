import G3D.Props.C03
#print axioms G3D.Props.C03.inter_polygon_polygon_noncoplanar_exact
#print axioms G3D.Props.C03.inter_polygon_polygon_noncoplanar_total
#print axioms G3D.Props.C03.inter_body_sound
#print axioms G3D.Props.C03.inter_polygon_polygon_sound
#print axioms G3D.Props.C03.inter_polygon_polygon_exact
#print axioms G3D.Props.C03.inter_polygon_polygon_result_valid
#print axioms G3D.Props.C03.inter_polygon_polygon_total
#print axioms G3D.Props.C03.inter_polygon_polyhedron_exact
#print axioms G3D.Props.C03.inter_polygon_polyhedron_total
#print axioms G3D.Props.C03.inter_polyhedron_polyhedron_exact_of_ok
#print axioms G3D.Props.C03.inter_polyhedron_polyhedron_no_bug
#print axioms G3D.Props.C03.inter_polyhedron_polyhedron_none_iff
#print axioms G3D.Props.C03.inter_polyhedron_polyhedron_total_or_ctor
