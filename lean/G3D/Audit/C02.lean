import G3D.Proofs.HandlersTiePolygon
import G3D.Proofs.HandlersTiePolyhedron
import G3D.Props.C02
#print axioms G3D.Props.C02.inter_flat_polygon_exact
#print axioms G3D.Props.C02.inter_line_polygon_typed
#print axioms G3D.Props.C02.polygon_contains_iff_hull
#print axioms G3D.Props.C02.polyhedron_hull_subset_contains_partial
#print axioms G3D.Props.C02.inter_flat_polyhedron_sound
#print axioms G3D.Props.C02.polyhedron_contains_iff_hull
#print axioms G3D.Props.C02.inter_flat_polyhedron_exact
#print axioms G3D.Props.C02.exact_hypothesis_decidable
#print axioms G3D.Props.C02.coplanar_neighbours_break_exactness
#print axioms G3D.Props.C02.constructed_polyhedron_meets_hypothesis
#print axioms G3D.Props.C02.inter_flat_constructed_polyhedron_exact
#print axioms G3D.Tie.h_inter_point_convexpolygon_eq
#print axioms G3D.Tie.h_inter_line_convexpolygon_eq
#print axioms G3D.Tie.h_inter_plane_convexpolygon_eq
#print axioms G3D.Tie.h_inter_segment_convexpolygon_eq
#print axioms G3D.Tie.h_inter_convexpolygon_halfline_eq
#print axioms G3D.Tie.h_get_segment_from_point_list_eq
#print axioms G3D.Tie.h_get_segment_convexpolyhedron_intersection_point_set_eq
#print axioms G3D.Tie.h_get_halfline_convexpolyhedron_intersection_point_set_eq
#print axioms G3D.Tie.h_inter_point_convexpolyhedron_eq
#print axioms G3D.Tie.h_inter_line_convexpolyhedron_eq
#print axioms G3D.Tie.h_inter_plane_convexpolyhedron_eq
#print axioms G3D.Tie.h_inter_segment_convexpolyhedron_eq
#print axioms G3D.Tie.h_inter_convexpolyhedron_halfline_eq
