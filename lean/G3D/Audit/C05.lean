import G3D.Proofs.KernelsTie
import G3D.Proofs.KernelsTieReal
import G3D.Props.C05
#print axioms G3D.Props.C05.point_in_line
#print axioms G3D.Props.C05.point_in_plane
#print axioms G3D.Props.C05.point_in_segment
#print axioms G3D.Props.C05.point_in_halfline
#print axioms G3D.Props.C05.point_in_polygon
#print axioms G3D.Props.C05.point_in_polyhedron_partial
#print axioms G3D.Props.C05.segment_in_line
#print axioms G3D.Props.C05.segment_in_plane
#print axioms G3D.Props.C05.segment_in_polygon
#print axioms G3D.Props.C05.line_in_plane
#print axioms G3D.Props.C05.segment_in_segment
#print axioms G3D.Props.C05.segment_in_halfline
#print axioms G3D.Props.C05.segment_in_polyhedron_partial
#print axioms G3D.Props.C05.halfline_in_line
#print axioms G3D.Props.C05.halfline_in_plane
#print axioms G3D.Props.C05.halfline_in_halfline
#print axioms G3D.Props.C05.polygon_in_plane
#print axioms G3D.Props.C05.polygon_in_polyhedron_partial
#print axioms G3D.Props.C05.point_in_polyhedron
#print axioms G3D.Props.C05.polyhedron_judge_sound
#print axioms G3D.Props.C05.segment_in_polyhedron
#print axioms G3D.Props.C05.polygon_in_polyhedron
#print axioms G3D.KernelsTie.planeContains_iff
#print axioms G3D.KernelsTie.planeContains_shape
#print axioms G3D.KernelsTie.planeContainsLine_iff
#print axioms G3D.KernelsTie.halfLineContains_iff
#print axioms G3D.KernelsTie.halfLineContains_shape
#print axioms G3D.KernelsTieReal.lineContains_cast
#print axioms G3D.KernelsTieReal.segContains_iff
#print axioms G3D.KernelsTieReal.segContains_paths
#print axioms G3D.KernelsTieReal.planeContainsN_cast
