import G3D.Proofs.KTieKmember
import G3D.Proofs.KTieKmemberr
import G3D.Props.C05
#print axioms G3D.Props.C05.point_in_line
#print axioms G3D.Props.C05.point_in_plane
#print axioms G3D.Props.C05.point_in_segment
#print axioms G3D.Props.C05.point_in_halfline
#print axioms G3D.Props.C05.point_in_polygon
#print axioms G3D.Props.C05.point_in_polyhedron_partial
#print axioms G3D.Props.C05.segment_in_line
#print axioms G3D.Props.C05.segment_in_plane
#print axioms G3D.Props.C05.segment_in_polygon
#print axioms G3D.Props.C05.line_in_plane
#print axioms G3D.Props.C05.segment_in_segment
#print axioms G3D.Props.C05.segment_in_halfline
#print axioms G3D.Props.C05.segment_in_polyhedron_partial
#print axioms G3D.Props.C05.halfline_in_line
#print axioms G3D.Props.C05.halfline_in_plane
#print axioms G3D.Props.C05.halfline_in_halfline
#print axioms G3D.Props.C05.polygon_in_plane
#print axioms G3D.Props.C05.polygon_in_polyhedron_partial
#print axioms G3D.Props.C05.point_in_polyhedron
#print axioms G3D.Props.C05.polyhedron_judge_sound
#print axioms G3D.Props.C05.segment_in_polyhedron
#print axioms G3D.Props.C05.polygon_in_polyhedron
#print axioms G3D.KTie.Kmember.planeContains_iff
#print axioms G3D.KTie.Kmember.planeContains_shape
#print axioms G3D.KTie.Kmember.planeContainsLine_iff
#print axioms G3D.KTie.Kmember.halfLineContains_iff
#print axioms G3D.KTie.Kmember.halfLineContains_paths
#print axioms G3D.KTie.Kmember.lineContains_cast
#print axioms G3D.KTie.Kmember.segContains_iff
#print axioms G3D.KTie.Kmember.segContains_paths_main
#print axioms G3D.KTie.Kmember.planeContainsN_cast
