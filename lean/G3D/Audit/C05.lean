import G3D.Props.C05
#print axioms G3D.Props.C05.point_in_line
#print axioms G3D.Props.C05.point_in_plane
#print axioms G3D.Props.C05.point_in_segment
#print axioms G3D.Props.C05.point_in_halfline
#print axioms G3D.Props.C05.point_in_polygon
#print axioms G3D.Props.C05.point_in_polyhedron_partial
#print axioms G3D.Props.C05.segment_in_line
#print axioms G3D.Props.C05.segment_in_plane
#print axioms G3D.Props.C05.segment_in_polygon
#print axioms G3D.Props.C05.line_in_plane
#print axioms G3D.Props.C05.segment_in_segment
#print axioms G3D.Props.C05.segment_in_halfline
#print axioms G3D.Props.C05.segment_in_polyhedron_partial
