import G3D.Props.C06
#print axioms G3D.Props.C06.polygon_area_is_shoelace
#print axioms G3D.Props.C06.fan_centre_independent
#print axioms G3D.Props.C06.closed_surface_vector_area_zero
#print axioms G3D.Props.C06.volume_reference_independent
#print axioms G3D.Props.C06.pyramid_volume_term
#print axioms G3D.Props.C06.centre_in_hull
#print axioms G3D.Props.C06.heron_is_half_cross
