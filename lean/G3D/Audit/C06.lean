import G3D.Proofs.KTieKarea
import G3D.Proofs.KTieKvecLen
import G3D.Proofs.MethodsTiePolygonLength
import G3D.Props.C06
#print axioms G3D.Props.C06.polygon_area_is_shoelace
#print axioms G3D.Props.C06.fan_centre_independent
#print axioms G3D.Props.C06.closed_surface_vector_area_zero
#print axioms G3D.Props.C06.volume_reference_independent
#print axioms G3D.Props.C06.pyramid_volume_term
#print axioms G3D.Props.C06.centre_in_hull
#print axioms G3D.Props.C06.heron_is_half_cross
#print axioms G3D.Props.C06.polygon_measures_input_order
#print axioms G3D.Props.C06.polygon_area_sq_is_vector_area
#print axioms G3D.Props.C06.neg_polygon_measures
#print axioms G3D.Props.C06.polyhedron_measures_order_orientation
#print axioms G3D.Props.C06.polyhedron_volume_is_surface_integral
#print axioms G3D.Props.C06.face_from_any_vertex_order
#print axioms G3D.Props.C06.polyhedron_moved_measures
#print axioms G3D.KTie.Karea.triangleArea_tie
#print axioms G3D.KTie.Kvec.length_cast
#print axioms G3D.Tie.m_ConvexPolygon_length_eq
#print axioms G3D.Tie.segments_lenSq
