import G3D.Proofs.KTieKarea
import G3D.Proofs.KTieKvecLen
import G3D.Proofs.MeasTieBase
import G3D.Proofs.MeasTieExamples
import G3D.Proofs.MeasTieKernels
import G3D.Proofs.MeasTiePolygon
import G3D.Proofs.MeasTiePolyhedronArea
import G3D.Proofs.MeasTiePolyhedronLength
import G3D.Proofs.MeasTiePolyhedronVolume
import G3D.Proofs.MeasTiePyramid
import G3D.Proofs.MeasTiePyramidHeight
import G3D.Proofs.MeasTieSegment
import G3D.Proofs.MeasTieVolume
import G3D.Proofs.MeasTieVolumeEq
import G3D.Proofs.MethodsTiePolygonLength
import G3D.Props.C06
#print axioms G3D.Props.C06.polygon_area_is_shoelace
#print axioms G3D.Props.C06.fan_centre_independent
#print axioms G3D.Props.C06.closed_surface_vector_area_zero
#print axioms G3D.Props.C06.volume_reference_independent
#print axioms G3D.Props.C06.pyramid_volume_term
#print axioms G3D.Props.C06.centre_in_hull
#print axioms G3D.Props.C06.heron_is_half_cross
#print axioms G3D.Props.C06.polygon_measures_input_order
#print axioms G3D.Props.C06.polygon_area_sq_is_vector_area
#print axioms G3D.Props.C06.neg_polygon_measures
#print axioms G3D.Props.C06.polyhedron_measures_order_orientation
#print axioms G3D.Props.C06.polyhedron_volume_is_surface_integral
#print axioms G3D.Props.C06.face_from_any_vertex_order
#print axioms G3D.Props.C06.polyhedron_moved_measures
#print axioms G3D.KTie.Karea.triangleArea_tie
#print axioms G3D.KTie.Kvec.length_cast
#print axioms G3D.Tie.m_ConvexPolygon_length_eq
#print axioms G3D.Tie.segments_lenSq
#print axioms G3D.MeasTie.Segment.m_Segment_length_real
#print axioms G3D.MeasTie.Segment.m_Segment_length_tie
#print axioms G3D.MeasTie.Polygon.m_get_triangle_area_karea
#print axioms G3D.MeasTie.Polygon.m_get_triangle_area_tie
#print axioms G3D.MeasTie.Polygon.m_ConvexPolygon_area_cyc
#print axioms G3D.MeasTie.Polygon.m_ConvexPolygon_area_tie
#print axioms G3D.MeasTie.Polygon.m_ConvexPolygon_area_of_mean
#print axioms G3D.MeasTie.Polygon.m_ConvexPolygon_area_plane_irrelevant
#print axioms G3D.MeasTie.Pyramid.m_Pyramid_height_real
#print axioms G3D.MeasTie.Pyramid.m_Pyramid_height_tie
#print axioms G3D.MeasTie.Pyramid.m_Pyramid_volume_unfold
#print axioms G3D.MeasTie.Pyramid.m_Pyramid_volume_tie
#print axioms G3D.MeasTie.Polyhedron.m_ConvexPolyhedron_length_sum
#print axioms G3D.MeasTie.Polyhedron.m_ConvexPolyhedron_length_tie
#print axioms G3D.MeasTie.Polyhedron.m_ConvexPolyhedron_length_model
#print axioms G3D.MeasTie.Polyhedron.m_ConvexPolyhedron_area_sum
#print axioms G3D.MeasTie.Polyhedron.m_ConvexPolyhedron_area_tie
#print axioms G3D.MeasTie.Polyhedron.m_ConvexPolyhedron_volume_sum
#print axioms G3D.MeasTie.Polyhedron.m_ConvexPolyhedron_volume_tie
#print axioms G3D.MeasTie.Polyhedron.m_ConvexPolyhedron_volume_model
#print axioms G3D.MeasTie.Volume.m_volume_other
#print axioms G3D.MeasTie.Volume.m_volume_pyramid_real
#print axioms G3D.MeasTie.Volume.m_volume_pyramid_tie
#print axioms G3D.MeasTie.Volume.m_volume_polyhedron_real
#print axioms G3D.MeasTie.Volume.m_volume_polyhedron_tie
#print axioms G3D.MeasTie.Volume.m_volume_zero
#print axioms G3D.MeasTie.VolumeEq.distance_eq_height
#print axioms G3D.MeasTie.VolumeEq.volume_fn_eq_method_pyramid_real
#print axioms G3D.MeasTie.VolumeEq.volume_fn_eq_method_pyramid
#print axioms G3D.MeasTie.VolumeEq.volume_fn_eq_method_polyhedron_real
#print axioms G3D.MeasTie.VolumeEq.volume_fn_eq_method_polyhedron
#print axioms G3D.MeasTie.Kernels.pointDistance_kdist
#print axioms G3D.MeasTie.Kernels.vLength_kvecr
#print axioms G3D.MeasTie.Kernels.vNormalized_kvecr
#print axioms G3D.MeasTie.Kernels.distPointPlane_kdist
#print axioms G3D.MeasTie.Kernels.distPointPlane_model_sq
#print axioms G3D.MeasTie.cyc_fold
#print axioms G3D.MeasTie.closedPairs_eq_cycPairs
#print axioms G3D.MeasTie.tri_half_cross
#print axioms G3D.MeasTie.MeasOK.of_mean
#print axioms G3D.MeasTie.distPointPlane_model
#print axioms G3D.MeasTie.sum_map_perm
#print axioms G3D.MeasTie.vNormalized_idem
#print axioms G3D.MeasTie.Examples.m_ConvexPolygon_area_true
#print axioms G3D.MeasTie.Examples.pyramids_measOK_of_mk?
#print axioms G3D.MeasTie.Examples.volume_of_mk?
#print axioms G3D.MeasTie.Examples.area_of_valid
