import G3D.Proofs.KTieKvecAngle
import G3D.Proofs.KTieKvecClamp
import G3D.Proofs.KTieKvecOrth
import G3D.Proofs.KTieKvecPar
import G3D.Proofs.MethodsTieCalc
import G3D.Props.C11
import G3D.Props.Classes
#print axioms G3D.Props.C11.cosSq_in_range
#print axioms G3D.Props.C11.acute_angle_range
#print axioms G3D.Props.C11.line_plane_range
#print axioms G3D.Props.C11.angle_zero_iff
#print axioms G3D.Props.C11.angle_right_iff
#print axioms G3D.Props.C11.parallel_iff_zero
#print axioms G3D.Props.C11.orthogonal_iff_right
#print axioms G3D.Props.C11.symmetric
#print axioms G3D.Props.C11.total_on_documented
#print axioms G3D.Props.C11.angle_dispatch
#print axioms G3D.Props.C11.parallel_dispatch
#print axioms G3D.Props.C11.orthogonal_dispatch
#print axioms G3D.Props.Classes.geobody_forwards
#print axioms G3D.KTie.Kvec.orthogonal_iff
#print axioms G3D.KTie.Kvec.orthogonal_shape
#print axioms G3D.KTie.Kvec.parallel_cast
#print axioms G3D.KTie.Kvec.parallel_shortcuts
#print axioms G3D.KTie.Kvec.parallel_shape_main
#print axioms G3D.KTie.Kvec.parallelShortcuts_paths
#print axioms G3D.KTie.Kvec.angle_cosSq
#print axioms G3D.KTie.Kvec.angle_cosine_range
#print axioms G3D.KTie.Kvec.angle_path
#print axioms G3D.Tie.m_angle_parallel_eq
#print axioms G3D.Tie.m_angle_orthogonal_eq
#print axioms G3D.Tie.pyGeo_parallel_eq
#print axioms G3D.Tie.pyGeo_orthogonal_eq
#print axioms G3D.Tie.mcalc_complete
#print axioms G3D.KTie.Kvec.angleClamp_paths
#print axioms G3D.KTie.Kvec.acosArg_in_domain
#print axioms G3D.KTie.Kvec.acosArg_of_in_range
#print axioms G3D.KTie.Kvec.angle_ranges_any_rounding
