import G3D.Props.C16
#print axioms G3D.Props.C16.truthy_iff_consistent
#print axioms G3D.Props.C16.call_returns_solution
#print axioms G3D.Props.C16.parameters_read_back
#print axioms G3D.Props.C16.every_solution_reached
#print axioms G3D.Props.C16.elimination_preserves_solutions
