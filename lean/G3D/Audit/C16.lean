import G3D.Proofs.SolverTie
import G3D.Proofs.SolverTieGauss
import G3D.Props.C16
#print axioms G3D.Props.C16.truthy_iff_consistent
#print axioms G3D.Props.C16.call_returns_solution
#print axioms G3D.Props.C16.parameters_read_back
#print axioms G3D.Props.C16.every_solution_reached
#print axioms G3D.Props.C16.elimination_preserves_solutions
#print axioms G3D.SolverTie.null_shape_tie
#print axioms G3D.SolverTie.shape_tie
#print axioms G3D.SolverTie.find_pivot_row_tie
#print axioms G3D.SolverTie.gaussian_elimination_tie
#print axioms G3D.SolverTie.nullrow_tie
#print axioms G3D.SolverTie.count_tie
#print axioms G3D.SolverTie.index_tie
#print axioms G3D.SolverTie.first_nonzero_tie
#print axioms G3D.SolverTie.init_tie
#print axioms G3D.SolverTie.bool_tie
#print axioms G3D.SolverTie.nonzero_tie
#print axioms G3D.SolverTie.call_tie
#print axioms G3D.SolverTie.solve_tie
#print axioms G3D.SolverTie.solution_fields
#print axioms G3D.SolverTie.solve_call_tie
#print axioms G3D.SolverTie.solve_bool_tie
