import G3D.Proofs.KernelsTieReal
import G3D.Props.C10
import G3D.Props.Classes
#print axioms G3D.Props.C10.distance_is_minimum
#print axioms G3D.Props.C10.distance_symm
#print axioms G3D.Props.C10.distance_zero_iff_meet
#print axioms G3D.Props.C10.distance_dispatch_documented
#print axioms G3D.Props.C10.distance_dispatch_rest_raises
#print axioms G3D.Props.Classes.geobody_forwards
#print axioms G3D.KernelsTieReal.distPointPoint_cast
#print axioms G3D.KernelsTieReal.distPointLine_tie
#print axioms G3D.KernelsTieReal.distPointPlane_tie
#print axioms G3D.KernelsTieReal.distLineLineSkew_tie
#print axioms G3D.KernelsTieReal.distLineLinePar_tie
#print axioms G3D.KernelsTieReal.distLinePlanePar_tie
#print axioms G3D.KernelsTieReal.distLinePlaneCross_tie
#print axioms G3D.KernelsTieReal.dist_paths
