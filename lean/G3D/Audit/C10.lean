import G3D.Proofs.KTieKdist
import G3D.Props.C10
import G3D.Props.Classes
#print axioms G3D.Props.C10.distance_is_minimum
#print axioms G3D.Props.C10.distance_symm
#print axioms G3D.Props.C10.distance_zero_iff_meet
#print axioms G3D.Props.C10.distance_dispatch_documented
#print axioms G3D.Props.C10.distance_dispatch_rest_raises
#print axioms G3D.Props.Classes.geobody_forwards
#print axioms G3D.KTie.Kdist.distPointPoint_model
#print axioms G3D.KTie.Kdist.pointDistance_model
#print axioms G3D.KTie.Kdist.distPointLine_tie
#print axioms G3D.KTie.Kdist.distPointPlane_tie
#print axioms G3D.KTie.Kdist.distLineLineSkew_tie
#print axioms G3D.KTie.Kdist.distLineLinePar_tie
#print axioms G3D.KTie.Kdist.distLinePlanePar_tie
#print axioms G3D.KTie.Kdist.distLinePlaneCross_tie
#print axioms G3D.KTie.Kdist.distPointLine_path
#print axioms G3D.KTie.Kdist.distPointPlane_path
#print axioms G3D.KTie.Kdist.distLineLineSkew_path
#print axioms G3D.KTie.Kdist.distLineLinePar_path
#print axioms G3D.KTie.Kdist.distLinePlanePar_path
#print axioms G3D.KTie.Kdist.distLinePlaneCross_path
