import G3D.Props.C10
import G3D.Props.Classes
#print axioms G3D.Props.C10.distance_is_minimum
#print axioms G3D.Props.C10.distance_symm
#print axioms G3D.Props.C10.distance_zero_iff_meet
#print axioms G3D.Props.C10.distance_dispatch_documented
#print axioms G3D.Props.C10.distance_dispatch_rest_raises
#print axioms G3D.Props.Classes.geobody_forwards
