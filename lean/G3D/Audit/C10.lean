import G3D.Props.C10
#print axioms G3D.Props.C10.distance_is_minimum
#print axioms G3D.Props.C10.distance_symm
#print axioms G3D.Props.C10.distance_zero_iff_meet
#print axioms G3D.Props.C10.distance_dispatch_documented
#print axioms G3D.Props.C10.distance_dispatch_rest_raises
