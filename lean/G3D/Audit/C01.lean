import G3D.Proofs.HandlersTieFlat
import G3D.Proofs.KTieKinter
import G3D.Proofs.KTieKinterr
import G3D.Props.C01
#print axioms G3D.Props.C01.inter_flat_exact
#print axioms G3D.Props.C01.inter_flat_none_iff
#print axioms G3D.Props.C01.inter_flat_no_error
#print axioms G3D.Props.C01.inter_flat_seg_proper
#print axioms G3D.Props.C01.inter_flat
#print axioms G3D.KTie.Kinter.interLinePlane_tie
#print axioms G3D.KTie.Kinter.interLinePlane_guards
#print axioms G3D.KTie.Kinter.interLinePlane_paths
#print axioms G3D.KTie.Kinter.interPlanePlane_tie
#print axioms G3D.KTie.Kinter.interPlanePlane_path
#print axioms G3D.Tie.h_inter_segment_segment_eq
#print axioms G3D.Tie.h_inter_segment_halfline_eq
#print axioms G3D.Tie.h_inter_halfline_halfline_eq
#print axioms G3D.Tie.h_inter_line_segment_eq
#print axioms G3D.Tie.h_inter_line_halfline_eq
#print axioms G3D.Tie.h_inter_plane_segment_eq
#print axioms G3D.Tie.h_inter_plane_halfline_eq
#print axioms G3D.Tie.h_inter_point_point_eq
#print axioms G3D.Tie.h_inter_point_line_eq
#print axioms G3D.Tie.h_inter_point_plane_eq
#print axioms G3D.Tie.h_inter_point_segment_eq
#print axioms G3D.Tie.h_inter_point_halfline_eq
