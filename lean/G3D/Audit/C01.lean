import G3D.Props.C01
#print axioms G3D.Props.C01.inter_flat_exact
#print axioms G3D.Props.C01.inter_flat_none_iff
#print axioms G3D.Props.C01.inter_flat_no_error
#print axioms G3D.Props.C01.inter_flat_seg_proper
#print axioms G3D.Props.C01.inter_flat
