import G3D.Proofs.KTieKinter
import G3D.Proofs.KTieKinterr
import G3D.Props.C01
#print axioms G3D.Props.C01.inter_flat_exact
#print axioms G3D.Props.C01.inter_flat_none_iff
#print axioms G3D.Props.C01.inter_flat_no_error
#print axioms G3D.Props.C01.inter_flat_seg_proper
#print axioms G3D.Props.C01.inter_flat
#print axioms G3D.KTie.Kinter.interLinePlane_tie
#print axioms G3D.KTie.Kinter.interLinePlane_guards
#print axioms G3D.KTie.Kinter.interLinePlane_paths
#print axioms G3D.KTie.Kinter.interPlanePlane_tie
#print axioms G3D.KTie.Kinter.interPlanePlane_path
