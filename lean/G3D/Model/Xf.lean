import G3D.Model.InterFlat
/-! C13: the 48 signed axis permutations, translations and positive uniform scalings acting on the flat
    types (points by x ↦ k·σx + t, directions by d ↦ k·σd, normals by n ↦ σn). -/
namespace G3D
open V3

inductive Perm3 | xyz | xzy | yxz | yzx | zxy | zyx
deriving DecidableEq, Repr

structure SP where
  p : Perm3
  sx : Bool
  sy : Bool
  sz : Bool
deriving DecidableEq, Repr

def sgn (b : Bool) : Rat := if b then -1 else 1

def Perm3.apply : Perm3 → V3 → V3
  | .xyz, v => ⟨v.x, v.y, v.z⟩
  | .xzy, v => ⟨v.x, v.z, v.y⟩
  | .yxz, v => ⟨v.y, v.x, v.z⟩
  | .yzx, v => ⟨v.y, v.z, v.x⟩
  | .zxy, v => ⟨v.z, v.x, v.y⟩
  | .zyx, v => ⟨v.z, v.y, v.x⟩

def Perm3.sign : Perm3 → Rat
  | .xyz => 1 | .xzy => -1 | .yxz => -1 | .yzx => 1 | .zxy => 1 | .zyx => -1

def SP.apply (s : SP) (v : V3) : V3 :=
  let w := s.p.apply v
  ⟨sgn s.sx * w.x, sgn s.sy * w.y, sgn s.sz * w.z⟩

def SP.det (s : SP) : Rat := s.p.sign * sgn s.sx * sgn s.sy * sgn s.sz

structure Xf where
  s : SP
  t : V3
  k : Rat        -- k > 0

def Xf.pt (T : Xf) (x : V3) : V3 := add (smul T.k (T.s.apply x)) T.t
def Xf.dir (T : Xf) (d : V3) : V3 := smul T.k (T.s.apply d)
def Xf.nrm (T : Xf) (n : V3) : V3 := T.s.apply n

def Xf.geo (T : Xf) : Geo → Geo
  | .point p => .point (T.pt p)
  | .line l => .line ⟨T.pt l.sv, T.dir l.dv⟩
  | .plane p => .plane ⟨T.pt p.p, T.nrm p.n⟩
  | .seg s => .seg (Seg.mk' (T.pt s.a) (T.pt s.b))
  | .halfline h => .halfline (HalfLine.mk' (T.pt h.p) (T.dir h.v))
end G3D
