import G3D.Model.Flat
import G3D.Model.Polygon
/-! ConvexPolygon / ConvexPolyhedron: constructors (dedup, plane from the first three points, angular
    sort about the centroid, orientation repair, Euler check), membership, segments. -/
namespace G3D
open V3

inductive CErr | value | zeroDiv | index | notImpl
deriving DecidableEq, Repr

/-- duplicate-free copy keeping first occurrences: `sorted(set(points), key=points.index)` -/
def dedupV : List V3 → List V3
  | [] => []
  | p :: ps => p :: (dedupV ps).filter (· != p)

def sumV (l : List V3) : V3 := l.foldl add zero
def meanV (l : List V3) : V3 := smul (1 / (l.length : Rat)) (sumV l)

/-! ### exact angular order (replaces `atan2` on the unnormalised frame) -/
/-- 0: angle 0 · 1: (0,π) · 2: π · 3: (π,2π) -/
def angCls (y z : Rat) : Nat :=
  if z = 0 then (if 0 ≤ y then 0 else 2) else if 0 < z then 1 else 3

def angLt (k1 k2 : Rat × Rat) : Bool :=
  let c1 := angCls k1.1 k1.2
  let c2 := angCls k2.1 k2.2
  if c1 < c2 then true
  else if c1 = c2 ∧ (c1 = 1 ∨ c1 = 3) then decide (0 < k1.1 * k2.2 - k1.2 * k2.1)
  else false

def angEq (k1 k2 : Rat × Rat) : Bool :=
  let c1 := angCls k1.1 k1.2
  let c2 := angCls k2.1 k2.2
  c1 == c2 && ((c1 == 0 || c1 == 2) || (k1.1 * k2.2 - k1.2 * k2.1 == 0))

/-- `angle_point_dict[angle] = point` followed by `sorted(dict)`: insertion into an angle-sorted
    association list, a later point with the same angle replaces the earlier one -/
def angInsert (k : Rat × Rat) (p : V3) : List ((Rat × Rat) × V3) → List ((Rat × Rat) × V3)
  | [] => [(k, p)]
  | (k', p') :: rest =>
    if angEq k k' then (k', p) :: rest
    else if angLt k k' then (k, p) :: (k', p') :: rest
    else (k', p') :: angInsert k p rest

structure Polygon where
  pts : List V3
  plane : Plane
  center : V3
deriving DecidableEq, Repr

def Polygon.mk? (input : List V3) (reverse : Bool := false) : Except CErr Polygon :=
  let ded := dedupV input
  if input.length < 3 then .error .value
  else match ded with
    | p0 :: p1 :: p2 :: _ =>
      let n0 := cross (sub p1 p0) (sub p2 p0)
      if n0 = zero then .error .zeroDiv
      else
        let n := if reverse then neg n0 else n0
        let plane : Plane := ⟨p0, n⟩
        let c := meanV ded
        let v0 := sub p0 c
        if v0 = zero then .error .zeroDiv
        else if !(ded.all plane.contains) then .error .value
        else
          let v1 := cross n v0
          let sorted := ded.foldl (fun acc p =>
              let pv := sub p c
              angInsert (dot pv v0, dot pv v1) p acc) []
          .ok ⟨sorted.map (·.2), plane, c⟩
    | _ => .error .index

/-- the code's edge test value `(x - a) . (n × (b - a))` -/
def edgeSide (n a b x : V3) : Rat := dot (sub x a) (cross n (sub b a))

/-- `ConvexPolygon.__contains__(Point)` -/
def Polygon.contains (P : Polygon) (x : V3) : Bool :=
  P.plane.contains x && (closedPairs P.pts).all (fun e => decide (0 ≤ edgeSide P.plane.n e.1 e.2 x))

/-- `ConvexPolygon.__contains__(Segment)` -/
def Polygon.containsSeg (P : Polygon) (s : Seg) : Bool := P.contains s.a && P.contains s.b

/-- `-polygon` -/
def Polygon.neg? (P : Polygon) : Except CErr Polygon := Polygon.mk? P.pts true

/-- `ConvexPolygon.in_(Plane)` : `self.plane == other` -/
def Polygon.inPlane (P : Polygon) (pl : Plane) : Bool := P.plane.eqv pl

/-- `segments()`: `Segment(points[i], points[i+1])`; the constructor rejects identical points -/
def Polygon.segments? (P : Polygon) : Except CErr (List Seg) :=
  (closedPairs P.pts).mapM (fun e => if e.1 = e.2 then .error .value else .ok (Seg.mk' e.1 e.2))

/-- unordered equality of segments (`Segment.__eq__`) -/
def Seg.same (s o : Seg) : Bool := (s.a == o.a && s.b == o.b) || (s.b == o.a && s.a == o.b)

def addSeg (l : List Seg) (s : Seg) : List Seg := if l.any (·.same s) then l else l ++ [s]
def addPt (l : List V3) (p : V3) : List V3 := if p ∈ l then l else l ++ [p]

structure Polyhedron where
  faces : List Polygon
  verts : List V3
  edges : List Seg
  pyramids : List (Polygon × V3)
  center : V3
deriving Repr

/-- per face of the constructor loop: flip towards-centre faces (`-convex_polygon`), then build the
    pyramid from the ORIGINAL polygon (raises when the centre lies in the face plane) -/
def orientFace (c : V3) (f : Polygon) : Except CErr (Polygon × (Polygon × V3)) := do
  let f' ← if dot (sub f.plane.p c) f.plane.n < 0 then f.neg? else pure f
  if f.plane.contains c then .error .value else pure (f', (f, c))

def collectVerts (input : List Polygon) : List V3 := input.foldl (fun acc f => f.pts.foldl addPt acc) []

def collectEdges : List Polygon → List Seg → Except CErr (List Seg)
  | [], acc => .ok acc
  | f :: fs, acc => do
    let ss ← f.segments?
    collectEdges fs (ss.foldl addSeg acc)

def Polyhedron.mk? (input : List Polygon) : Except CErr Polyhedron := do
  let verts := collectVerts input
  let edges ← collectEdges input []
  if verts.length = 0 then .error .zeroDiv
  else
    let c := meanV verts
    let fp ← input.mapM (orientFace c)
    let faces := fp.map (·.1)
    let pyr := fp.map (·.2)
    if !(faces.all (fun f => decide (0 ≤ dot (sub f.plane.p c) f.plane.n))) then .error .value
    else if (verts.length : Int) - edges.length + faces.length != 2 then .error .value
    else pure ⟨faces, verts, edges, pyr, c⟩

/-- `ConvexPolyhedron.__contains__(Point)` -/
def Polyhedron.contains (B : Polyhedron) (x : V3) : Bool :=
  B.faces.all (fun f => decide (dot (sub x f.center) f.plane.n ≤ 0))

def Polyhedron.containsSeg (B : Polyhedron) (s : Seg) : Bool := B.contains s.a && B.contains s.b
def Polyhedron.containsPolygon (B : Polyhedron) (P : Polygon) : Bool := P.pts.all B.contains
end G3D
