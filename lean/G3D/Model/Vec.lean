/-! Exact-rational vector model (no Mathlib). -/
namespace G3D

structure V3 where
  x : Rat
  y : Rat
  z : Rat
deriving DecidableEq, Repr, Inhabited

namespace V3
def zero : V3 := ⟨0,0,0⟩
def add (a b : V3) : V3 := ⟨a.x+b.x, a.y+b.y, a.z+b.z⟩
def sub (a b : V3) : V3 := ⟨a.x-b.x, a.y-b.y, a.z-b.z⟩
def smul (k : Rat) (a : V3) : V3 := ⟨k*a.x, k*a.y, k*a.z⟩
def neg (a : V3) : V3 := ⟨-a.x, -a.y, -a.z⟩
def dot (a b : V3) : Rat := a.x*b.x + a.y*b.y + a.z*b.z
def cross (a b : V3) : V3 := ⟨a.y*b.z - a.z*b.y, a.z*b.x - a.x*b.z, a.x*b.y - a.y*b.x⟩
def normSq (a : V3) : Rat := dot a a
/-- exact reading of Vector.parallel: |u.v| = |u||v|  -/
def parallel (u v : V3) : Bool := (dot u v)^2 == normSq u * normSq v
end V3

structure Line where
  sv : V3
  dv : V3
deriving DecidableEq, Repr

def Line.contains (l : Line) (p : V3) : Bool := V3.parallel (V3.sub p l.sv) l.dv

end G3D
