import G3D.Model.InterFlat
/-! calc/distance.py — squared distances, through the same auxiliary constructions as the code
    (D6 fixed: parallel lines use the point–line distance). -/
namespace G3D
open V3

inductive DErr | notPoint | notImpl
deriving DecidableEq, Repr

def distSqPointPoint (a b : V3) : Rat := normSq (sub b a)

/-- `aux_plane = Plane(a, b.dv); foot = intersection(aux_plane, b); distance(a, foot)` -/
def distSqPointLine (a : V3) (b : Line) : Except DErr Rat :=
  match interLinePlane b ⟨a, b.dv⟩ with
  | .ok (some (.point foot)) => .ok (distSqPointPoint a foot)
  | _ => .error .notPoint

/-- `aux_line = Line(a, b.n); foot = intersection(aux_line, b); distance(a, foot)` -/
def distSqPointPlane (a : V3) (b : Plane) : Except DErr Rat :=
  match interLinePlane ⟨a, b.n⟩ b with
  | .ok (some (.point foot)) => .ok (distSqPointPoint a foot)
  | _ => .error .notPoint

def distSqLineLine (a b : Line) : Except DErr Rat :=
  if V3.parallel a.dv b.dv then distSqPointLine a.sv b
  else
    let c := cross a.dv b.dv
    .ok ((dot (sub b.sv a.sv) c)^2 / normSq c)

def distSqLinePlane (a : Line) (b : Plane) : Except DErr Rat :=
  if V3.orthogonal a.dv b.n then distSqPointPlane a.sv b else .ok 0
end G3D

namespace G3D
/-- `distance(a, b)` on the flat types (squared), `none` = `NotImplementedError` -/
def distSqGeo : Geo → Geo → Option (Except DErr Rat)
  | .point p, .point q => some (.ok (distSqPointPoint p q))
  | .point p, .line l => some (distSqPointLine p l)
  | .line l, .point p => some (distSqPointLine p l)
  | .line a, .line b => some (distSqLineLine a b)
  | .point p, .plane pl => some (distSqPointPlane p pl)
  | .plane pl, .point p => some (distSqPointPlane p pl)
  | .line l, .plane pl => some (distSqLinePlane l pl)
  | .plane pl, .line l => some (distSqLinePlane l pl)
  | _, _ => none
end G3D
