import G3D.Model.InterFlat
/-! calc/distance.py — squared distances, through the same auxiliary constructions as the code
    (D6 fixed: parallel lines use the point–line distance). -/
namespace G3D
open V3

inductive DErr | notPoint | notImpl
deriving DecidableEq, Repr

def distSqPointPoint (a b : V3) : Rat := normSq (sub b a)

/-- `aux_plane = Plane(a, b.dv); foot = intersection(aux_plane, b); distance(a, foot)` -/
def distSqPointLine (a : V3) (b : Line) : Except DErr Rat :=
  match interLinePlane b ⟨a, b.dv⟩ with
  | .ok (some (.point foot)) => .ok (distSqPointPoint a foot)
  | _ => .error .notPoint

/-- `aux_line = Line(a, b.n); foot = intersection(aux_line, b); distance(a, foot)` -/
def distSqPointPlane (a : V3) (b : Plane) : Except DErr Rat :=
  match interLinePlane ⟨a, b.n⟩ b with
  | .ok (some (.point foot)) => .ok (distSqPointPoint a foot)
  | _ => .error .notPoint

def distSqLineLine (a b : Line) : Except DErr Rat :=
  if V3.parallel a.dv b.dv then distSqPointLine a.sv b
  else
    let c := cross a.dv b.dv
    .ok ((dot (sub b.sv a.sv) c)^2 / normSq c)

def distSqLinePlane (a : Line) (b : Plane) : Except DErr Rat :=
  if V3.orthogonal a.dv b.n then distSqPointPlane a.sv b else .ok 0
end G3D
