import G3D.Model.InterBody
/-! # PyRt — the "Python runtime" that tools/extract_handlers.py translates into (hand-written, Mathlib-free)

  `lean/G3D/Extracted/Handlers.lean` is generated statement by statement from the Python AST of the composite
  handlers of calc/intersection.py and the helpers of calc/aux_calc.py.  This file is the complete target
  vocabulary of that translation.  Everything here is a *reading of one Python primitive* in terms of the
  hand-written model (`G3D.Model.*`); nothing here knows anything about a particular handler.

  * **values** — one untyped universe `Val`: `None`, a geometry object (`Obj` of the model), `bool`, `int`, a real
    number (exact `Rat` reading of a float), a `Vector`, a Python `set` of objects, a Python `list`/`tuple` of
    objects (`seq`), a list of numbers (`nums`), a `range`.
  * **control** — the monad `PyM = Except BErr`; `raise` is `throw`, `return` / `continue` / `break` / `for` are
    Lean's own `do`-notation (early `return` inside `for` becomes `forIn` with `ForInStep.done`).
  * **sets** — a Python set of Points / Segments / ConvexPolygons is the duplicate-free list in insertion order;
    `add` deduplicates with the model's reading of `__eq__`/`__hash__` (`addNew` / `addSeg` / `addPolygon`,
    bundled as `addObj`).  Iterating a set iterates that list (order independence is a theorem elsewhere).
  * **errors** — `.bug` : `raise TypeError("Bug detected…")`; `.value` : `raise ValueError(..)` in calc code;
    `.ctor e` : an exception out of a constructor / arithmetic (`CErr`); `.notImpl` : `NotImplementedError` of the
    dispatcher; `.typeMismatch` : the primitive was applied to operands outside the modelled fragment
    (Python would raise AttributeError / TypeError / NotImplementedError or do something we do not model).
  * a generic `intersection(a, b)` is `pyIntersection` = the model's reference dispatcher `interRef`;
    a direct call of a named handler that is not itself extracted is `pyCallHandler` = the model's `runHandler`.
  * `ConvexPolygon.segments()` is a generator in Python; it is read eagerly (`Polygon.segments?`), exactly as
    the hand model does.  The two readings differ only for a polygon with two identical consecutive vertices
    (the constructor never produces one).
  * logging statements (`get_main_logger().<level>(...)`) have no value effect and are dropped by the translator;
    `copy.deepcopy` is the identity (values are immutable here).
-/
namespace G3D.PyRt
open G3D V3

abbrev PyM := Except BErr

/-- the classes that may appear as second argument of `isinstance` -/
inductive PyTy | Point | Line | Plane | Segment | HalfLine | ConvexPolygon | ConvexPolyhedron | Vector
deriving DecidableEq, Repr

inductive Val
  | none
  | obj (o : Obj)
  | bool (b : Bool)
  | int (n : Int)
  | num (q : Rat)
  | vec (v : V3)
  | set (l : List Obj)
  | seq (l : List Obj)
  | nums (l : List Rat)
  | range (lo hi : Int)
deriving Repr

/-- a model result (`None` or an object) as a runtime value -/
def Val.ofOpt : Option Obj → Val
  | .none => .none
  | .some o => .obj o

/-- a model computation as a runtime computation -/
def Val.ofRes (r : ResB) : PyM Val :=
  match r with
  | .ok o => .ok (Val.ofOpt o)
  | .error e => .error e

def ptObj (p : V3) : Obj := .flat (.point p)
def sgObj (s : Seg) : Obj := .flat (.seg s)

/-- a point list of the model as a Python set / list of Points -/
def Val.ptSet (ps : List V3) : Val := .set (ps.map ptObj)
def Val.ptSeq (ps : List V3) : Val := .seq (ps.map ptObj)

/-! ### truthiness, `isinstance`, `is None`, `not`, `and`, `or` -/

def Val.truthy : Val → Bool
  | .none => false
  | .obj _ => true
  | .bool b => b
  | .int n => n != 0
  | .num q => q != 0
  | .vec _ => true
  | .set l => !l.isEmpty
  | .seq l => !l.isEmpty
  | .nums l => !l.isEmpty
  | .range lo hi => decide (lo < hi)

def Val.isInst : Val → PyTy → Bool
  | .obj (.flat (.point _)), .Point => true
  | .obj (.flat (.line _)), .Line => true
  | .obj (.flat (.plane _)), .Plane => true
  | .obj (.flat (.seg _)), .Segment => true
  | .obj (.flat (.halfline _)), .HalfLine => true
  | .obj (.polygon _), .ConvexPolygon => true
  | .obj (.polyhedron _), .ConvexPolyhedron => true
  | .vec _, .Vector => true
  | _, _ => false

def pyIsInstance (v : Val) (t : PyTy) : Val := .bool (v.isInst t)

def pyIsNone : Val → Val
  | .none => .bool true
  | _ => .bool false

def pyNot (v : Val) : Val := .bool (!v.truthy)

/-- `a and b` (short-circuit, returns an operand) -/
def pyAnd (a b : PyM Val) : PyM Val := do
  let x ← a
  if x.truthy then b else pure x

/-- `a or b` (short-circuit, returns an operand) -/
def pyOr (a b : PyM Val) : PyM Val := do
  let x ← a
  if x.truthy then pure x else b

/-! ### numbers -/

inductive CmpOp | lt | le | gt | ge
deriving DecidableEq, Repr

def Val.asRat? : Val → Option Rat
  | .int n => some (n : Rat)
  | .num q => some q
  | _ => .none

def CmpOp.eval (op : CmpOp) (x y : Rat) : Bool :=
  match op with
  | .lt => decide (x < y)
  | .le => decide (x ≤ y)
  | .gt => decide (y < x)
  | .ge => decide (y ≤ x)

def CmpOp.evalInt (op : CmpOp) (x y : Int) : Bool :=
  match op with
  | .lt => decide (x < y)
  | .le => decide (x ≤ y)
  | .gt => decide (y < x)
  | .ge => decide (y ≤ x)

/-- `<`, `<=`, `>`, `>=` on numbers -/
def pyCmp (op : CmpOp) (a b : Val) : PyM Val :=
  match a, b with
  | .int x, .int y => pure (.bool (op.evalInt x y))
  | _, _ =>
    match a.asRat?, b.asRat? with
    | some x, some y => pure (.bool (op.eval x y))
    | _, _ => throw .typeMismatch

/-- `==` : numbers, `None`, and the `__eq__` of Point / Line / Plane / Segment / ConvexPolygon as the model reads
    them (`self == other` is `pyEq self other`) -/
def pyEq (a b : Val) : PyM Val :=
  match a, b with
  | .int x, .int y => pure (.bool (x == y))
  | .none, .none => pure (.bool true)
  | .bool x, .bool y => pure (.bool (x == y))
  | .obj (.flat (.point p)), .obj (.flat (.point q)) => pure (.bool (p == q))
  | .obj (.flat (.line l)), .obj (.flat (.line o)) => pure (.bool (l.eqv o))
  | .obj (.flat (.plane x)), .obj (.flat (.plane y)) => pure (.bool (x.eqv y))
  | .obj (.flat (.seg s)), .obj (.flat (.seg t)) => pure (.bool (s.same t))
  | .obj (.polygon P), .obj (.polygon Q) => pure (.bool (P.same Q))
  | _, _ =>
    match a.asRat?, b.asRat? with
    | some x, some y => pure (.bool (x == y))
    | _, _ => throw .typeMismatch

def pyNe (a b : Val) : PyM Val := do
  let r ← pyEq a b
  pure (pyNot r)

/-- `*` : number × number, Vector × number (scaling) -/
def pyMul (a b : Val) : PyM Val :=
  match a, b with
  | .int x, .int y => pure (.int (x * y))
  | .vec v, _ => match b.asRat? with
    | some k => pure (.vec (smul k v))
    | .none => throw .typeMismatch
  | _, _ =>
    match a.asRat?, b.asRat? with
    | some x, some y => pure (.num (x * y))
    | _, _ => throw .typeMismatch

def pyAdd (a b : Val) : PyM Val :=
  match a, b with
  | .int x, .int y => pure (.int (x + y))
  | .vec u, .vec v => pure (.vec (add u v))
  | _, _ =>
    match a.asRat?, b.asRat? with
    | some x, some y => pure (.num (x + y))
    | _, _ => throw .typeMismatch

def pySub (a b : Val) : PyM Val :=
  match a, b with
  | .int x, .int y => pure (.int (x - y))
  | .vec u, .vec v => pure (.vec (sub u v))
  | _, _ =>
    match a.asRat?, b.asRat? with
    | some x, some y => pure (.num (x - y))
    | _, _ => throw .typeMismatch

/-- `min(list of numbers)` -/
def pyMin : Val → PyM Val
  | .nums (x :: xs) => pure (.num (xs.foldl min x))
  | .nums [] => throw .value
  | _ => throw .typeMismatch

def pyMax : Val → PyM Val
  | .nums (x :: xs) => pure (.num (xs.foldl max x))
  | .nums [] => throw .value
  | _ => throw .typeMismatch

/-! ### collections -/

/-- `__eq__`/`__hash__` identity of the three hashable object kinds that the code puts into sets -/
def objSame : Obj → Obj → Bool
  | .flat (.point p), .flat (.point q) => p == q
  | .flat (.seg s), .flat (.seg t) => s.same t
  | .polygon P, .polygon Q => P.same Q
  | _, _ => false

def objHashable : Obj → Bool
  | .flat (.point _) => true
  | .flat (.seg _) => true
  | .polygon _ => true
  | _ => false

/-- `set.add` on the duplicate-free insertion-ordered list -/
def addObj (l : List Obj) (o : Obj) : List Obj := if l.any (objSame · o) then l else l ++ [o]

def pySetNew : Val := .set []

/-- `s.add(x)` — returns the updated set (the translator rebinds the variable) -/
def pySetAdd (s x : Val) : PyM Val :=
  match s, x with
  | .set l, .obj o => if objHashable o then pure (.set (addObj l o)) else throw .typeMismatch
  | _, _ => throw .typeMismatch

/-- `s.union(t)` / `s | t` -/
def pySetUnion (s t : Val) : PyM Val :=
  match s, t with
  | .set l, .set r => pure (.set (r.foldl addObj l))
  | _, _ => throw .typeMismatch

/-- `l.append(x)` — returns the updated list -/
def pyListAppend (l x : Val) : PyM Val :=
  match l, x with
  | .seq l, .obj o => pure (.seq (l ++ [o]))
  | .nums l, .int n => pure (.nums (l ++ [(n : Rat)]))
  | .nums l, .num q => pure (.nums (l ++ [q]))
  | _, _ => throw .typeMismatch

def allObjs? : List Val → Option (List Obj)
  | [] => some []
  | .obj o :: r => (allObjs? r).map (o :: ·)
  | _ :: _ => .none

def allNums? : List Val → Option (List Rat)
  | [] => some []
  | v :: r => match v.asRat?, allNums? r with
    | some q, some l => some (q :: l)
    | _, _ => .none

/-- a list / tuple display `[a, b, ..]` / `(a, b, ..)` -/
def pyListLit (vs : List Val) : PyM Val :=
  match allObjs? vs with
  | some l => pure (.seq l)
  | .none => match allNums? vs with
    | some l => pure (.nums l)
    | .none => throw .typeMismatch

/-- `list(x)` / `tuple(x)` -/
def pyList : Val → PyM Val
  | .set l => pure (.seq l)
  | .seq l => pure (.seq l)
  | .nums l => pure (.nums l)
  | _ => throw .typeMismatch

/-- `set(x)` -/
def pySet : Val → PyM Val
  | .set l => pure (.set l)
  | .seq l => if l.all objHashable then pure (.set (l.foldl addObj [])) else throw .typeMismatch
  | _ => throw .typeMismatch

def pyLen : Val → PyM Val
  | .set l => pure (.int l.length)
  | .seq l => pure (.int l.length)
  | .nums l => pure (.int l.length)
  | .range lo hi => pure (.int (if lo < hi then hi - lo else 0))
  | _ => throw .typeMismatch

/-- Python index normalisation: a negative index counts from the end -/
def normIdx (len : Nat) (i : Int) : Option Nat :=
  if 0 ≤ i then (if i.toNat < len then some i.toNat else .none)
  else if 0 ≤ (len : Int) + i then some ((len : Int) + i).toNat else .none

/-- `x[i]` -/
def pyIndex (x i : Val) : PyM Val :=
  match x, i with
  | .seq l, .int i =>
    match (normIdx l.length i).bind (l[·]?) with
    | some o => pure (.obj o)
    | .none => throw (.ctor .index)
  | .nums l, .int i =>
    match (normIdx l.length i).bind (l[·]?) with
    | some q => pure (.num q)
    | .none => throw (.ctor .index)
  | _, _ => throw .typeMismatch

/-- `lo, lo+1, .., lo+n-1` -/
def intsFrom (lo : Int) : Nat → List Int
  | 0 => []
  | n + 1 => lo :: intsFrom (lo + 1) n

def pyRange (lo hi : Val) : PyM Val :=
  match lo, hi with
  | .int a, .int b => pure (.range a b)
  | _, _ => throw .typeMismatch

/-- the items a `for` statement visits; a set is visited in insertion order -/
def pyIter : Val → PyM (List Val)
  | .set l => pure (l.map .obj)
  | .seq l => pure (l.map .obj)
  | .nums l => pure (l.map .num)
  | .range lo hi => pure ((intsFrom lo (hi - lo).toNat).map .int)
  | _ => throw .typeMismatch

/-! ### attributes -/

def pyAttr_plane : Val → PyM Val
  | .obj (.polygon P) => pure (.obj (.flat (.plane P.plane)))
  | _ => throw .typeMismatch

def pyAttr_points : Val → PyM Val
  | .obj (.polygon P) => pure (.seq (P.pts.map ptObj))
  | _ => throw .typeMismatch

def pyAttr_center_point : Val → PyM Val
  | .obj (.polygon P) => pure (.obj (.flat (.point P.center)))
  | .obj (.polyhedron B) => pure (.obj (.flat (.point B.center)))
  | _ => throw .typeMismatch

def pyAttr_convex_polygons : Val → PyM Val
  | .obj (.polyhedron B) => pure (.seq (B.faces.map Obj.polygon))
  | _ => throw .typeMismatch

def pyAttr_segment_set : Val → PyM Val
  | .obj (.polyhedron B) => pure (.set (B.edges.map sgObj))
  | _ => throw .typeMismatch

def pyAttr_point_set : Val → PyM Val
  | .obj (.polyhedron B) => pure (.set (B.verts.map ptObj))
  | _ => throw .typeMismatch

def pyAttr_start_point : Val → PyM Val
  | .obj (.flat (.seg s)) => pure (.obj (.flat (.point s.a)))
  | _ => throw .typeMismatch

def pyAttr_end_point : Val → PyM Val
  | .obj (.flat (.seg s)) => pure (.obj (.flat (.point s.b)))
  | _ => throw .typeMismatch

def pyAttr_point : Val → PyM Val
  | .obj (.flat (.halfline h)) => pure (.obj (.flat (.point h.p)))
  | _ => throw .typeMismatch

def pyAttr_vector : Val → PyM Val
  | .obj (.flat (.halfline h)) => pure (.vec h.v)
  | _ => throw .typeMismatch

def pyAttr_line : Val → PyM Val
  | .obj (.flat (.seg s)) => pure (.obj (.flat (.line s.line)))
  | .obj (.flat (.halfline h)) => pure (.obj (.flat (.line h.line)))
  | _ => throw .typeMismatch

def pyAttr_p : Val → PyM Val
  | .obj (.flat (.plane a)) => pure (.obj (.flat (.point a.p)))
  | _ => throw .typeMismatch

def pyAttr_n : Val → PyM Val
  | .obj (.flat (.plane a)) => pure (.vec a.n)
  | _ => throw .typeMismatch

def pyAttr_sv : Val → PyM Val
  | .obj (.flat (.line l)) => pure (.vec l.sv)
  | _ => throw .typeMismatch

def pyAttr_dv : Val → PyM Val
  | .obj (.flat (.line l)) => pure (.vec l.dv)
  | _ => throw .typeMismatch

/-! ### `in` -/

/-- `item in container`  (`container.__contains__(item)`) -/
def pyContains (container item : Val) : PyM Val :=
  match container, item with
  | .obj (.flat (.line l)), .obj (.flat (.point p)) => pure (.bool (l.contains p))
  | .obj (.flat (.plane a)), .obj (.flat (.point p)) => pure (.bool (a.contains p))
  | .obj (.flat (.plane a)), .obj (.flat (.line l)) => pure (.bool (a.containsLine l))
  | .obj (.flat (.plane a)), .obj (.polygon P) => pure (.bool (P.inPlane a))
  | .obj (.flat (.seg s)), .obj (.flat (.point p)) => pure (.bool (s.contains p))
  | .obj (.flat (.halfline h)), .obj (.flat (.point p)) => pure (.bool (h.contains p))
  | .obj (.flat (.halfline h)), .obj (.flat (.halfline g)) => pure (.bool (h.containsHL g))
  | .obj (.polygon P), .obj (.flat (.point p)) => pure (.bool (P.contains p))
  | .obj (.polygon P), .obj (.flat (.seg s)) => pure (.bool (P.containsSeg s))
  | .obj (.polyhedron B), .obj (.flat (.point p)) => pure (.bool (B.contains p))
  | .obj (.polyhedron B), .obj (.flat (.seg s)) => pure (.bool (B.containsSeg s))
  | .obj (.polyhedron B), .obj (.polygon P) => pure (.bool (B.containsPolygon P))
  | _, _ => throw .typeMismatch

/-- `item in container`, operands in source order -/
def pyIn (item container : Val) : PyM Val := pyContains container item

/-! ### constructors -/

def objPoint? : Obj → Option V3
  | .flat (.point p) => some p
  | _ => .none

def objPolygon? : Obj → Option Polygon
  | .polygon P => some P
  | _ => .none

def allPoints? : List Obj → Option (List V3)
  | [] => some []
  | o :: r => match objPoint? o, allPoints? r with
    | some p, some l => some (p :: l)
    | _, _ => .none

def allPolygons? : List Obj → Option (List Polygon)
  | [] => some []
  | o :: r => match objPolygon? o, allPolygons? r with
    | some p, some l => some (p :: l)
    | _, _ => .none

/-- `Segment(Point, Point)` -/
def pySegment (a b : Val) : PyM Val :=
  match a, b with
  | .obj (.flat (.point p)), .obj (.flat (.point q)) =>
    if p = q then throw (.ctor .value) else pure (.obj (.flat (.seg (Seg.mk' p q))))
  | _, _ => throw .typeMismatch

/-- `Line(Point, Point)` -/
def pyLine (a b : Val) : PyM Val :=
  match a, b with
  | .obj (.flat (.point p)), .obj (.flat (.point q)) =>
    if q = p then throw .value else pure (.obj (.flat (.line ⟨p, sub q p⟩)))
  | _, _ => throw .typeMismatch

/-- `Vector(Point, Point)` -/
def pyVector (a b : Val) : PyM Val :=
  match a, b with
  | .obj (.flat (.point p)), .obj (.flat (.point q)) => pure (.vec (sub q p))
  | _, _ => throw .typeMismatch

/-- `ConvexPolygon(pts, reverse=.., check_convex=..)`; `check_convex` is accepted and ignored by the class -/
def pyConvexPolygon (pts reverse _check_convex : Val) : PyM Val :=
  match pts with
  | .seq l => match allPoints? l with
    | some ps => do let P ← liftC (Polygon.mk? ps reverse.truthy); pure (.obj (.polygon P))
    | .none => throw .typeMismatch
  | _ => throw .typeMismatch

/-- `ConvexPolyhedron(faces)` -/
def pyConvexPolyhedron (faces : Val) : PyM Val :=
  match faces with
  | .seq l => match allPolygons? l with
    | some fs => do let B ← liftC (Polyhedron.mk? fs); pure (.obj (.polyhedron B))
    | .none => throw .typeMismatch
  | _ => throw .typeMismatch

/-! ### methods and library functions -/

/-- `cpg.segments()` (read eagerly, see the header) -/
def pyMeth_segments : Val → PyM Val
  | .obj (.polygon P) => do let ss ← liftC P.segments?; pure (.seq (ss.map sgObj))
  | _ => throw .typeMismatch

/-- `u.parallel(v)` on Vectors -/
def pyMeth_parallel (u v : Val) : PyM Val :=
  match u, v with
  | .vec u, .vec v => pure (.bool (V3.parallel u v))
  | _, _ => throw .typeMismatch

/-- `copy.deepcopy(p).move(v)` on a Point -/
def pyMeth_move (x v : Val) : PyM Val :=
  match x, v with
  | .obj (.flat (.point p)), .vec v => pure (.obj (.flat (.point (add p v))))
  | _, _ => throw .typeMismatch

def pyDeepcopy (x : Val) : Val := x

/-- `get_relative_projection_length(v1, v2)` = `(v1 * v2 / |v2|) / |v2|`, exact reading -/
def pyRelProjLen (v1 v2 : Val) : PyM Val :=
  match v1, v2 with
  | .vec v1, .vec v2 => if normSq v2 = 0 then throw (.ctor .zeroDiv) else pure (.num (dot v1 v2 / normSq v2))
  | _, _ => throw .typeMismatch

/-- the generic `intersection(a, b)`: `None` operands give `None`, objects go through the model's dispatcher -/
def pyIntersection (a b : Val) : PyM Val :=
  match a, b with
  | .none, _ => pure .none
  | _, .none => pure .none
  | .obj x, .obj y => Val.ofRes (interRef x y)
  | _, _ => throw .notImpl

/-- `x.intersection(y)` (`GeoBody.intersection`) -/
def pyMeth_intersection (self other : Val) : PyM Val :=
  match self with
  | .obj _ => pyIntersection self other
  | _ => throw .typeMismatch

/-- a direct call `inter_xxx(a, b)` of a handler that is not extracted: the model's handler on the handler's own
    parameter order -/
def pyCallHandler (h : Dispatch.Handler) (a b : Val) : PyM Val :=
  match a, b with
  | .obj x, .obj y => Val.ofRes (runHandler h x y)
  | _, _ => throw .typeMismatch

end G3D.PyRt
