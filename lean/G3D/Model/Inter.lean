import G3D.Model.InterBody
import G3D.Extracted.Dispatch
/-! `intersection(a, b)`: the model's top-level dispatcher is DEFINED FROM the table that
    tools/extract_dispatch.py regenerates from calc/intersection.py on every run. -/
namespace G3D
def inter (a b : Obj) : ResB := interBy Extracted.interCell a b

/-- operands may be `None` -/
def interOpt (a b : Option Obj) : ResB :=
  match a, b with
  | some x, some y => inter x y
  | _, _ => if Extracted.interNoneGuard then .ok none else .error .notImpl
end G3D
