import G3D.Model.Flat
import G3D.Model.Body
/-! Hash keys of the flat primitives (`__hash__` of Point, Line, Plane, Segment, HalfLine),
    exact-arithmetic reading.

    Python hashes a tuple of floats rounded to `get_sig_figures()` digits.  In the exact model every
    rounded float is replaced by an exact, injective representative of the real number it rounds:

    * a component `vᵢ/|v|` of a unit vector is represented by `(sign vᵢ, vᵢ²/(v·v))`;
    * a scalar `d/|n|` is represented by `(sign d, d²/(n·n))`.

    Both representatives are rational and determine the (possibly irrational) real number uniquely. -/
namespace G3D
open V3

/-- sign of a rational as an integer in {-1, 0, 1} -/
def rsgn (x : Rat) : Int := if 0 < x then 1 else if x < 0 then -1 else 0

/-- exact representative of the real number `d / sqrt N` (for `0 < N`) -/
def scalKey (d N : Rat) : Int × Rat := (rsgn d, d * d / N)

/-- exact representative of the unit vector `v / |v|`, component by component -/
def unitKey (v : V3) : (Int × Rat) × (Int × Rat) × (Int × Rat) :=
  (scalKey v.x (normSq v), scalKey v.y (normSq v), scalKey v.z (normSq v))

/-- sign of the first non-zero component (`for c in d: if abs(c) > eps: ...; break`); 0 for the zero vector -/
def firstSign (v : V3) : Int :=
  if v.x ≠ 0 then rsgn v.x else if v.y ≠ 0 then rsgn v.y else rsgn v.z

/-- the orientation whose first non-zero component is positive (`if c < 0: d = -d`) -/
def canon (v : V3) : V3 := if firstSign v < 0 then neg v else v

/-- `Point.__hash__`: the hashed tuple (rounded coordinates and three pairwise products) is a function
    of the coordinates, and its first three entries are the coordinates -/
def Point.hashKey (p : V3) : V3 := p

/-- the literal tuple hashed by `Point.__hash__`: `(x, y, z, x*y, x*z, y*z)` -/
def Point.hashTuple (p : V3) : Rat × Rat × Rat × Rat × Rat × Rat :=
  (p.x, p.y, p.z, p.x * p.y, p.x * p.z, p.y * p.z)

/-- the literal tuple hashed by `Vector.__hash__`: `(x, y, z, x*y, y*z, z*x)` -/
def V3.hashTuple (p : V3) : Rat × Rat × Rat × Rat × Rat × Rat :=
  (p.x, p.y, p.z, p.x * p.y, p.y * p.z, p.z * p.x)

/-- foot of the origin on the line: `sv - (sv·d) d` with `d` the unit direction
    (rational: `sv - ((sv·dv)/(dv·dv)) dv`; the sign of `d` cancels) -/
def Line.foot (l : Line) : V3 := sub l.sv (smul (dot l.sv l.dv / normSq l.dv) l.dv)

/-- `Line.__hash__`: canonical unit direction and foot point -/
def Line.hashKey (l : Line) : ((Int × Rat) × (Int × Rat) × (Int × Rat)) × V3 :=
  (unitKey (canon l.dv), l.foot)

/-- the flipped `d` of `Plane.__hash__`: `d = n·p`, negated together with `n` -/
def Plane.canonD (pl : Plane) : Rat :=
  if firstSign pl.n < 0 then -(dot pl.n pl.p) else dot pl.n pl.p

/-- `Plane.__hash__`: canonical unit normal and the signed distance `d` (the stored normal is a unit
    vector in Python, so `d` is `(n·p)/|n|` for the unnormalised normal of the model) -/
def Plane.hashKey (pl : Plane) : ((Int × Rat) × (Int × Rat) × (Int × Rat)) × (Int × Rat) :=
  (unitKey (canon pl.n), scalKey pl.canonD (normSq pl.n))

/-- a fixed total order on points: lexicographic on the coordinates -/
def V3.lexLe (a b : V3) : Bool :=
  decide (a.x < b.x) || (a.x == b.x && (decide (a.y < b.y) || (a.y == b.y && decide (a.z ≤ b.z))))

/-- `Segment.__hash__`: `(hash(a)+hash(b), hash(a)*hash(b))` is symmetric in the end points and is
    modelled by the unordered pair, represented as the pair sorted by `V3.lexLe` -/
def Seg.hashKey (s : Seg) : V3 × V3 :=
  if V3.lexLe s.a s.b then (Point.hashKey s.a, Point.hashKey s.b) else (Point.hashKey s.b, Point.hashKey s.a)

/-- "same unordered pair of end-point keys" as a relation -/
def Seg.sameKey (s o : Seg) : Bool :=
  (Point.hashKey s.a == Point.hashKey o.a && Point.hashKey s.b == Point.hashKey o.b) ||
  (Point.hashKey s.a == Point.hashKey o.b && Point.hashKey s.b == Point.hashKey o.a)

/-- `HalfLine.__hash__`: `hash(point)` and `hash(vector.normalized())` (combined by sum and product; the
    two hashed tuples carry different type tags, so the combination is modelled as the ordered pair) -/
def HalfLine.hashKey (h : HalfLine) : V3 × ((Int × Rat) × (Int × Rat) × (Int × Rat)) :=
  (Point.hashKey h.p, unitKey h.v)

end G3D
