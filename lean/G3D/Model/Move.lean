import G3D.Model.InterBody
/-! `move` on the flat types (value model: receiver' and returned object), composite membership (`in`),
    and constructors with their rejection branches. Segment/HalfLine `move` is the FIXED variant
    (the cached carrier line is rebuilt); `Seg.movePinned` is the pinned behaviour (stale line). -/
namespace G3D
open V3

def Line.move (l : Line) (v : V3) : Line × Line := let l' : Line := ⟨add l.sv v, l.dv⟩; (l', l')
def Plane.move (p : Plane) (v : V3) : Plane × Plane := let p' : Plane := ⟨add p.p v, p.n⟩; (p', p')
def Seg.move (s : Seg) (v : V3) : Seg × Seg := let s' := Seg.mk' (add s.a v) (add s.b v); (s', s')
def HalfLine.move (h : HalfLine) (v : V3) : HalfLine × HalfLine := let h' := HalfLine.mk' (add h.p v) h.v; (h', h')
/-- pinned `Segment.move`: endpoints moved, `self.line` left as it was -/
def Seg.movePinned (s : Seg) (v : V3) : Seg × Seg :=
  (⟨add s.a v, add s.b v, s.line⟩, Seg.mk' (add s.a v) (add s.b v))

/-! constructors -/
def Line.mk? (a : V3) (dv : V3) : Except CErr Line := if dv = zero then .error .value else .ok ⟨a, dv⟩
def Line.ofPoints? (a b : V3) : Except CErr Line := Line.mk? a (sub b a)
def Seg.mk? (a b : V3) : Except CErr Seg := if a = b then .error .value else .ok (Seg.mk' a b)
def Seg.ofVec? (a v : V3) : Except CErr Seg := if normSq v = 0 then .error .value else .ok (Seg.mk' a (add a v))
def HalfLine.mk? (a b : V3) : Except CErr HalfLine := if a = b then .error .value else .ok (HalfLine.mk' a (sub b a))
def HalfLine.ofVec? (a v : V3) : Except CErr HalfLine := if normSq v = 0 then .error .value else .ok (HalfLine.mk' a v)

/-! composite membership (`x in S`) -/
def Line.containsSeg (l : Line) (s : Seg) : Bool := l.contains s.a && l.contains s.b
def Line.containsHalfLine (l : Line) (h : HalfLine) : Bool := l.contains h.p && V3.parallel h.v l.dv
def Plane.containsSeg (p : Plane) (s : Seg) : Bool := p.contains s.a && p.contains s.b
def Plane.containsHalfLine (p : Plane) (h : HalfLine) : Bool := p.contains h.p && V3.orthogonal h.v p.n
def Seg.containsSeg (s o : Seg) : Bool := s.contains o.a && s.contains o.b
def HalfLine.containsSeg (h : HalfLine) (s : Seg) : Bool := h.contains s.a && h.contains s.b
end G3D
