import G3D.Model.Body
import G3D.Model.Distance
/-! length / area / volume in rational form.
    area   = areaNum / (2·√(n·n))        (fan of triangles from the vertex centroid, Heron per triangle)
    height = heightNum / √(n·n)
    volume = Σ heightNum·areaNum / (6·(n·n))   — rational -/
namespace G3D
open V3

def absQ (x : Rat) : Rat := if x < 0 then -x else x

def Seg.lenSq (s : Seg) : Rat := normSq (sub s.b s.a)

/-- squared edge lengths of the cyclic edge list (`length()` is the sum of their square roots) -/
def Polygon.edgeLenSqs (P : Polygon) : List Rat := (closedPairs P.pts).map (fun e => normSq (sub e.2 e.1))

/-- twice the triangle area times |n| : `|n . ((a-c) × (b-c))|` -/
def triNum (n c a b : V3) : Rat := absQ (dot n (cross (sub a c) (sub b c)))

def Polygon.areaNum (P : Polygon) : Rat :=
  ((closedPairs P.pts).map (fun e => triNum P.plane.n P.center e.1 e.2)).sum

/-- `Pyramid.height()` numerator: `|(apex - p0) . n|` with `p0 = points[0]` -/
def pyramidHeightNum (f : Polygon) (apex : V3) : Rat := absQ (dot (sub apex (f.pts.headD zero)) f.plane.n)

/-- `Pyramid.volume()` = h·A/3 -/
def pyramidVolume (f : Polygon) (apex : V3) : Rat :=
  pyramidHeightNum f apex * f.areaNum / (6 * normSq f.plane.n)

def Polyhedron.volume (B : Polyhedron) : Rat := (B.pyramids.map (fun pa => pyramidVolume pa.1 pa.2)).sum

/-- the `volume()` function recomputes the height through `distance(point, plane)`; its square -/
def pyramidHeightSqViaDistance (f : Polygon) (apex : V3) : Except DErr Rat := distSqPointPlane apex f.plane

def Polyhedron.edgeLenSqs (B : Polyhedron) : List Rat := B.edges.map Seg.lenSq
def Polyhedron.faceAreaNums (B : Polyhedron) : List (Rat × Rat) := B.faces.map (fun f => (f.areaNum, normSq f.plane.n))
end G3D
