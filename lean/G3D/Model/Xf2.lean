import G3D.Model.Xf
import G3D.Model.Angle
import G3D.Model.Measure
/-! C13, second part: the induced action of a transformation `T : Xf` on the operands of `angle` /
    `parallel` / `orthogonal`, on vertex cycles, polygons and polyhedra.
    A polygon keeps its vertex ORDER; its stored normal is mapped as a pseudo-vector
    (`n ↦ det σ · σ n`), which is what keeps the cycle counter-clockwise about the normal when `σ` is a
    reflection. -/
namespace G3D
open V3

def Xf.aobj (T : Xf) : AObj → AObj
  | .line l => .line ⟨T.pt l.sv, T.dir l.dv⟩
  | .plane p => .plane ⟨T.pt p.p, T.nrm p.n⟩
  | .vec v => .vec (T.dir v)

def Xf.line (T : Xf) (l : Line) : Line := ⟨T.pt l.sv, T.dir l.dv⟩
def Xf.plane (T : Xf) (p : Plane) : Plane := ⟨T.pt p.p, T.nrm p.n⟩
def Xf.halfline (T : Xf) (h : HalfLine) : HalfLine := HalfLine.mk' (T.pt h.p) (T.dir h.v)

/-- image of a vertex list -/
def Xf.pts (T : Xf) (l : List V3) : List V3 := l.map T.pt

/-- image of a surface given by vertex cycles -/
def Xf.surface (T : Xf) (fs : List (List V3)) : List (List V3) := fs.map T.pts

/-- pseudo-vector action on a polygon normal -/
def Xf.pnrm (T : Xf) (n : V3) : V3 := smul T.s.det (T.nrm n)

def Xf.seg (T : Xf) (s : Seg) : Seg := Seg.mk' (T.pt s.a) (T.pt s.b)

def Xf.polygon (T : Xf) (P : Polygon) : Polygon :=
  ⟨T.pts P.pts, ⟨T.pt P.plane.p, T.pnrm P.plane.n⟩, T.pt P.center⟩

def Xf.polyhedron (T : Xf) (B : Polyhedron) : Polyhedron :=
  ⟨B.faces.map T.polygon, T.pts B.verts, B.edges.map T.seg,
   B.pyramids.map (fun pa => (T.polygon pa.1, T.pt pa.2)), T.pt B.center⟩
/-! Faces of a solid carry an OUTWARD normal, which is a true vector (`n ↦ σ n`); to stay
    counter-clockwise about it the vertex cycle is reversed when `σ` is a reflection. -/
def Xf.cyc (T : Xf) (l : List V3) : List V3 := if T.s.det = 1 then T.pts l else (T.pts l).reverse

def Xf.face (T : Xf) (P : Polygon) : Polygon :=
  ⟨T.cyc P.pts, ⟨T.pt P.plane.p, T.nrm P.plane.n⟩, T.pt P.center⟩

def Xf.body (T : Xf) (B : Polyhedron) : Polyhedron :=
  ⟨B.faces.map T.face, T.pts B.verts, B.edges.map T.seg,
   B.pyramids.map (fun pa => (T.face pa.1, T.pt pa.2)), T.pt B.center⟩
end G3D
