import G3D.Model.Angle
import G3D.Model.Body
/-! C14, shape builders: `get_circle_point_list`, `Circle`, `Parallelogram` (polygon.py) and
    `Parallelepiped`, `Sphere`, `Cylinder`, `Cone` (polyhedron.py).

    * combinatorial skeletons: the face lists exactly as the Python assembles them, over symbolic vertex ids;
    * the orientation repair of `ConvexPolyhedron.__init__` (`-convex_polygon` for faces seen from inside) as a
      per-face flip mask;
    * the choice of `base_vector` in `get_circle_point_list` with the threshold `cos²(SMALL_ANGLE)` abstracted;
    * exact vertex coordinates of Parallelogram / Parallelepiped.

    (Mathlib-free.) -/
namespace G3D
namespace Builders
open V3

/-! ### generic cycles, counting, closedness -/

/-- consecutive pairs of a path -/
def consecG {α : Type} : List α → List (α × α)
  | a :: b :: l => (a, b) :: consecG (b :: l)
  | _ => []

/-- directed edges of a vertex cycle: (p0,p1),…,(p_{k-1},p0)   (`ConvexPolygon.segments()`) -/
def cyc {α : Type} : List α → List (α × α)
  | [] => []
  | p :: ps => consecG (p :: ps ++ [p])

/-- the vertex cycle of `-polygon`: `ConvexPolygon(points, reverse=True)` re-sorts the same points about the negated
    normal starting from `points[0]`, i.e. keeps the head and reverses the rest -/
def flipCycle {α : Type} : List α → List α
  | [] => []
  | a :: t => a :: t.reverse

/-- apply the orientation repair: face `i` is replaced by `-face` iff `mask[i]` -/
def applyFlips {α : Type} (mask : List Bool) (fs : List (List α)) : List (List α) :=
  List.zipWith (fun b f => if b then flipCycle f else f) mask fs

abbrev Face := List Nat

/-- duplicate-free copy keeping first occurrences (a Python `set` built by successive `add`) -/
def dedup {α : Type} [DecidableEq α] : List α → List α
  | [] => []
  | a :: l => a :: (dedup l).filter (fun b => decide (b ≠ a))

def dirEdges (fs : List Face) : List (Nat × Nat) := fs.flatMap cyc

/-- an undirected edge: the ordered pair (`Segment.__eq__` / `__hash__` ignore the direction) -/
def normEdge (e : Nat × Nat) : Nat × Nat := if e.1 ≤ e.2 then e else (e.2, e.1)

/-- `len(point_set)` -/
def vertexCount (fs : List Face) : Nat := (dedup fs.flatten).length
/-- `len(segment_set)` (undirected, deduplicated) -/
def edgeCount (fs : List Face) : Nat := (dedup ((dirEdges fs).map normEdge)).length
/-- `len(convex_polygons)` -/
def faceCount (fs : List Face) : Nat := fs.length

/-- `_euler_check` : V − E + F = 2 -/
def Euler (fs : List Face) : Prop := vertexCount fs + faceCount fs = edgeCount fs + 2

/-- every face has at least three vertices, pairwise different -/
def Simple (fs : List Face) : Prop := ∀ f ∈ fs, 3 ≤ f.length ∧ f.Nodup

/-- closed surface, unoriented: every undirected edge lies on exactly two faces -/
def ClosedUndir (fs : List Face) : Prop :=
  ∀ e ∈ (dirEdges fs).map normEdge, ((dirEdges fs).map normEdge).count e = 2

/-- closed surface, oriented: every directed edge occurs exactly once and its reverse exactly once -/
def ClosedDir (fs : List Face) : Prop :=
  ∀ e ∈ dirEdges fs, (dirEdges fs).count e = 1 ∧ (dirEdges fs).count (e.2, e.1) = 1

instance (fs : List Face) : Decidable (Euler fs) := by unfold Euler; infer_instance
instance (fs : List Face) : Decidable (Simple fs) := by unfold Simple; infer_instance
instance (fs : List Face) : Decidable (ClosedUndir fs) := by unfold ClosedUndir; infer_instance
instance (fs : List Face) : Decidable (ClosedDir fs) := by unfold ClosedDir; infer_instance

/-! ### kernel-friendly checkers (bit sets in one `Nat`, accumulators forced by a match)
    `G3D/Proofs/Builders.lean` proves them sound for the specifications above. -/

/-- evaluate `x` before continuing (the kernel reduces the match only after `x` is a literal) -/
def force {β : Type} (x : Nat) (f : Nat → β) : β :=
  match x with
  | 0 => f 0
  | a + 1 => f (a + 1)

def setBit (s k : Nat) : Nat := s ||| (1 <<< k)

/-- all ids below `m` -/
def boundedB (m : Nat) (fs : List Face) : Bool := fs.all (fun f => f.all (fun v => Nat.blt v m))

def allDistinctGo : List Nat → Nat → Bool
  | [], _ => true
  | k :: ks, s => match Nat.testBit s k with
    | true => false
    | false => force (setBit s k) (fun s' => allDistinctGo ks s')

def simpleFastB (fs : List Face) : Bool :=
  fs.all (fun f => Nat.ble 3 f.length && allDistinctGo f 0)

/-- number of different keys -/
def distinctGo : List Nat → Nat → Nat → Nat
  | [], _, c => c
  | k :: ks, s, c => match Nat.testBit s k with
    | true => distinctGo ks s c
    | false => force (setBit s k) (fun s' => distinctGo ks s' (c + 1))

def dirKey (m : Nat) (e : Nat × Nat) : Nat := e.1 * m + e.2
def edgeKey (m : Nat) (e : Nat × Nat) : Nat := if e.1 ≤ e.2 then e.1 * m + e.2 else e.2 * m + e.1

def vertexCountFast (fs : List Face) : Nat := distinctGo fs.flatten 0 0
def edgeCountFast (m : Nat) (fs : List Face) : Nat := distinctGo ((dirEdges fs).map (edgeKey m)) 0 0

/-- `s1` = keys seen at least once, `s2` = keys seen at least twice; a third occurrence fails -/
def twiceGo : List Nat → Nat → Nat → Bool
  | [], s1, s2 => Nat.beq s1 s2
  | k :: ks, s1, s2 => match Nat.testBit s2 k with
    | true => false
    | false => match Nat.testBit s1 k with
      | true => force (setBit s2 k) (fun s2' => twiceGo ks s1 s2')
      | false => force (setBit s1 k) (fun s1' => twiceGo ks s1' s2)

def closedUndirFastB (m : Nat) (fs : List Face) : Bool := twiceGo ((dirEdges fs).map (edgeKey m)) 0 0

/-- insert all keys; `0` on a duplicate, else bit set + 1 -/
def insAllGo : List Nat → Nat → Nat
  | [], s => s + 1
  | k :: ks, s => match Nat.testBit s k with
    | true => 0
    | false => force (setBit s k) (fun s' => insAllGo ks s')

def allInGo (s : Nat) : List Nat → Bool
  | [] => true
  | k :: ks => match Nat.testBit s k with
    | true => allInGo s ks
    | false => false

def closedDirFastB (m : Nat) (fs : List Face) : Bool :=
  match insAllGo ((dirEdges fs).map (dirKey m)) 0 with
  | 0 => false
  | s + 1 => allInGo s ((dirEdges fs).map (fun e => dirKey m (e.2, e.1)))

/-! ### Circle: one n-gon on the ids 0..n-1 -/
def circleFaces (n : Nat) : List Face := [List.range n]

/-! ### Cylinder: `cpg_list = [top_circle, bottom_circle] + [(t_s, t_e, b_e, b_s) for s]`
    ids: top ring `i`, bottom ring `n + i` -/
def cylinderFaces (n : Nat) : List Face :=
  [List.range n, (List.range n).map (n + ·)] ++
  (List.range n).map (fun i => [i, (i + 1) % n, n + (i + 1) % n, n + i])

/-- seen from outside: the top circle is counter-clockwise about the height vector, the bottom circle and all the
    side quadrilaterals (top_s → top_e → bottom_e) are clockwise, hence flipped -/
def cylinderFlips (n : Nat) : List Bool := [false, true] ++ List.replicate n true
def cylinderOriented (n : Nat) : List Face := applyFlips (cylinderFlips n) (cylinderFaces n)

/-! ### Cone: `cpg_list = [circle] + [(top_point, c_s, c_e) for s]`; ids: circle `i`, apex `n` -/
def coneFaces (n : Nat) : List Face :=
  List.range n :: (List.range n).map (fun i => [n, i, (i + 1) % n])
def coneFlips (n : Nat) : List Bool := true :: List.replicate n false
def coneOriented (n : Nat) : List Face := applyFlips (coneFlips n) (coneFaces n)

/-! ### Sphere (n1 points per ring, quarter meridian divided into n2; the code needs n2 ≥ 2 because of `tc[0]`)
    rings: `mc` = ring 0, `tc[j]` = ring 1+j, `bc[j]` = ring n2+j  (j = 0..n2-2): 2·n2 − 1 rings;
    id of (ring k, index i) = k·n1 + i ; top pole = (2·n2−1)·n1, bottom pole = (2·n2−1)·n1 + 1 -/
def sMc (_n1 i : Nat) : Nat := i
def sTc (n1 j i : Nat) : Nat := (1 + j) * n1 + i
def sBc (n1 n2 j i : Nat) : Nat := (n2 + j) * n1 + i
def sTop (n1 n2 : Nat) : Nat := (2 * n2 - 1) * n1
def sBot (n1 n2 : Nat) : Nat := (2 * n2 - 1) * n1 + 1

def sphereFaces (n1 n2 : Nat) : List Face :=
  (List.range n1).flatMap (fun i =>
    let s := i
    let e := (i + 1) % n1
    [[sMc n1 s, sMc n1 e, sTc n1 0 e, sTc n1 0 s], [sMc n1 s, sMc n1 e, sBc n1 n2 0 e, sBc n1 n2 0 s]] ++
    (List.range' 1 (n2 - 2)).flatMap (fun j =>
      [[sTc n1 (j - 1) s, sTc n1 (j - 1) e, sTc n1 j e, sTc n1 j s],
       [sBc n1 n2 (j - 1) s, sBc n1 n2 (j - 1) e, sBc n1 n2 j e, sBc n1 n2 j s]]) ++
    [[sTop n1 n2, sTc n1 (n2 - 2) e, sTc n1 (n2 - 2) s], [sBot n1 n2, sBc n1 n2 (n2 - 2) e, sBc n1 n2 (n2 - 2) s]])

/-- upper bands are counter-clockwise seen from outside, lower bands clockwise; the top cap (pole, e, s) is clockwise,
    the bottom cap counter-clockwise -/
def sphereFlips (n1 n2 : Nat) : List Bool :=
  (List.range n1).flatMap (fun _ =>
    [false, true] ++ (List.range' 1 (n2 - 2)).flatMap (fun _ => [false, true]) ++ [true, false])
def sphereOriented (n1 n2 : Nat) : List Face := applyFlips (sphereFlips n1 n2) (sphereFaces n1 n2)

/-! ### Parallelepiped: id `a + 2b + 4c` is the vertex `p + a·v1 + b·v2 + c·v3`.
    `Parallelogram(q, a, b)` passes `(q, q+a, q+b, q+a+b)` to the ConvexPolygon constructor whose angular sort about
    the normal `a × b` returns the cycle `q, q+a, q+a+b, q+b`. -/
def parallelepipedFaces : List Face :=
  [[0, 1, 3, 2],   -- Parallelogram(p, v1, v2)
   [0, 2, 6, 4],   -- Parallelogram(p, v2, v3)
   [0, 1, 5, 4],   -- Parallelogram(p, v1, v3)
   [7, 6, 4, 5],   -- Parallelogram(p_diag, -v1, -v2)
   [7, 5, 1, 3],   -- Parallelogram(p_diag, -v2, -v3)
   [7, 6, 2, 3]]   -- Parallelogram(p_diag, -v1, -v3)
/-- the faces flipped by the constructor when det(v1,v2,v3) > 0 (the complement when det < 0) -/
def parallelepipedFlips : List Bool := [true, true, false, false, false, true]
def parallelepipedOriented : List Face := applyFlips parallelepipedFlips parallelepipedFaces
/-- the mask when det(v1,v2,v3) < 0 -/
def parallelepipedFlipsNeg : List Bool := parallelepipedFlips.map not
def parallelepipedOrientedNeg : List Face := applyFlips parallelepipedFlipsNeg parallelepipedFaces

/-! ### table checks (one Boolean per resolution, evaluated by the kernel) -/
def circleCheck (n : Nat) : Bool :=
  let fs := circleFaces n
  Nat.beq (vertexCountFast fs) n && Nat.beq (edgeCountFast n fs) n && Nat.beq (faceCount fs) 1 &&
  boundedB n fs && simpleFastB fs

/-- counts, Euler, simplicity, closedness (as coded: unoriented; after the flips: oriented) with id bound `m` -/
def solidCheck (m v e f : Nat) (fs oriented : List Face) : Bool :=
  Nat.beq (vertexCountFast fs) v && Nat.beq (edgeCountFast m fs) e && Nat.beq (faceCount fs) f &&
  Nat.beq (v + f) (e + 2) && boundedB m fs && boundedB m oriented && simpleFastB fs &&
  closedUndirFastB m fs && closedDirFastB m oriented

def cylinderCheck (n : Nat) : Bool :=
  solidCheck (2 * n) (2 * n) (3 * n) (n + 2) (cylinderFaces n) (cylinderOriented n)

def coneCheck (n : Nat) : Bool :=
  solidCheck (n + 1) (n + 1) (2 * n) (n + 1) (coneFaces n) (coneOriented n)

def sphereCheck (n1 n2 : Nat) : Bool :=
  solidCheck (n1 * (2 * n2 - 1) + 2) (n1 * (2 * n2 - 1) + 2) (n1 * (4 * n2 - 1)) (2 * n1 * n2)
    (sphereFaces n1 n2) (sphereOriented n1 n2)

def parallelepipedCheck : Bool :=
  solidCheck 8 8 12 6 parallelepipedFaces parallelepipedOriented

/-! ### `get_circle_point_list`: choice of the base vector -/
def ex : V3 := ⟨1, 0, 0⟩
def ey : V3 := ⟨0, 1, 0⟩
def ez : V3 := ⟨0, 0, 1⟩

/-- `angle < SMALL_ANGLE or angle > π − SMALL_ANGLE` ⇔ `cos² angle > cos² SMALL_ANGLE =: c` -/
def nearAxis (c : Rat) (n e : V3) : Bool := decide (c < cosSqVec n e)

/-- `base_vector`: x unless the normal is within SMALL_ANGLE of ±x, then y; `none` = the `raise ValueError("Bug detected")` -/
def baseVector (c : Rat) (n : V3) : Option V3 :=
  if nearAxis c n ex then (if nearAxis c n ey then none else some ey) else some ex

/-- the unnormalised frame: `v1 ∥ n × b`, `v2 ∥ n × v1` -/
def frameW1 (n b : V3) : V3 := cross n b
def frameW2 (n b : V3) : V3 := cross n (cross n b)

/-! ### exact coordinates -/
/-- the ConvexPolygon cycle of `Parallelogram(p, a, b)` -/
def parallelogramPts (p a b : V3) : List V3 := [p, add p a, add (add p a) b, add p b]

/-- the ConvexPolygon record of `Parallelogram(p, a, b)` (proved to be the constructor's result: `parallelogram_mk`) -/
def parallelogramPolygon (p a b : V3) : Polygon :=
  ⟨parallelogramPts p a b, ⟨p, cross a b⟩, meanV (parallelogramPts p a b)⟩

def det3 (a b c : V3) : Rat := dot a (cross b c)

/-- vertex `i` (bits a,b,c) of the parallelepiped -/
def ppVertex (p v1 v2 v3 : V3) (i : Nat) : V3 :=
  add (add (add p (if i % 2 = 1 then v1 else zero)) (if (i / 2) % 2 = 1 then v2 else zero))
    (if (i / 4) % 2 = 1 then v3 else zero)

/-- the point `p + a·v1 + b·v2 + c·v3` of the solid (vertices: a, b, c ∈ {0, 1}) -/
def ppPoint (p v1 v2 v3 : V3) (a b c : Rat) : V3 := add (add (add p (smul a v1)) (smul b v2)) (smul c v3)

/-- the six faces as (plane normal, cycle), as the six `Parallelogram` calls produce them -/
def ppFacesCoded (p v1 v2 v3 : V3) : List (V3 × List V3) :=
  let d := add (add (add p v1) v2) v3
  [(cross v1 v2, parallelogramPts p v1 v2),
   (cross v2 v3, parallelogramPts p v2 v3),
   (cross v1 v3, parallelogramPts p v1 v3),
   (cross (neg v1) (neg v2), parallelogramPts d (neg v1) (neg v2)),
   (cross (neg v2) (neg v3), parallelogramPts d (neg v2) (neg v3)),
   (cross (neg v1) (neg v3), parallelogramPts d (neg v1) (neg v3))]

/-- the six faces as ConvexPolygon records -/
def ppPolygons (p v1 v2 v3 : V3) : List Polygon :=
  let d := add (add (add p v1) v2) v3
  [parallelogramPolygon p v1 v2, parallelogramPolygon p v2 v3, parallelogramPolygon p v1 v3,
   parallelogramPolygon d (neg v1) (neg v2), parallelogramPolygon d (neg v2) (neg v3),
   parallelogramPolygon d (neg v1) (neg v3)]

/-- the orientation repair of `ConvexPolyhedron.__init__`: `if Vector(center, plane.p) * plane.n < 0: face = -face` -/
def orientOut (c : V3) (f : V3 × List V3) : V3 × List V3 :=
  if dot (sub (f.2.headD zero) c) f.1 < 0 then (neg f.1, flipCycle f.2) else f

/-- centre of the parallelepiped (mean of the eight vertices) -/
def ppCentre (p v1 v2 v3 : V3) : V3 := add p (smul (1/2) (add (add v1 v2) v3))

end Builders
end G3D
