import G3D.Model.Body
/-! Executable judges used by the correspondence on objects the IMPLEMENTATION produced: decidable validity of a
    polygon (vertex cycle + normal) and of a polyhedron (faces as (normal, cycle) pairs). -/
namespace G3D
open V3

/-- ordered pairs (b, c) with b before c in the list -/
def orderedPairs : List V3 → List (V3 × V3)
  | [] => []
  | b :: l => l.map (fun c => (b, c)) ++ orderedPairs l

/-- Bool version of `triplesPos`: every ordered triple of the cycle is positively oriented about `n` -/
def triplesPosB (n : V3) : List V3 → Bool
  | [] => true
  | a :: l => (orderedPairs l).all (fun bc => decide (0 < orient n a bc.1 bc.2)) && triplesPosB n l

/-- decidable validity of a polygon given by its normal and vertex cycle: at least three vertices, all in the plane
    through the first vertex with normal `n`, every ordered triple counter-clockwise about `n` -/
def polygonValidB (n : V3) (pts : List V3) : Bool :=
  decide (3 ≤ pts.length) && pts.all (fun p => inPlane n (pts.headD zero) p) && triplesPosB n pts

def Polygon.validB (P : Polygon) : Bool :=
  decide (3 ≤ P.pts.length) && P.pts.all (fun p => G3D.inPlane P.plane.n P.plane.p p) && triplesPosB P.plane.n P.pts

/-- decidable validity of a closed convex polyhedron given by faces (outward normal, vertex cycle):
    every face valid; every vertex on the inner side of every face; every directed edge has its reverse (closed surface);
    Euler's formula on the distinct vertices / undirected edges -/
def polyhedronValidB (faces : List (V3 × List V3)) : Bool :=
  let verts := faces.foldl (fun acc f => f.2.foldl addPt acc) []
  let dedges := faces.flatMap (fun f => closedPairs f.2)
  let uedges := dedges.foldl (fun acc e => if acc.any (fun x => (x.1 == e.1 && x.2 == e.2) || (x.1 == e.2 && x.2 == e.1)) then acc else acc ++ [e]) []
  faces.all (fun f => polygonValidB f.1 f.2) &&
  faces.all (fun f => verts.all (fun v => decide (dot (sub v (f.2.headD zero)) f.1 ≤ 0))) &&
  dedges.all (fun e => dedges.any (fun x => x.1 == e.2 && x.2 == e.1)) &&
  dedges.all (fun e => (dedges.filter (fun x => x.1 == e.1 && x.2 == e.2)).length == 1) &&
  ((verts.length : Int) - uedges.length + faces.length == 2)
end G3D
