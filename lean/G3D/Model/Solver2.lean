/-! Structural model of utils/solver.py (fixed variant: the pivot row index advances separately
    from the column). Exact rational semantics: `null x` is `x = 0`. -/
namespace G3D.Solver2

abbrev Row := List Rat
abbrev Mat := List Row

def absR (x : Rat) : Rat := if x < 0 then -x else x

/-- `find_pivot_row` on column `j`: index of the largest |entry| among the non-zero ones,
    ties towards the larger index (Python `max` over `(abs, i)`). -/
def pivotAux (j : Nat) : List Row → Nat → Option (Rat × Nat) → Option (Rat × Nat)
  | [], _, best => best
  | r :: rs, i, best =>
    if r.getD j 0 = 0 then pivotAux j rs (i+1) best
    else match best with
      | none => pivotAux j rs (i+1) (some (absR (r.getD j 0), i))
      | some (b, bi) =>
        if b ≤ absR (r.getD j 0) then pivotAux j rs (i+1) (some (absR (r.getD j 0), i))
        else pivotAux j rs (i+1) (some (b, bi))

def pivotIdx (rows : List Row) (j : Nat) : Option Nat := (pivotAux j rows 0 none).map (·.2)

/-- swap rows[0] and rows[k], then split off the (new) first row -/
def takePivot (rows : List Row) (k : Nat) : Row × List Row :=
  match rows with
  | [] => ([], [])
  | r0 :: rest => if k = 0 then (r0, rest) else (rest.getD (k-1) [], rest.take (k-1) ++ r0 :: rest.drop k)

def addMul (k : Rat) (src dst : Row) : Row := List.zipWith (fun y x => x + k * y) src dst

/-- `m[i] = m[i] + (-(m[i][j]/m[r][j])) * m[r]` -/
def elimRow (p : Row) (j : Nat) (row : Row) : Row :=
  addMul (-(row.getD j 0 / p.getD j 0)) p row

def gaussRec : Nat → Nat → Nat → List Row → List Row
  | 0, _, _, rows => rows
  | f+1, nc, j, rows =>
    if j + 1 ≥ nc then rows else
    match rows with
    | [] => []
    | r0 :: rs =>
      match pivotIdx (r0 :: rs) j with
      | none => gaussRec f nc (j+1) (r0 :: rs)
      | some k =>
        let pr := takePivot (r0 :: rs) k
        pr.1 :: gaussRec f nc (j+1) (pr.2.map (elimRow pr.1 j))

def gauss (m : Mat) : Mat :=
  let nc := (m.headD []).length
  gaussRec nc nc 0 m

def rowDot (coeffs : Row) (x : List Rat) : Rat := (List.zipWith (· * ·) coeffs x).sum

/-- homogeneous form of "x satisfies the augmented row": row . (x ++ [-1]) = 0 -/
def rowSat (row : Row) (x : List Rat) : Prop := rowDot row (x ++ [-1]) = 0
def Sat (m : Mat) (x : List Rat) : Prop := ∀ row ∈ m, rowSat row x

end G3D.Solver2

namespace G3D.Solver2
/-! ### `Solution` -/

def nullRow (r : Row) : Bool := r.all (· == 0)

/-- `first_nonzero(row)`: scans the whole row (including the right-hand side) -/
def firstNonzero : Row → Nat
  | [] => 0
  | a :: as => if a = 0 then firstNonzero as + 1 else 0

/-- `_solvable`: no row `0 … 0 | c` with `c ≠ 0` -/
def solvable (s : Mat) : Bool :=
  !(s.any (fun row => row.dropLast.all (· == 0) && (row.getLastD 0 != 0)))

def nonNullRows (s : Mat) : List Row := s.filter (fun r => !nullRow r)
def varargs (n : Nat) (s : Mat) : Nat := n - (nonNullRows s).length
def pivotCols (s : Mat) : List Nat := (nonNullRows s).map firstNonzero

/-- pass 1: rows with exactly one non-null coefficient fix their variable -/
def pass1 (s : Mat) (vals : List (Option Rat)) : List (Option Rat) :=
  s.foldl (fun vals row =>
    let cs := row.dropLast
    if (cs.filter (· != 0)).length = 1 then
      let var := firstNonzero cs
      vals.set var (some (row.getLastD 0 / row.getD var 0))
    else vals) vals

/-- pass 2 (fixed): walking the variables from the last one, every still-unset non-pivot variable
    takes the next value popped from the end of `v` -/
def pass2 (piv : List Nat) : Nat → List Rat → List (Option Rat) → List (Option Rat)
  | 0, _, vals => vals
  | i+1, v, vals =>
    if v.isEmpty then vals
    else if vals.getD i none = none ∧ i ∉ piv then pass2 piv i v.dropLast (vals.set i (some (v.getLastD 0)))
    else pass2 piv i v vals

inductive Err | noSolution | wrongArity | noneUsed
deriving Repr, DecidableEq

/-- `sum(-1 * row[j] * vals[j] for j in range(tbd+1, n))`; multiplying by `None` raises -/
def sumNeg : List Rat → List (Option Rat) → Except Err Rat
  | a :: as, some v :: vs => do let r ← sumNeg as vs; pure (-1 * a * v + r)
  | _ :: _, none :: _ => .error .noneUsed
  | _, _ => pure 0

/-- pass 3: back substitution, rows in reverse order -/
def pass3 : List Row → List (Option Rat) → Except Err (List (Option Rat))
  | [], vals => pure vals
  | row :: rest, vals => do
    let vals' ← pass3 rest vals
    if nullRow row then pure vals' else
    let tbd := firstNonzero row
    let s ← sumNeg ((row.drop (tbd+1)).dropLast) (vals'.drop (tbd+1))
    pure (vals'.set tbd (some ((s + row.getLastD 0) / row.getD tbd 0)))

def call (n : Nat) (s : Mat) (v : List Rat) : Except Err (List (Option Rat)) :=
  if !solvable s then .error .noSolution
  else if v.length ≠ varargs n s then .error .wrongArity
  else pass3 s (pass2 (pivotCols s) n v (pass1 s (List.replicate n none)))

def solve (m : Mat) : Mat := gauss m
end G3D.Solver2
