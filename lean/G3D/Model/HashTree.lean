/-! What `hash` of a Python tuple is applied to, for the translator of the `__hash__` bodies (tools/extract_khash.py).

    `hash((tag, e1, e2, ...))` is modelled as an UNINTERPRETED function `H : List (HItem α) → Int` of the list of items; an item is
    a tag string, a number (of the number type `α` the kernel is walked on: `Rat`, or the reals where a square root occurs) or an
    integer — the value of another `hash(...)`, or a sum / product / rounding of such values, so that the items form a tree
    through `H`.  Nothing is assumed about `H`: every statement of `Proofs/KTieKhash*.lean` holds for all of them.  (No Mathlib.) -/
namespace G3D

inductive HItem (α : Type) where
  | tag (s : String)
  | num (x : α)
  | int (i : Int)

/-- the items read through a map of the numbers -/
def HItem.map {α β : Type} (f : α → β) : HItem α → HItem β
  | .tag s => .tag s
  | .num x => .num (f x)
  | .int i => .int i

/-- tag and the six numbers of the tuples hashed by `Point.__hash__` / `Vector.__hash__` -/
def HItem.tuple6 {α : Type} (tag : String) (t : α × α × α × α × α × α) : List (HItem α) :=
  [.tag tag, .num t.1, .num t.2.1, .num t.2.2.1, .num t.2.2.2.1, .num t.2.2.2.2.1, .num t.2.2.2.2.2]

end G3D
