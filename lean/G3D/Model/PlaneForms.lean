import G3D.Model.Flat
import G3D.Model.Body
/-! geometry/plane.py: constructor forms and read-back forms (normal kept unnormalised). -/
namespace G3D
open V3

/-- `Plane(a, b, c, d)`: `solution = solve([[a,b,c,d]]); n = Vector(a,b,c).normalized(); p = Point(*solution(1,1))` -/
def Plane.ofGF (a b c d : Rat) : Except CErr Plane :=
  if (⟨a, b, c⟩ : V3) = zero then .error .zeroDiv
  else match Solver2.call 3 (Solver2.solve [[a, b, c, d]]) [1, 1] with
    | .ok [some x, some y, some z] => .ok ⟨⟨x, y, z⟩, ⟨a, b, c⟩⟩
    | _ => .error .value

/-- `general_form()` : `(n0, n1, n2, n . p)` -/
def Plane.generalForm (P : Plane) : Rat × Rat × Rat × Rat := (P.n.x, P.n.y, P.n.z, dot P.n P.p)

/-- `Plane(Point, Point, Point)` and `Plane(Point, Vector, Vector)` -/
def Plane.ofPoints (a b c : V3) : Except CErr Plane :=
  let n := cross (sub b a) (sub c a)
  if n = zero then .error .zeroDiv else .ok ⟨a, n⟩
def Plane.ofPVV (u v w : V3) : Except CErr Plane :=
  let n := cross v w
  if n = zero then .error .zeroDiv else .ok ⟨u, n⟩
def Plane.ofPN (p n : V3) : Except CErr Plane := if n = zero then .error .zeroDiv else .ok ⟨p, n⟩
def Plane.neg (P : Plane) : Plane := ⟨P.p, V3.neg P.n⟩
end G3D
