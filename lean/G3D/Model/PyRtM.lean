import G3D.Model.PyRt
import G3D.Model.Move2
import G3D.Model.Angle
import G3D.Model.PlaneForms
/-! # PyRtM — additions to the "Python runtime" `G3D.PyRt` for the METHODS of the geometry classes
    (target vocabulary of tools/mextract.py; hand-written, Mathlib-free; `PyRt.lean` itself is unchanged).

  * **`self`** — inside a method the receiver is not a value but the *record of its attributes* (`Self`, one slot
    `f_<attr> : Option Val` per attribute name used by any class; `none` = attribute not set, reading it is Python's
    AttributeError, here `.typeMismatch`).  `self.x = e` is the functional update `{ self with f_x := some e }`;
    a method that assigns attributes returns the updated record together with its result (`PyM (Self × Val)`),
    exactly as `G3D.Model.Move` reads `move` (receiver', returned).  A bare `self` used as a value
    (`x in self`, `self.parallel(o)`) is `pyPack_<Class> self`: the model object with these attributes.
    `Class(args)` = `new_<Class> args` (generated): run `__init__` on the blank record `Self.empty`, then pack.
  * **aliasing** — values are immutable here.  An in-place mutation of an attribute's referent
    (`self.p.move(v)`, `self.sv[0] += c`) is read as the replacement of that attribute by the mutated value.  That is
    exact as long as nothing else observes the referent: `Segment`, `HalfLine`, `ConvexPolygon`, `ConvexPolyhedron`
    deep-copy their arguments (checked: the generated `*_effects` lists, `G3D.Extracted.ownerCopies`), `Line` and
    `Plane` KEEP the references they are given (`Line(Vector, Vector)`: `sv`, `dv`; `Plane(p, n)`: `p`), so
    `Plane.move` also moves the caller's Point and the Line returned by `Line.move` shares `sv`/`dv` with the receiver;
    these effects on OTHER objects are outside this value model (they are the subject of C20 / `G3D.Model.Heap`).
    `copy.deepcopy` is the identity on values.
  * **tolerance** — `get_eps()` may only occur as `c ± get_eps()` on one side of `<, <=, >, >=`; it is read as a
    positive infinitesimal (`pyCmpTol`): `x < c + eps` ↦ `x ≤ c`, `x > c - eps` ↦ `c ≤ x`, `x < c - eps` ↦ `x < c`,
    `x > c + eps` ↦ `c < x`; in particular `abs(R) < eps` ↦ `R = 0`, `R > -eps` ↦ `0 ≤ R`, `R < 1 + eps` ↦ `R ≤ 1`.
    A `length()` compared with `eps` is read through its square (`pyMeth_normSq`); `a / u.length() / u.length()`
    is `a / |u|²` (`pyDivLenSq`).
  * **`normalized()`** is the identity on non-zero vectors (ZeroDivisionError on the zero vector): normals and frame
    vectors are kept unnormalised, as everywhere in the model.  That is exact for every use that is positively
    homogeneous in the normalised vector (sign tests, zero tests, the angular ORDER — `G3D.Proofs.AngleKey`).
    The translator rejects sums / differences of normalised vectors except the idiom of `HalfLine.__eq__`
    (`pySameDir`).  `Pyramid.height` would be a numerator reading and is not translated.
  * **the angle dictionary** of `ConvexPolygon._check_and_sort_points` (`d[atan2(z, y) (+2π if < 0)] = point`, then
    `[d[k] for k in sorted(d)]`) is the association list `AngDict` kept sorted by the model's exact comparator
    (`angInsert`): `G3D.Proofs.AngleKey.Polygon.mk?_pts_sorted_dict` proves that this is what the float dictionary keyed by
    `atan2` and `sorted` produce (equal keys overwrite, keys ascend).
  * **Pyramid** objects are not part of `Obj`; `Pyramid(cp, p)` is the two-element list `[cp, p]` and a set of pyramids
    (identity-hashed, so `add` always appends) is kept flattened (`pySetAddM`).
  * `hash(a) == hash(b)` used as an equality test is NOT translated (fails closed): equal hashes do not imply equal objects. -/
namespace G3D.PyRt
open G3D V3

/-! ### the receiver record -/
structure Self where
  f_sv : Option Val := none
  f_dv : Option Val := none
  f_p : Option Val := none
  f_n : Option Val := none
  f_line : Option Val := none
  f_start_point : Option Val := none
  f_end_point : Option Val := none
  f_point : Option Val := none
  f_vector : Option Val := none
  f_points : Option Val := none
  f_plane : Option Val := none
  f_center_point : Option Val := none
  f_convex_polygons : Option Val := none
  f_point_set : Option Val := none
  f_segment_set : Option Val := none
  f_pyramid_set : Option Val := none
  f_convex_polygon : Option Val := none

def Self.empty : Self := {}

/-- reading an attribute slot -/
def pyFld : Option Val → PyM Val
  | some v => pure v
  | .none => throw .typeMismatch

def lnObj (l : Line) : Obj := .flat (.line l)
def plObj (a : Plane) : Obj := .flat (.plane a)

def objSeg? : Obj → Option Seg
  | .flat (.seg s) => some s
  | _ => .none

def allSegs? : List Obj → Option (List Seg)
  | [] => some []
  | o :: r => match objSeg? o, allSegs? r with
    | some s, some l => some (s :: l)
    | _, _ => .none

/-- a flattened set of pyramids `[f1, c1, f2, c2, ..]` -/
def unflatPyr? : List Obj → Option (List (Polygon × V3))
  | [] => some []
  | .polygon f :: .flat (.point c) :: r => (unflatPyr? r).map ((f, c) :: ·)
  | _ => .none

def flatPyr : List (Polygon × V3) → List Obj
  | [] => []
  | (f, c) :: r => .polygon f :: .flat (.point c) :: flatPyr r

def Self.ofLine (l : Line) : Self := { f_sv := some (.vec l.sv), f_dv := some (.vec l.dv) }
def Self.ofPlane (a : Plane) : Self := { f_p := some (.obj (ptObj a.p)), f_n := some (.vec a.n) }
def Self.ofSeg (s : Seg) : Self :=
  { f_line := some (.obj (lnObj s.line)), f_start_point := some (.obj (ptObj s.a)), f_end_point := some (.obj (ptObj s.b)) }
def Self.ofHalfLine (h : HalfLine) : Self :=
  { f_line := some (.obj (lnObj h.line)), f_point := some (.obj (ptObj h.p)), f_vector := some (.vec h.v) }
def Self.ofPolygon (P : Polygon) : Self :=
  { f_points := some (Val.ptSeq P.pts), f_plane := some (.obj (plObj P.plane)), f_center_point := some (.obj (ptObj P.center)) }
def Self.ofPolyhedron (B : Polyhedron) : Self :=
  { f_convex_polygons := some (.seq (B.faces.map Obj.polygon)), f_point_set := some (Val.ptSet B.verts),
    f_segment_set := some (.set (B.edges.map sgObj)), f_pyramid_set := some (.set (flatPyr B.pyramids)),
    f_center_point := some (.obj (ptObj B.center)) }
def Self.ofPyramid (f : Polygon) (c : V3) : Self :=
  { f_convex_polygon := some (.obj (.polygon f)), f_point := some (.obj (ptObj c)) }

def pyPack_Line (s : Self) : PyM Val :=
  match s.f_sv, s.f_dv with
  | some (.vec a), some (.vec d) => pure (.obj (lnObj ⟨a, d⟩))
  | _, _ => throw .typeMismatch

def pyPack_Plane (s : Self) : PyM Val :=
  match s.f_p, s.f_n with
  | some (.obj (.flat (.point p))), some (.vec n) => pure (.obj (plObj ⟨p, n⟩))
  | _, _ => throw .typeMismatch

def pyPack_Segment (s : Self) : PyM Val :=
  match s.f_line, s.f_start_point, s.f_end_point with
  | some (.obj (.flat (.line l))), some (.obj (.flat (.point a))), some (.obj (.flat (.point b))) =>
    pure (.obj (sgObj ⟨a, b, l⟩))
  | _, _, _ => throw .typeMismatch

def pyPack_HalfLine (s : Self) : PyM Val :=
  match s.f_line, s.f_point, s.f_vector with
  | some (.obj (.flat (.line l))), some (.obj (.flat (.point p))), some (.vec v) =>
    pure (.obj (.flat (.halfline ⟨p, v, l⟩)))
  | _, _, _ => throw .typeMismatch

def pyPack_ConvexPolygon (s : Self) : PyM Val :=
  match s.f_points, s.f_plane, s.f_center_point with
  | some (.seq l), some (.obj (.flat (.plane a))), some (.obj (.flat (.point c))) =>
    match allPoints? l with
    | some ps => pure (.obj (.polygon ⟨ps, a, c⟩))
    | .none => throw .typeMismatch
  | _, _, _ => throw .typeMismatch

def pyPack_ConvexPolyhedron (s : Self) : PyM Val :=
  match s.f_convex_polygons, s.f_point_set, s.f_segment_set, s.f_pyramid_set, s.f_center_point with
  | some (.seq fs), some (.set vs), some (.set es), some (.set ps), some (.obj (.flat (.point c))) =>
    match allPolygons? fs, allPoints? vs, allSegs? es, unflatPyr? ps with
    | some fs, some vs, some es, some ps => pure (.obj (.polyhedron ⟨fs, vs, es, ps, c⟩))
    | _, _, _, _ => throw .typeMismatch
  | _, _, _, _, _ => throw .typeMismatch

/-- a Pyramid is the list `[convex_polygon, point]` -/
def pyPack_Pyramid (s : Self) : PyM Val :=
  match s.f_convex_polygon, s.f_point with
  | some (.obj (.polygon f)), some (.obj (.flat (.point c))) => pure (.seq [.polygon f, .flat (.point c)])
  | _, _ => throw .typeMismatch

/-! ### numbers and tolerance -/

def pyAbs (v : Val) : PyM Val :=
  match v with
  | .int n => pure (.int (if n < 0 then -n else n))
  | .num q => pure (.num (if q < 0 then -q else q))
  | _ => throw .typeMismatch

def pyFloat (v : Val) : PyM Val :=
  match v.asRat? with
  | some q => pure (.num q)
  | .none => throw .typeMismatch

/-- true division -/
def pyDiv (a b : Val) : PyM Val :=
  match a.asRat?, b.asRat? with
  | some x, some y => if y = 0 then throw (.ctor .zeroDiv) else pure (.num (x / y))
  | _, _ => throw .typeMismatch

/-- `x op c + eps` (`plus = true`) / `x op c - eps` (`plus = false`), eps a positive infinitesimal -/
def tolEval (op : CmpOp) (plus : Bool) (x c : Rat) : Bool :=
  match op, plus with
  | .lt, true => decide (x ≤ c)
  | .le, true => decide (x ≤ c)
  | .lt, false => decide (x < c)
  | .le, false => decide (x < c)
  | .gt, true => decide (c < x)
  | .ge, true => decide (c < x)
  | .gt, false => decide (c ≤ x)
  | .ge, false => decide (c ≤ x)

def pyCmpTol (op : CmpOp) (plus : Bool) (x c : Val) : PyM Val :=
  match x.asRat?, c.asRat? with
  | some x, some c => pure (.bool (tolEval op plus x c))
  | _, _ => throw .typeMismatch

/-! ### Vector / Point primitives (the arithmetic itself is tied by the kernel translators, `G3D.Proofs.KTie*`) -/

def pyVectorZero : Val := .vec zero

/-- `p.pv()` -/
def pyMeth_pv : Val → PyM Val
  | .obj (.flat (.point p)) => pure (.vec p)
  | _ => throw .typeMismatch

/-- `Point(vector)` -/
def pyPoint1 : Val → PyM Val
  | .vec v => pure (.obj (ptObj v))
  | _ => throw .typeMismatch

/-- `Point(x, y, z)` -/
def pyPoint3 (x y z : Val) : PyM Val :=
  match x.asRat?, y.asRat?, z.asRat? with
  | some x, some y, some z => pure (.obj (ptObj ⟨x, y, z⟩))
  | _, _, _ => throw .typeMismatch

def pyAttrM_x : Val → PyM Val
  | .obj (.flat (.point p)) => pure (.num p.x)
  | _ => throw .typeMismatch
def pyAttrM_y : Val → PyM Val
  | .obj (.flat (.point p)) => pure (.num p.y)
  | _ => throw .typeMismatch
def pyAttrM_z : Val → PyM Val
  | .obj (.flat (.point p)) => pure (.num p.z)
  | _ => throw .typeMismatch

/-- the class attribute `class_level` -/
def pyAttrM_class_level : Val → PyM Val
  | .obj (.flat (.point _)) => pure (.int 0)
  | .obj (.flat (.line _)) => pure (.int 1)
  | .obj (.flat (.plane _)) => pure (.int 2)
  | .obj (.flat (.seg _)) => pure (.int 3)
  | .obj (.polygon _) => pure (.int 4)
  | .obj (.polyhedron _) => pure (.int 5)
  | .obj (.flat (.halfline _)) => pure (.int 6)
  | _ => throw .typeMismatch

/-- `u.normalized()`, unnormalised reading (see the header) -/
def pyMeth_normalized : Val → PyM Val
  | .vec v => if v = zero then throw (.ctor .zeroDiv) else pure (.vec v)
  | _ => throw .typeMismatch

def pyMeth_cross (u v : Val) : PyM Val :=
  match u, v with
  | .vec u, .vec v => pure (.vec (cross u v))
  | _, _ => throw .typeMismatch

def pyMeth_orthogonal (u v : Val) : PyM Val :=
  match u, v with
  | .vec u, .vec v => pure (.bool (V3.orthogonal u v))
  | _, _ => throw .typeMismatch

/-- the square of `u.length()` (only for comparisons of a length with `eps`) -/
def pyMeth_normSq : Val → PyM Val
  | .vec v => pure (.num (normSq v))
  | _ => throw .typeMismatch

/-- `a / u.length() / u.length()` -/
def pyDivLenSq (a u : Val) : PyM Val :=
  match a.asRat?, u with
  | some a, .vec u => if normSq u = 0 then throw (.ctor .zeroDiv) else pure (.num (a / normSq u))
  | _, _ => throw .typeMismatch

/-- `(u.normalized() - w.normalized()).length() < eps`: same direction -/
def pySameDir (u w : Val) : PyM Val :=
  match u, w with
  | .vec u, .vec w =>
    if u = zero ∨ w = zero then throw (.ctor .zeroDiv)
    else pure (.bool (V3.parallel u w && decide (0 < dot u w)))
  | _, _ => throw .typeMismatch

/-- `*`: additionally the dot product of two Vectors -/
def pyMulM (a b : Val) : PyM Val :=
  match a, b with
  | .vec u, .vec v => pure (.num (dot u v))
  | _, _ => pyMul a b

/-- unary minus: numbers, Vector, Plane (`Plane.__neg__`), ConvexPolygon (`ConvexPolygon.__neg__`) -/
def pyNegM : Val → PyM Val
  | .int n => pure (.int (-n))
  | .num q => pure (.num (-q))
  | .vec v => pure (.vec (neg v))
  | .obj (.flat (.plane a)) => if a.n = zero then throw (.ctor .zeroDiv) else pure (.obj (plObj a.neg))
  | .obj (.polygon P) => do let Q ← liftC P.neg?; pure (.obj (.polygon Q))
  | _ => throw .typeMismatch

/-- `x[i]`: additionally the components of a Vector -/
def pyIndexM (x i : Val) : PyM Val :=
  match x, i with
  | .vec v, .int 0 => pure (.num v.x)
  | .vec v, .int 1 => pure (.num v.y)
  | .vec v, .int 2 => pure (.num v.z)
  | .vec _, _ => throw (.ctor .index)
  | _, _ => pyIndex x i

/-- `x[i] = c` on a Vector or a list; returns the updated container -/
def pySetItemM (x i c : Val) : PyM Val :=
  match x, i, c with
  | .vec v, .int 0, _ => match c.asRat? with | some q => pure (.vec ⟨q, v.y, v.z⟩) | .none => throw .typeMismatch
  | .vec v, .int 1, _ => match c.asRat? with | some q => pure (.vec ⟨v.x, q, v.z⟩) | .none => throw .typeMismatch
  | .vec v, .int 2, _ => match c.asRat? with | some q => pure (.vec ⟨v.x, v.y, q⟩) | .none => throw .typeMismatch
  | .seq l, .int i, .obj o =>
    match normIdx l.length i with
    | some k => pure (.seq (l.set k o))
    | .none => throw (.ctor .index)
  | _, _, _ => throw .typeMismatch

/-! ### equality, membership -/

/-- `==`: additionally Vector == Vector (exact reading of `Vector.__eq__`) -/
def pyEqM (a b : Val) : PyM Val :=
  match a, b with
  | .vec u, .vec v => pure (.bool (decide (u = v)))
  | _, _ => pyEq a b

def pyNeM (a b : Val) : PyM Val := do
  let r ← pyEqM a b
  pure (pyNot r)

/-- `item in container`: additionally the composite cells of the flat containers -/
def pyInM (item container : Val) : PyM Val :=
  match container, item with
  | .obj (.flat (.line l)), .obj (.flat (.seg s)) => pure (.bool (l.containsSeg s))
  | .obj (.flat (.line l)), .obj (.flat (.halfline h)) => pure (.bool (l.containsHalfLine h))
  | .obj (.flat (.plane a)), .obj (.flat (.seg s)) => pure (.bool (a.containsSeg s))
  | .obj (.flat (.plane a)), .obj (.flat (.halfline h)) => pure (.bool (a.containsHalfLine h))
  | .obj (.flat (.seg s)), .obj (.flat (.seg t)) => pure (.bool (s.containsSeg t))
  | .obj (.flat (.halfline h)), .obj (.flat (.seg s)) => pure (.bool (h.containsSeg s))
  -- `x in <list / tuple>`: some element is `x` or `== x` (the model's equality of the hashable kinds)
  | .seq os, .obj x => if objHashable x then pure (.bool (os.any (objSame x ·))) else throw .typeMismatch
  | _, _ => pyContains container item

/-- `other.in_(container)` -/
def pyMeth_in_ (other container : Val) : PyM Val :=
  match other, container with
  | .obj (.flat (.seg s)), .obj (.flat (.line l)) => pure (.bool (l.containsSeg s))
  | .obj (.flat (.seg s)), .obj (.flat (.plane a)) => pure (.bool (a.containsSeg s))
  | .obj (.flat (.halfline h)), .obj (.flat (.line l)) => pure (.bool (l.containsHalfLine h))
  | .obj (.flat (.halfline h)), .obj (.flat (.plane a)) => pure (.bool (a.containsHalfLine h))
  | .obj (.polygon P), .obj (.flat (.plane a)) => pure (.bool (P.inPlane a))
  | .obj (.polygon _), .obj _ => throw .notImpl
  | _, _ => throw .typeMismatch

def toAObj? : Val → Option AObj
  | .obj (.flat (.line l)) => some (.line l)
  | .obj (.flat (.plane a)) => some (.plane a)
  | .vec v => some (.vec v)
  | _ => .none

/-- `GeoBody.parallel(self, other)` = `calc.angle.parallel` -/
def pyGeo_parallel (a b : Val) : PyM Val :=
  match toAObj? a, toAObj? b with
  | some x, some y => match parallelG x y with
    | some r => pure (.bool r)
    | .none => throw .notImpl
  | _, _ => throw .notImpl

/-- `GeoBody.orthogonal(self, other)` = `calc.angle.orthogonal` -/
def pyGeo_orthogonal (a b : Val) : PyM Val :=
  match toAObj? a, toAObj? b with
  | some x, some y => match orthogonalG x y with
    | some r => pure (.bool r)
    | .none => throw .notImpl
  | _, _ => throw .notImpl

/-- `utils.solver.null(x)`: `abs(x) < eps` -/
def pyNull (x : Val) : PyM Val :=
  match x.asRat? with
  | some q => pure (.bool (q == 0))
  | .none => throw .typeMismatch

/-! ### constructors of other classes (their own `__init__` is tied separately: `new_<Class>_eq`) -/

def ofCtor {α} (f : α → Obj) (r : Except CErr α) : PyM Val :=
  match r with
  | .ok a => .ok (.obj (f a))
  | .error e => .error (.ctor e)

/-- `Line(a, b)`: Point/Vector, Point/Vector -/
def pyLineM (a b : Val) : PyM Val :=
  match a, b with
  | .obj (.flat (.point p)), .obj (.flat (.point q)) => ofCtor lnObj (Line.ofPoints? p q)
  | .obj (.flat (.point p)), .vec d => ofCtor lnObj (Line.mk? p d)
  | .vec p, .vec d => ofCtor lnObj (Line.mk? p d)
  | .vec p, .obj (.flat (.point q)) => ofCtor lnObj (Line.ofPoints? p q)
  | _, _ => throw .typeMismatch

/-- `Plane(p, n)` -/
def pyPlane2 (p n : Val) : PyM Val :=
  match p, n with
  | .obj (.flat (.point p)), .vec n => ofCtor plObj (Plane.ofPN p n)
  | _, _ => throw .typeMismatch

/-- `Plane(a, b, c)` from three Points -/
def pyPlane3 (a b c : Val) : PyM Val :=
  match a, b, c with
  | .obj (.flat (.point a)), .obj (.flat (.point b)), .obj (.flat (.point c)) => ofCtor plObj (Plane.ofPoints a b c)
  | _, _, _ => throw .typeMismatch

/-- `Segment(a, b)`: Point, Point/Vector -/
def pySegmentM (a b : Val) : PyM Val :=
  match a, b with
  | .obj (.flat (.point p)), .obj (.flat (.point q)) => ofCtor sgObj (Seg.mk? p q)
  | .obj (.flat (.point p)), .vec v => ofCtor sgObj (Seg.ofVec? p v)
  | _, _ => throw (.ctor .value)

/-- `HalfLine(a, b)`: Point, Point/Vector -/
def pyHalfLineM (a b : Val) : PyM Val :=
  match a, b with
  | .obj (.flat (.point p)), .obj (.flat (.point q)) => ofCtor (fun h => .flat (.halfline h)) (HalfLine.mk? p q)
  | .obj (.flat (.point p)), .vec v => ofCtor (fun h => .flat (.halfline h)) (HalfLine.ofVec? p v)
  | _, _ => throw (.ctor .value)

/-- `Pyramid(cp, p, direct_call=..)` -/
def pyPyramid (cp p _direct_call : Val) : PyM Val :=
  match cp, p with
  | .obj (.polygon f), .obj (.flat (.point c)) =>
    if f.plane.contains c then throw (.ctor .value) else pure (.seq [.polygon f, .flat (.point c)])
  | _, _ => throw (.ctor .value)

/-! ### in-place `move` -/

/-- the receiver after the statement `x.move(v)` (x a Point) -/
def pyMoveInPlace (x v : Val) : PyM Val :=
  match x, v with
  | .obj (.flat (.point p)), .vec v => pure (.obj (ptObj (Point.move p v).1))
  | .obj (.flat (.point _)), _ => throw .notImpl
  | _, _ => throw .typeMismatch

/-- the object `x.move(v)` returns (x a Point or a ConvexPolygon); the in-place effect on `x` itself is dropped by the
    translator only where `x` is dead afterwards (see `*_effects`) -/
def pyMoveRet (x v : Val) : PyM Val :=
  match x, v with
  | .obj (.flat (.point p)), .vec v => pure (.obj (ptObj (Point.move p v).2))
  | .obj (.polygon P), .vec v => do let Q ← liftC (P.move v).2; pure (.obj (.polygon Q))
  | .obj _, _ => throw .notImpl
  | _, _ => throw .typeMismatch

/-! ### collections -/

/-- `s.add(x)`: additionally a Pyramid `[cp, p]` into a (flattened) set of pyramids -/
def pySetAddM (s x : Val) : PyM Val :=
  match s, x with
  | .set l, .seq [.polygon f, .flat (.point c)] => pure (.set (l ++ [.polygon f, .flat (.point c)]))
  | _, _ => pySetAdd s x

/-- `sorted(set(points), key=points.index)`: the duplicate-free list, first occurrences kept -/
def pyDedupFirst : Val → PyM Val
  | .seq l => match allPoints? l with
    | some ps => pure (Val.ptSeq (dedupV ps))
    | .none => throw .typeMismatch
  | _ => throw .typeMismatch

/-- the dictionary `angle -> point` of `_check_and_sort_points`, kept in key order (see the header) -/
abbrev AngDict := List ((Rat × Rat) × V3)

def pyAngDictNew : AngDict := []

/-- `a = math.atan2(z, y); if a < 0: a += 2 * math.pi; d[a] = point` -/
def pyAngDictSet (d : AngDict) (y z p : Val) : PyM AngDict :=
  match y.asRat?, z.asRat?, p with
  | some y, some z, .obj (.flat (.point p)) => pure (angInsert (y, z) p d)
  | _, _, _ => throw .typeMismatch

/-- `[d[k] for k in sorted(d)]` -/
def pyAngDictSortedValues (d : AngDict) : Val := Val.ptSeq (d.map (·.2))

/-- a sum of square roots `0 + x1.length() + x2.length() + ..` is represented by the list of the radicands -/
def pySqrtSumAdd (acc x : Val) : PyM Val :=
  match acc, x with
  | .int 0, .obj (.flat (.seg s)) => pure (.nums [s.lenSq])
  | .nums l, .obj (.flat (.seg s)) => pure (.nums (l ++ [s.lenSq]))
  | _, _ => throw .typeMismatch

end G3D.PyRt
