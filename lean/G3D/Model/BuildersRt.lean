import Mathlib.Analysis.SpecialFunctions.Trigonometric.Inverse
import G3D.Extracted.Consts
import G3D.Proofs.BuildersReal
/-! The "Python runtime" of the builder translator (tools/extract_builders.py → G3D/Extracted/Builders.lean):
    the real-number reading of the `Vector` / `Point` operations the shape builders call.  Hand-written, small, and the
    ONLY vocabulary the generated file uses besides `R3.add/sub/smul/dot/cross`, `Real.cos/sin/pi`, `List.*`.

      Python                                   here
      ---------------------------------------  -------------------------------------------------------------
      x_unit_vector() / y_.. / z_..            `xUnit` / `yUnit` / `zUnit`
      SMALL_ANGLE                              `smallAngleR`   (the value extracted into Extracted/Consts.lean)
      v.length()      (self*self) ** 0.5       `vLength v = √(v·v)`
      v.normalized()  float(1/|v|) * v         `vNormalized v = (1/|v|)·v`
      a.angle(b)      acos(clamp(a·b/(|a||b|)))  `vAngle a b`
      a.parallel(b)   (get_eps() made explicit) `vParallel eps a b`
      copy.deepcopy(p).move(v)                 `R3.add p v`     (`move` returns a new Point; the receiver is a fresh copy)
      raise ValueError(..) / TypeError(..)     `throw "ValueError"` / `throw "TypeError"` in `PyE = Except String`

    Trusted readings (not proved, stated in the generated header as well): floats are reals; Python ints that are
    sizes / indices are naturals (truncated subtraction: the tie theorems carry `3 ≤ n`, `2 ≤ n2`, under which every
    subtraction in the code is exact); `xs[i]` is `xs.getD i default` (Python: IndexError out of range — again excluded
    by the hypotheses of the ties); division by zero (Python: ZeroDivisionError) is Lean's `x / 0 = 0` and is excluded by
    the hypotheses `normal ≠ 0` of the ties. -/
namespace G3D
namespace BuildersRt
open Real BuildersReal BuildersReal.R3

/-- the value, or the class name of the raised exception -/
abbrev PyE := Except String

def xUnit : R3 := ⟨1, 0, 0⟩
def yUnit : R3 := ⟨0, 1, 0⟩
def zUnit : R3 := ⟨0, 0, 1⟩

/-- `SMALL_ANGLE` (utils/constant.py, extracted by tools/extract_consts.py) -/
noncomputable def smallAngleR : ℝ := ((G3D.Extracted.smallAngle : ℚ) : ℝ)

/-- `Vector.length`: `(self * self) ** 0.5` -/
noncomputable def vLength (a : R3) : ℝ := √(dot a a)

/-- `Vector.normalized`: `float(1 / self.length()) * self` -/
noncomputable def vNormalized (a : R3) : R3 := smul (1 / vLength a) a

/-- `Vector.angle`: `cosine = (a*b)/(|a|*|b|)`, `max(-1.0, min(1.0, cosine))`, `math.acos` -/
noncomputable def vAngle (a b : R3) : ℝ := arccos (max (-1) (min 1 (dot a b / (vLength a * vLength b))))

/-- `Vector.__eq__`: all three `abs(difference) < get_eps()` -/
def vEq (eps : ℝ) (a b : R3) : Prop := |a.x - b.x| < eps ∧ |a.y - b.y| < eps ∧ |a.z - b.z| < eps

/-- `Vector.parallel`: `self == 0 or other == 0`, `self == other`, else
    `abs(abs(self*other) - |self|*|other|) < get_eps()*|self|` -/
noncomputable def vParallel (eps : ℝ) (a b : R3) : Prop :=
  (vEq eps a R3.zero ∨ vEq eps b R3.zero) ∨ vEq eps a b ∨ |(|dot a b|) - vLength a * vLength b| < eps * vLength a

noncomputable instance (eps : ℝ) (a b : R3) : Decidable (vParallel eps a b) := Classical.propDecidable _

end BuildersRt
end G3D
