import G3D.Model.PlaneForms
import G3D.Model.Move
/-! geometry/plane.py and geometry/line.py: the remaining read-back forms
    (`Plane.parametric`, `Plane.point_normal`, `Line.parametric`); normal kept unnormalised. -/
namespace G3D
open V3

/-- a solver result that is exactly three numbers (`Vector(*s(...))`); anything else raises -/
def vecOfVals : Except Solver2.Err (List (Option Rat)) → Except CErr V3
  | .ok [some x, some y, some z] => .ok ⟨x, y, z⟩
  | _ => .error .value

/-- `Plane.parametric()`:
    `s = solve([list(n)+[0]]); v = Vector(*s(1,1));`
    `s = solve([list(n)+[0], list(v)+[0]]); w = Vector(*s(1)); return (p, v, w)`.
    The normal is kept unnormalised: the solution of a homogeneous system does not depend on the
    scale of `n` (same pivot pattern, and the back substitution divides by the pivot). -/
def Plane.parametric (P : Plane) : Except CErr (V3 × V3 × V3) := do
  let v ← vecOfVals (Solver2.call 3 (Solver2.solve [[P.n.x, P.n.y, P.n.z, 0]]) [1, 1])
  let w ← vecOfVals (Solver2.call 3 (Solver2.solve [[P.n.x, P.n.y, P.n.z, 0], [v.x, v.y, v.z, 0]]) [1])
  pure (P.p, v, w)

/-- `Plane.point_normal()` : `(p, n)` -/
def Plane.pointNormal (P : Plane) : V3 × V3 := (P.p, P.n)

/-- `Line.parametric()` : `(sv, dv)` -/
def Line.parametric (l : Line) : V3 × V3 := (l.sv, l.dv)

end G3D
