/-! utils/constant.py as a state machine, and the tolerance-aware readings of Point/Vector `__eq__` and
    of the rounded hash key (exact rational arithmetic; `round(x, k)` is round-half-even on x·10^k). -/
namespace G3D.Tol

structure Cfg where
  eps : Rat
  sig : Int
deriving DecidableEq, Repr

def pow10 (k : Nat) : Rat := (10 : Rat) ^ k

/-- `1 / 10**k` for an integer `k` (negative `k` gives a power of ten ≥ 1) -/
def pow10neg (k : Int) : Rat := if 0 ≤ k then 1 / pow10 k.toNat else pow10 (-k).toNat

/-- does `k = round(log10(1/e))` hold?  i.e. `10^(2k-1) ≤ e⁻² < 10^(2k+1)` (√10 is irrational, no ties) -/
def isSigOf (e : Rat) (k : Int) : Bool :=
  decide (0 < e) && decide (pow10neg (-(2*k-1)) ≤ 1 / (e*e)) && decide (1 / (e*e) < pow10neg (-(2*k+1)))

/-- search the integer `k` in a window (floats cannot represent eps outside 1e-320..1e308) -/
def sigOf (e : Rat) : Option Int :=
  ((List.range 700).map (fun (i : Nat) => (Int.ofNat i) - 350)).find? (isSigOf e)

def init : Cfg := ⟨1 / pow10 10, 10⟩

/-- `set_eps(eps)`: `SIG_FIGURES = round(log10(1/eps))` -/
def setEps (_ : Cfg) (e : Rat) : Option Cfg := (sigOf e).map (fun k => ⟨e, k⟩)
/-- `set_sig_figures(n)`: `FLOAT_EPS = 1 / 10**n` -/
def setSig (_ : Cfg) (n : Int) : Cfg := ⟨pow10neg n, n⟩

inductive Op | setEps (e : Rat) | setSig (n : Int) | setEpsDefault | setSigDefault
deriving Repr

def step (c : Cfg) : Op → Option Cfg
  | .setEps e => setEps c e
  | .setSig n => some (setSig c n)
  | .setEpsDefault => setEps c (1 / pow10 10)
  | .setSigDefault => some (setSig c 10)

def run (c : Cfg) : List Op → Option Cfg
  | [] => some c
  | op :: ops => (step c op).bind (fun c' => run c' ops)

/-- `abs(a - b) < eps` on each coordinate -/
def absR (x : Rat) : Rat := if x < 0 then -x else x
def coordEq (c : Cfg) (a b : Rat) : Bool := decide (absR (a - b) < c.eps)
end G3D.Tol
