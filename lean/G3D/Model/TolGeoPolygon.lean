import G3D.Model.TolGeo

/-! Tolerance-aware model of `ConvexPolygon.__contains__(Point)` (geometry/polygon.py:258-280) over ℝ. -/
namespace G3D.TolGeo
open R3

/-- the state of a `ConvexPolygon` that `__contains__` reads: `self.plane` (polygon.py:150-152, built from the first three
    points in CONSTRUCTOR order) and `self.points` (polygon.py:251-252, the tuple sorted by angle about the centre) -/
structure Polygon (n : Nat) where
  plane : Plane
  pts : Fin n → R3

/-- `index_1 = 0 if i == len(self.points) - 1 else i + 1` polygon.py:268-272 -/
def nextIdx {n : Nat} (i : Fin n) : Fin n := ⟨(i.val + 1) % n, Nat.mod_lt _ (Fin.pos i)⟩

/-- the quantity compared for edge `i`, polygon.py:263, 274-277:
    `the_normal = self.plane.n.normalized()`; `v0 = Vector(points[i], points[i+1])`; `v1 = the_normal.cross(v0)`;
    `vec = Vector(points[i], other)`; `vec * v1` -/
noncomputable def Polygon.edgeVal {n : Nat} (G : Polygon n) (i : Fin n) (x : R3) : ℝ :=
  dot (sub x (G.pts i)) (cross (normalized G.plane.n) (sub (G.pts (nextIdx i)) (G.pts i)))

/-- `ConvexPolygon.__contains__(Point)` polygon.py:260-280: `r1 = other in self.plane`; `r2` is False iff some edge has
    `vec * v1 < -get_eps()`; `return r1 and r2` -/
noncomputable def Polygon.containsT {n : Nat} (eps : ℝ) (G : Polygon n) (x : R3) : Prop :=
  Plane.containsT eps G.plane x ∧ ∀ i : Fin n, ¬ (G.edgeVal i x < -eps)

/-- the polygon as built by the constructor from points `P` already in sorted order, first three constructor points
    `a b c` (polygon.py:152: `Plane(points[0], points[1], points[2])`) -/
noncomputable def Polygon.ofPoints {n : Nat} (a b c : R3) (P : Fin n → R3) : Polygon n :=
  ⟨Plane.ofPoints a b c, P⟩

end G3D.TolGeo
