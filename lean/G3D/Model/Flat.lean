import G3D.Model.Vec
import G3D.Model.Solver2
/-! Flat primitives (Point, Line, Plane, Segment, HalfLine): membership, equality and the 15 flat×flat
    intersection handlers of calc/intersection.py, exact-arithmetic reading. -/
namespace G3D
open V3

def V3.orthogonal (u v : V3) : Bool := dot u v == 0

structure Plane where
  p : V3
  n : V3        -- kept unnormalised
deriving DecidableEq, Repr

structure Seg where
  a : V3
  b : V3
  line : Line   -- cached at construction (`self.line = Line(a, b)`)
deriving DecidableEq, Repr

structure HalfLine where
  p : V3
  v : V3
  line : Line   -- cached at construction (`self.line = Line(a, b)`)
deriving DecidableEq, Repr

def Line.WF (l : Line) : Prop := l.dv ≠ zero
def Plane.WF (pl : Plane) : Prop := pl.n ≠ zero
def Seg.WF (s : Seg) : Prop := s.a ≠ s.b ∧ s.line = ⟨s.a, sub s.b s.a⟩
def HalfLine.WF (h : HalfLine) : Prop := h.v ≠ zero ∧ h.line = ⟨h.p, h.v⟩

def Seg.mk' (a b : V3) : Seg := ⟨a, b, ⟨a, sub b a⟩⟩
def HalfLine.mk' (p v : V3) : HalfLine := ⟨p, v, ⟨p, v⟩⟩

/-- `Line.__eq__`: `Point(other.sv) in self and other.dv.parallel(self.dv)` -/
def Line.eqv (l o : Line) : Bool := l.contains o.sv && V3.parallel o.dv l.dv

/-- `Plane.__contains__(Point)`: `|x.n - p.n| < eps` -/
def Plane.contains (pl : Plane) (x : V3) : Bool := dot x pl.n - dot pl.p pl.n == 0
/-- `Plane.__contains__(Line)`: `Point(l.sv) in self and parallel(self, l)` (= `l.dv ⟂ n`) -/
def Plane.containsLine (pl : Plane) (l : Line) : Bool := pl.contains l.sv && V3.orthogonal l.dv pl.n
/-- `Plane.__eq__`: `self.p in other and self.n.parallel(other.n)` -/
def Plane.eqv (a b : Plane) : Bool := b.contains a.p && V3.parallel a.n b.n

/-- `Segment.__contains__(Point)` -/
def Seg.contains (s : Seg) (x : V3) : Bool :=
  let r1 := s.line.contains x
  let v := sub s.b s.a
  let v1 := sub x s.a
  if normSq v1 == 0 then true
  else
    let rel := dot v1 v / normSq v
    r1 && decide (0 ≤ rel) && decide (rel ≤ 1)

/-- `HalfLine.__contains__(Point)` -/
def HalfLine.contains (h : HalfLine) (x : V3) : Bool :=
  if h.line.contains x then decide (0 ≤ dot (sub x h.p) h.v) else false

end G3D
