/-! Vocabulary of the dispatch tables that tools/extract_dispatch.py regenerates from the source. -/
namespace G3D.Dispatch

inductive Ty | point | line | plane | seg | halfline | polygon | polyhedron | vector | pyramid
deriving DecidableEq, Repr

/-- the 28 handlers of calc/intersection.py -/
inductive Handler
  | inter_point_point | inter_point_line | inter_point_plane | inter_point_segment | inter_point_halfline
  | inter_point_convexpolygon | inter_point_convexpolyhedron | inter_line_line | inter_line_plane
  | inter_line_segment | inter_line_halfline | inter_line_convexpolygon | inter_line_convexpolyhedron
  | inter_plane_plane | inter_plane_segment | inter_plane_halfline | inter_plane_convexpolygon
  | inter_plane_convexpolyhedron | inter_segment_segment | inter_segment_halfline
  | inter_segment_convexpolygon | inter_segment_convexpolyhedron | inter_halfline_halfline
  | inter_convexpolygon_halfline | inter_convexpolyhedron_halfline | inter_convexpolygon_convexpolygon
  | inter_convexpolygon_convexPolyhedron | inter_convexpolyhedron_convexpolyhedron
  | unknown (name : String)
deriving DecidableEq, Repr

/-- what a branch of an isinstance chain does -/
inductive Cell
  | call (h : Handler) (swap : Bool)   -- `return h(a, b)` / `return h(b, a)`
  | swap                               -- `return f(b, a)` (same function, swapped arguments)
  | compute                            -- a branch that computes a value
  | retNone
  | raise (exc : String)
  | retExc (exc : String)              -- returns an exception object instead of raising it
  | fallthrough                        -- no branch and no final else
deriving DecidableEq, Repr

def geoTypes : List Ty := [.point, .line, .plane, .seg, .halfline, .polygon, .polyhedron]
def allTypes : List Ty := geoTypes ++ [.vector, .pyramid]

def Cell.isCall : Cell → Bool
  | .call (.unknown _) _ => false
  | .call _ _ => true
  | _ => false

def Cell.raises : Cell → Bool
  | .raise _ => true
  | _ => false

/-- a cell that yields a value: a computing branch, or a swap whose mirror cell computes -/
def Cell.handles (tbl : Ty → Ty → Cell) (a b : Ty) : Bool :=
  match tbl a b with
  | .compute => true
  | .swap => (match tbl b a with | .compute => true | _ => false)
  | _ => false
/-- result types named by the documentation table (docs/source/example_operation.rst) -/
inductive ResTy | none | point | line | plane | seg | halfline | polygon | polyhedron
deriving DecidableEq, Repr
end G3D.Dispatch
